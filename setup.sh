#!/bin/sh
# Build the overlay venv (offline): /venv's packages + z3-solver from the wheelhouse.
set -e
HERE="$(cd "$(dirname "$0")" && pwd)"
cd "$HERE"
if [ -x .venv/bin/python ] && .venv/bin/python -c 'import z3, gevent' 2>/dev/null; then
  exit 0
fi
rm -rf .venv
/venv/bin/python -m venv .venv
echo "import site; site.addsitedir('/venv/lib/python3.12/site-packages')" > .venv/lib/python3.12/site-packages/_overlay.pth
.venv/bin/pip install -q --no-index --find-links /opt/veriftools/wheels z3-solver
.venv/bin/python -c 'import z3, gevent; print("overlay ok", z3.get_version_string())'
