"""Pre-existing C04 problem (pristine code): when a delivery fails permanently,
Queue removes the message from the disk storage BEFORE the bounce that replaces
it has been written.  A crash in between leaves neither the message nor its
bounce on disk: the mail was accepted, is never delivered, and the sender is
never told.

A child process runs a real Queue over a DiskStorage with a relay that rejects
the message permanently, and dies (os._exit) just before the k-th file-system
effect (mkstemp / aio_write / rename / unlink) after enqueue() had returned.
For every k the parent re-opens the storage and looks for either the original
message or a bounce addressed to its sender (queued, or already handed to the
relay, which accepts bounces).

Run as:  cd <repo root> && /venv/bin/python SEED/preexisting_1.py
Exits 1 when some crash point leaves nothing at all (the violation), 0 else.
"""

import os
import sys
import json
import shutil
import tempfile
import warnings
import subprocess

warnings.simplefilter('ignore')
sys.path.insert(0, os.getcwd())

KILLED = 77
SENDER = 'sender@example.com'
RCPT = 'rcpt@example.org'


def dirs(root):
    return [os.path.join(root, d) for d in ('env', 'meta', 'tmp')]


def child(root, kill_at, scenario):
    import gevent
    import slimta.diskstorage as ds
    from slimta.queue import Queue
    from slimta.relay import Relay, PermanentRelayError, \
        TransientRelayError
    from slimta.envelope import Envelope

    state = {'n': 0, 'trace': []}

    def effect(name, fn):
        def wrapper(*args, **kwargs):
            if state['n'] == kill_at:
                os._exit(KILLED)
            state['n'] += 1
            state['trace'].append(name)
            return fn(*args, **kwargs)
        return wrapper

    ds.mkstemp = effect('mkstemp', ds.mkstemp)
    ds.aio_write = effect('aio_write', ds.aio_write)
    for name in ('rename', 'replace', 'remove', 'unlink'):
        setattr(os, name, effect(name, getattr(os, name)))

    class RejectingRelay(Relay):
        # Rejects the mail for RCPT for good; the bounce for SENDER is
        # delivered (and that fact recorded) all right.
        def attempt(self, envelope, attempts):
            if envelope.recipients == [SENDER]:
                fd = os.open(os.path.join(root, 'bounce-delivered'),
                             os.O_WRONLY | os.O_CREAT, 0o600)
                os.close(fd)
                return None
            if scenario == 'whole':      # Queue._perm_fail()
                raise PermanentRelayError('550 5.1.1 no such user')
            elif scenario == 'per-rcpt':  # Queue._handle_partial_relay()
                return {RCPT: PermanentRelayError('550 5.1.1 no such user')}
            else:                        # Queue._retry_later(), no backoff
                raise TransientRelayError('450 4.0.0 try again later')

    storage = ds.DiskStorage(*dirs(root))
    queue = Queue(storage, RejectingRelay())
    queue.start()
    env = Envelope(SENDER, [RCPT])
    env.parse(b'From: sender@example.com\r\nSubject: hello\r\n\r\nbody\r\n')
    results = queue.enqueue(env)
    with open(os.path.join(root, 'acked'), 'w') as f:
        json.dump({'id': results[0][1], 'effects_at_ack': state['n']}, f)
    for i in range(300):                 # let the queue finish its work
        gevent.sleep(0.01)
        if os.path.exists(os.path.join(root, 'bounce-delivered')) \
                and not storage.ops.get_ids():
            break
    with open(os.path.join(root, 'done'), 'w') as f:
        json.dump({'n': state['n'], 'trace': state['trace']}, f)
    os._exit(0)


def run_child(root, kill_at, scenario):
    for d in dirs(root):
        os.makedirs(d)
    return subprocess.call([sys.executable, os.path.abspath(__file__),
                            '--child', root, str(kill_at), scenario],
                           stderr=subprocess.DEVNULL)


def survivors(root):
    """What a restarted queue would find: list of (sender, recipients)."""
    import slimta.diskstorage as ds
    storage = ds.DiskStorage(*dirs(root))
    found = []
    for timestamp, id in storage.load():
        env, attempts = storage.get(id)
        found.append((env.sender, list(env.recipients)))
    return found


def explore(base, scenario):
    print('--- scenario %r' % scenario)
    root = os.path.join(base, scenario + '-dry')
    os.makedirs(root)
    if run_child(root, -1, scenario) != 0:
        print('could not run the scenario at all')
        return None
    done = json.load(open(os.path.join(root, 'done')))
    acked = json.load(open(os.path.join(root, 'acked')))
    print('without a crash: %d file-system effects: %s'
          % (done['n'], ' '.join(done['trace'])))
    print('enqueue() returned after effect #%d; final content of the '
          'storage: %r' % (acked['effects_at_ack'], survivors(root)))
    lost = []
    for kill_at in range(acked['effects_at_ack'], done['n'] + 1):
        root = os.path.join(base, '%s-k%03d' % (scenario, kill_at))
        os.makedirs(root)
        run_child(root, kill_at, scenario)
        if not os.path.exists(os.path.join(root, 'acked')):
            continue                     # died before the acknowledgement
        found = survivors(root)
        original = any(s == SENDER and r == [RCPT] for s, r in found)
        bounce = any(r == [SENDER] for s, r in found) or \
            os.path.exists(os.path.join(root, 'bounce-delivered'))
        print('crash before effect #%-2d -> original message: %-3s  '
              'bounce queued or delivered: %-3s' % (
                  kill_at, 'yes' if original else 'no',
                  'yes' if bounce else 'no'))
        if not original and not bounce:
            lost.append(kill_at)
    return lost


def main():
    import logging
    logging.disable(logging.CRITICAL)
    base = tempfile.mkdtemp(prefix='c04pre')
    try:
        bad = False
        for scenario in ('whole', 'per-rcpt', 'too-many-retries'):
            lost = explore(base, scenario)
            if lost is None:
                return 2
            if lost:
                bad = True
                print('VIOLATION (%s): after a crash before effect(s) %s the '
                      'accepted message is gone and no bounce exists: nothing '
                      'will ever be delivered or reported to %s'
                      % (scenario, lost, SENDER))
        if bad:
            return 1
        print('OK: at every crash point the message or its bounce survives')
        return 0
    finally:
        shutil.rmtree(base, ignore_errors=True)


if __name__ == '__main__':
    if len(sys.argv) > 1 and sys.argv[1] == '--child':
        child(sys.argv[2], int(sys.argv[3]), sys.argv[4])
    else:
        sys.exit(main())
