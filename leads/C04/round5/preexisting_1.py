"""Pre-existing (pristine tree): the queue removes a permanently failed message
from the disk storage BEFORE the bounce for it has been written.

A process kill between the two (i.e. at any file-system effect of the bounce's
own DiskStorage.write(), up to the rename of its .meta file) leaves neither the
original message nor a bounce on disk: the acknowledged message has vanished
without delivery and without any notification of its sender, and a new queue
over the same directories has nothing to resume.

Three ways into the same window are exercised:
  perm     - the relay raises PermanentRelayError           (Queue._perm_fail)
  giveup   - transient failure, backoff() returns None      (Queue._retry_later)
  partial  - per-recipient results, one recipient 5xx       (Queue._handle_partial_relay)

Exits 1 (violation shown) when for some kill point after enqueue() returned
the new storage contains neither the original message nor a bounce for it
(and no bounce was delivered before the kill either); exits 0 otherwise.  Run from the repository root.
"""
from __future__ import print_function

import os
import sys
import shutil
import logging
import tempfile

sys.path.insert(0, os.getcwd())

import gevent  # noqa: E402

import slimta.diskstorage as ds  # noqa: E402
from slimta.diskstorage import DiskStorage  # noqa: E402
from slimta.envelope import Envelope  # noqa: E402
from slimta.queue import Queue  # noqa: E402
from slimta.relay import Relay, PermanentRelayError, \
    TransientRelayError  # noqa: E402


class Kill(BaseException):
    pass


class Faults(object):
    """After arm(), the k-th file-system effect and everything after it does
    not happen any more: the process is dead."""

    def __init__(self):
        self.armed = False
        self.dead = False
        self.count = 0
        self.kill_at = None
        self.trace = []

    def effect(self, name):
        if self.dead:
            raise Kill()
        if not self.armed:
            return
        n = self.count
        self.count += 1
        self.trace.append(name)
        if n == self.kill_at:
            self.dead = True
            raise Kill()

    def install(self):
        real_mkstemp, real_aio_write = ds.mkstemp, ds.aio_write
        real_rename, real_remove = os.rename, os.remove
        self._real = (real_mkstemp, real_aio_write, real_rename, real_remove)

        def mkstemp(*a, **kw):
            self.effect('mkstemp')
            return real_mkstemp(*a, **kw)

        def aio_write(*a, **kw):
            self.effect('write')
            return real_aio_write(*a, **kw)

        def rename(*a, **kw):
            self.effect('rename')
            return real_rename(*a, **kw)

        def remove(*a, **kw):
            self.effect('unlink')
            return real_remove(*a, **kw)

        ds.mkstemp, ds.aio_write = mkstemp, aio_write
        os.rename, os.remove = rename, remove

    def uninstall(self):
        ds.mkstemp, ds.aio_write, os.rename, os.remove = self._real


FAULTS = Faults()

SENDER = 'sender@example.com'
RCPTS = ['one@example.com', 'two@example.com']


class ScenarioRelay(Relay):

    def __init__(self, scenario):
        super(ScenarioRelay, self).__init__()
        self.scenario = scenario
        self.bounce_delivered = False

    def attempt(self, envelope, attempts):
        if not envelope.sender:
            # The bounce itself is delivered fine.
            self.bounce_delivered = True
            return None
        if self.scenario == 'perm':
            raise PermanentRelayError('550 5.1.1 No such user')
        elif self.scenario == 'giveup':
            raise TransientRelayError('450 4.2.0 Try again later')
        else:
            return {RCPTS[0]: None,
                    RCPTS[1]: PermanentRelayError('550 5.1.1 No such user')}


def run(scenario, kill_at):
    base = tempfile.mkdtemp(prefix='c04pre')
    dirs = [os.path.join(base, d) for d in ('env', 'meta', 'tmp')]
    for d in dirs:
        os.mkdir(d)
    FAULTS.armed = FAULTS.dead = False
    FAULTS.count = 0
    FAULTS.trace = []
    FAULTS.kill_at = kill_at
    try:
        relay = ScenarioRelay(scenario)
        queue = Queue(DiskStorage(*dirs), relay,
                      backoff=lambda envelope, attempts: None)
        queue.start()
        env = Envelope(SENDER, list(RCPTS))
        env.parse(b'Subject: important\r\nFrom: sender@example.com\r\n\r\n'
                  b'important text\r\n')
        FAULTS.armed = False
        results = queue.enqueue(env)      # acknowledged when this returns
        assert len(results) == 1 and isinstance(results[0][1], str)
        FAULTS.armed = True               # enqueue() did not yield after the
        #                                   write: nothing has run yet
        for _ in range(200):
            gevent.sleep(0.002)
            if FAULTS.dead:
                break
        finished = not FAULTS.dead
        FAULTS.armed = False
        queue.kill()
        gevent.sleep(0.01)
        trace = list(FAULTS.trace)

        # "Restart": a new storage over the same directories.
        FAULTS.dead = False
        store = DiskStorage(*dirs)
        original = bounce = False
        for timestamp, id in store.load():
            try:
                found, attempts = store.get(id)
            except KeyError:
                continue
            if found.sender == SENDER:
                original = True
            elif not found.sender and found.recipients == [SENDER]:
                bounce = True
        if relay.bounce_delivered:
            bounce = True
        return finished, trace, original, bounce
    finally:
        FAULTS.armed = FAULTS.dead = False
        shutil.rmtree(base, ignore_errors=True)


def main():
    logging.disable(logging.CRITICAL)
    FAULTS.install()
    lost = []
    try:
        for scenario in ('perm', 'giveup', 'partial'):
            kill_at = 0
            while True:
                finished, trace, original, bounce = run(scenario, kill_at)
                if finished:
                    print('%-8s no kill: effects after the acknowledgement: %s'
                          ' -> original=%s bounce=%s'
                          % (scenario, ' '.join(trace), original, bounce))
                    break
                state = 'original=%s bounce=%s' % (original, bounce)
                verdict = 'ok' if (original or bounce) else 'LOST'
                print('%-8s killed before effect #%d (%s): %s  %s'
                      % (scenario, kill_at, trace[-1], state, verdict))
                if not (original or bounce):
                    lost.append((scenario, kill_at, trace[-1]))
                kill_at += 1
                if kill_at > 60:
                    break
    finally:
        FAULTS.uninstall()
    if lost:
        print('VIOLATION: %d kill points leave neither the acknowledged '
              'message nor a bounce for it on disk' % len(lost))
        return 1
    print('no violation: at every kill point the message or its bounce is '
          'on disk')
    return 0


if __name__ == '__main__':
    sys.exit(main())
