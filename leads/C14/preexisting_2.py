"""Pre-existing C14 violation 2 (pristine code): relay attempt with
tls_immediately=True is not bounded while the TLS handshake is in progress.

SmtpRelayClient._handshake() calls self.client.encrypt(self.context) outside
any 'with Timeout(...)'.  A server that accepts the TCP connection and then
never answers the ClientHello holds RelayPool.attempt() for ever, although
connect_timeout, command_timeout and data_timeout are all configured.

Run from the repository root:  /venv/bin/python SEED/preexisting_2.py
exit 1 = violation reproduced, exit 0 = attempt ended with a transient failure.
"""
from __future__ import print_function
import os, sys, time, traceback
sys.path.insert(0, os.getcwd())
import warnings; warnings.simplefilter('ignore')
import gevent
from gevent import socket, ssl

from slimta.relay import TransientRelayError
from slimta.relay.smtp.static import StaticSmtpRelay, StaticLmtpRelay
from slimta.envelope import Envelope

TIMEOUT = 0.3
LIMIT = 3.0
peers = []


def socket_creator(address):
    ours, theirs = socket.socketpair()
    peers.append(theirs)        # the peer never reads nor writes
    return ours


def where(g):
    frame = g.gr_frame
    if frame is None:
        return '?'
    stack = traceback.extract_stack(frame)
    return ' <- '.join('%s:%d %s' % (os.path.basename(f.filename), f.lineno, f.name)
                       for f in reversed(stack[-4:]))


def scenario(name, relay_class):
    ctx = ssl.SSLContext(ssl.PROTOCOL_TLS_CLIENT)
    ctx.check_hostname = False
    ctx.verify_mode = ssl.CERT_NONE
    relay = relay_class('mail.example.com', 465,
                        socket_creator=socket_creator, context=ctx,
                        tls_immediately=True, connect_timeout=TIMEOUT,
                        command_timeout=TIMEOUT, data_timeout=TIMEOUT)
    env = Envelope('sender@example.com', ['rcpt@example.com'])
    env.parse(b'Subject: test\r\n\r\nbody\r\n')
    outcome = {}

    def attempt():
        try:
            outcome['result'] = relay.attempt(env, 0)
        except BaseException as exc:
            outcome['result'] = exc

    start = time.time()
    g = gevent.spawn(attempt)
    g.join(LIMIT)
    elapsed = time.time() - start
    if g.dead:
        res = outcome.get('result')
        ok = isinstance(res, TransientRelayError)
        print('  [%s] attempt ended after %.2fs with %r -> %s'
              % (name, elapsed, res, 'ok' if ok else 'NOT ok'))
        return ok
    print('  [%s] attempt STILL RUNNING after %.1fs (all timeouts %.1fs)'
          % (name, elapsed, TIMEOUT))
    for client in relay.pool:
        print('      client blocked in: %s' % where(client))
    g.kill()
    for client in list(relay.pool):
        client.kill(block=False)
    return False


def main():
    ok = [scenario('SMTP', StaticSmtpRelay), scenario('LMTP', StaticLmtpRelay)]
    if all(ok):
        print('OK: the implicit-TLS handshake is bounded')
        return 0
    print('VIOLATION: a silent peer holds a tls_immediately relay attempt '
          'for ever')
    return 1


if __name__ == '__main__':
    sys.exit(main())
