"""Pre-existing C14 violation 3 (pristine code): closing a TLS session waits
for the peer's close_notify without any timeout (IO.close() -> unwrap()).

(a) server side: a client on a TLS session goes silent.  The command timeout
    fires and '421 4.4.2 Connection timed out' is sent, but SmtpEdge.handle()
    then calls IO.close(), whose SSLSocket.unwrap() blocks until the silent
    client answers the TLS shutdown: the socket is never closed and the
    session greenlet never ends.
(b) relay side: a server stalls after STARTTLS+EHLO.  The attempt itself fails
    in time with a transient error, but the pool client then hangs in
    _disconnect() -> IO.close() -> unwrap() and never leaves the pool.  With
    pool_size=1 the NEXT attempt to that destination is never given a
    connection and RelayPool.attempt() blocks for ever.

Run from the repository root:  /venv/bin/python SEED/preexisting_3.py
exit 1 = violation reproduced, exit 0 = everything ended in bounded time.
"""
from __future__ import print_function
import os, sys, time, tempfile, datetime, traceback
sys.path.insert(0, os.getcwd())
import warnings; warnings.simplefilter('ignore')
import gevent
from gevent import socket, ssl

from slimta.edge.smtp import SmtpEdge
from slimta.relay import TransientRelayError
from slimta.relay.smtp.static import StaticSmtpRelay
from slimta.envelope import Envelope

TIMEOUT = 0.3
LIMIT = 4.0


def make_cert():
    from cryptography import x509
    from cryptography.x509.oid import NameOID
    from cryptography.hazmat.primitives import hashes, serialization
    from cryptography.hazmat.primitives.asymmetric import rsa
    key = rsa.generate_private_key(public_exponent=65537, key_size=2048)
    name = x509.Name([x509.NameAttribute(NameOID.COMMON_NAME, u'localhost')])
    start = datetime.datetime(2026, 1, 1)
    cert = (x509.CertificateBuilder().subject_name(name).issuer_name(name)
            .public_key(key.public_key()).serial_number(1)
            .not_valid_before(start)
            .not_valid_after(start + datetime.timedelta(days=3650))
            .sign(key, hashes.SHA256()))
    d = tempfile.mkdtemp()
    cp, kp = os.path.join(d, 'cert.pem'), os.path.join(d, 'key.pem')
    with open(cp, 'wb') as f:
        f.write(cert.public_bytes(serialization.Encoding.PEM))
    with open(kp, 'wb') as f:
        f.write(key.private_bytes(
            serialization.Encoding.PEM,
            serialization.PrivateFormat.TraditionalOpenSSL,
            serialization.NoEncryption()))
    return cp, kp


def client_context():
    ctx = ssl.SSLContext(ssl.PROTOCOL_TLS_CLIENT)
    ctx.check_hostname = False
    ctx.verify_mode = ssl.CERT_NONE
    return ctx


def read_until(sock, marker, limit=2.0):
    buf = b''
    with gevent.Timeout(limit, False):
        while marker not in buf:
            data = sock.recv(4096)
            if not data:
                break
            buf += data
    return buf


def where(g):
    frame = g.gr_frame
    if frame is None:
        return '?'
    stack = traceback.extract_stack(frame)
    return ' <- '.join('%s:%d %s' % (os.path.basename(f.filename), f.lineno, f.name)
                       for f in reversed(stack[-4:]))


class NullQueue(object):
    def enqueue(self, envelope):
        return [(envelope, 'id')]


def server_side(server_ctx):
    a, b = socket.socketpair()
    edge = SmtpEdge(None, NullQueue(), context=server_ctx,
                    command_timeout=TIMEOUT, data_timeout=TIMEOUT)
    session = gevent.spawn(edge.handle, a, ('127.0.0.1', 12345))
    read_until(b, b'220 ')
    b.sendall(b'EHLO client.example\r\n')
    read_until(b, b'250 ')
    b.sendall(b'STARTTLS\r\n')
    read_until(b, b'220 ')
    tls = client_context().wrap_socket(b, server_hostname='localhost')
    tls.sendall(b'EHLO client.example\r\n')
    read_until(tls, b'250 ')
    # ... and now the client stays silent (it does not even read).
    start = time.time()
    session.join(LIMIT)
    elapsed = time.time() - start
    if session.dead:
        print('  [server] session ended and socket closed after %.2fs -> ok'
              % elapsed)
        return True
    print('  [server] session greenlet STILL ALIVE %.1fs after the last '
          'command (command_timeout=%.1fs)' % (elapsed, TIMEOUT))
    print('      blocked in: %s' % where(session))
    print('      the client did get: %r' % read_until(tls, b'timed out\r\n', 0.5))
    print('      (the server sent its TLS close_notify and now waits, with the '
          'TCP socket still open, for the client\'s)')
    session.kill()
    return False


def stalling_tls_server(sock, server_ctx):
    """220, EHLO -> STARTTLS offered, STARTTLS, handshake, EHLO -> 250, then
    never reads or writes again (and keeps the socket open)."""
    try:
        sock.sendall(b'220 mx.example ESMTP\r\n')
        read_until(sock, b'\r\n')
        sock.sendall(b'250-mx.example\r\n250 STARTTLS\r\n')
        read_until(sock, b'\r\n')
        sock.sendall(b'220 Go ahead\r\n')
        tls = server_ctx.wrap_socket(sock, server_side=True)
        read_until(tls, b'\r\n')
        tls.sendall(b'250 mx.example\r\n')
        keep.append(tls)
    except Exception as exc:
        print('      (peer error: %r)' % exc)


keep = []


def relay_side(server_ctx):
    def socket_creator(address):
        ours, theirs = socket.socketpair()
        gevent.spawn(stalling_tls_server, theirs, server_ctx)
        return ours

    relay = StaticSmtpRelay('mx.example', 25, pool_size=1,
                            socket_creator=socket_creator,
                            context=client_context(),
                            connect_timeout=TIMEOUT, command_timeout=TIMEOUT,
                            data_timeout=TIMEOUT)
    env = Envelope('sender@example.com', ['rcpt@example.com'])
    env.parse(b'Subject: test\r\n\r\nbody\r\n')

    def attempt(outcome):
        try:
            outcome['result'] = relay.attempt(env, 0)
        except BaseException as exc:
            outcome['result'] = exc

    ok = True
    for n in (1, 2):
        outcome = {}
        start = time.time()
        g = gevent.spawn(attempt, outcome)
        g.join(LIMIT)
        elapsed = time.time() - start
        if g.dead:
            res = outcome.get('result')
            good = isinstance(res, TransientRelayError)
            print('  [relay] attempt %d ended after %.2fs with %r -> %s'
                  % (n, elapsed, res, 'ok' if good else 'NOT ok'))
            ok = ok and good
        else:
            print('  [relay] attempt %d STILL WAITING after %.1fs (all '
                  'timeouts %.1fs); queue length %d, pool: %d client(s)'
                  % (n, elapsed, TIMEOUT, len(relay.queue), len(relay.pool)))
            for client in relay.pool:
                print('      pool client blocked in: %s' % where(client))
            g.kill()
            ok = False
    for client in list(relay.pool):
        client.kill(block=False)
    return ok


def main():
    cp, kp = make_cert()
    server_ctx = ssl.SSLContext(ssl.PROTOCOL_TLS_SERVER)
    server_ctx.load_cert_chain(cp, kp)
    results = [server_side(server_ctx), relay_side(server_ctx)]
    if all(results):
        print('OK')
        return 0
    print('VIOLATION: a silent TLS peer keeps the session / the pool slot '
          'for ever because IO.close() blocks in unwrap()')
    return 1


if __name__ == '__main__':
    sys.exit(main())
