"""Pre-existing C14 violation 4 (pristine code): the server never bounds its
own writes.

Server.handle() only arms a Timeout around *reading* (the next command, DATA,
the AUTH exchange).  Replies are written with socket.sendall() outside any
timer.  A client that pipelines a burst of commands and then neither reads the
replies nor sends anything else makes sendall() block as soon as the socket
buffer is full; the session then hangs for ever, no 421, no close, no matter
what command_timeout says.

Run from the repository root:  /venv/bin/python SEED/preexisting_4.py
exit 1 = violation reproduced, exit 0 = session was ended in bounded time.
"""
from __future__ import print_function
import os, sys, time, traceback
sys.path.insert(0, os.getcwd())
import warnings; warnings.simplefilter('ignore')
import gevent
from gevent import socket

from slimta.edge.smtp import SmtpEdge

COMMAND_TIMEOUT = 0.3
LIMIT = 4.0


class NullQueue(object):
    def enqueue(self, envelope):
        return [(envelope, 'id')]


def where(g):
    frame = g.gr_frame
    if frame is None:
        return '?'
    stack = traceback.extract_stack(frame)
    return ' <- '.join('%s:%d %s' % (os.path.basename(f.filename), f.lineno, f.name)
                       for f in reversed(stack[-5:]))


def main():
    server_sock, client_sock = socket.socketpair()
    # A small send buffer on the server side just makes the demo quick; with
    # default buffers the client only has to pipeline more commands.
    server_sock.setsockopt(socket.SOL_SOCKET, socket.SO_SNDBUF, 4096)
    edge = SmtpEdge(None, NullQueue(), command_timeout=COMMAND_TIMEOUT,
                    data_timeout=COMMAND_TIMEOUT)
    session = gevent.spawn(edge.handle, server_sock, ('127.0.0.1', 12345))

    burst = b'NOOP\r\n' * 20000           # 120 kB, fits the client's buffer
    client_sock.sendall(b'EHLO client.example\r\n' + burst)
    print('  client pipelined %d commands and now neither reads nor writes'
          % (burst.count(b'\n') + 1))

    start = time.time()
    session.join(LIMIT)
    elapsed = time.time() - start
    if session.dead:
        print('  session ended after %.2fs -> ok' % elapsed)
        print('OK')
        return 0
    print('  session STILL OPEN after %.1fs (command_timeout=%.1fs)'
          % (elapsed, COMMAND_TIMEOUT))
    print('  blocked in: %s' % where(session))
    session.kill()
    print('VIOLATION: a client that does not read the replies holds the '
          'session for ever in sendall()')
    return 1


if __name__ == '__main__':
    sys.exit(main())
