"""Pre-existing C14 violation 5 (pristine code): HTTPS relay - same root cause
as violation 3, different code (slimta/http/__init__.py HTTPSConnection.close).

An HTTPS endpoint completes the TLS handshake and then never answers the
request.  The attempt itself fails in time ('Delivery timed out'), but
HttpRelayClient._run() then calls self.conn.close() -> sock.unwrap(), which
waits for the silent peer's close_notify without any timeout.  The client never
leaves the pool; with pool_size=1 the next HttpRelay.attempt() is never served
and blocks for ever, far beyond the single configured 'timeout'.

Uses a listening socket on 127.0.0.1 (loopback only).
Run from the repository root:  /venv/bin/python SEED/preexisting_5.py
exit 1 = violation reproduced, exit 0 = both attempts ended in bounded time.
"""
from __future__ import print_function
import os, sys, time, tempfile, datetime, traceback
sys.path.insert(0, os.getcwd())
import warnings; warnings.simplefilter('ignore')
import gevent
from gevent import socket, ssl

from slimta.relay import TransientRelayError
from slimta.relay.http import HttpRelay
from slimta.envelope import Envelope

TIMEOUT = 0.3
LIMIT = 4.0


def make_cert():
    from cryptography import x509
    from cryptography.x509.oid import NameOID
    from cryptography.hazmat.primitives import hashes, serialization
    from cryptography.hazmat.primitives.asymmetric import rsa
    key = rsa.generate_private_key(public_exponent=65537, key_size=2048)
    name = x509.Name([x509.NameAttribute(NameOID.COMMON_NAME, u'localhost')])
    start = datetime.datetime(2026, 1, 1)
    cert = (x509.CertificateBuilder().subject_name(name).issuer_name(name)
            .public_key(key.public_key()).serial_number(1)
            .not_valid_before(start)
            .not_valid_after(start + datetime.timedelta(days=3650))
            .sign(key, hashes.SHA256()))
    d = tempfile.mkdtemp()
    cp, kp = os.path.join(d, 'cert.pem'), os.path.join(d, 'key.pem')
    with open(cp, 'wb') as f:
        f.write(cert.public_bytes(serialization.Encoding.PEM))
    with open(kp, 'wb') as f:
        f.write(key.private_bytes(
            serialization.Encoding.PEM,
            serialization.PrivateFormat.TraditionalOpenSSL,
            serialization.NoEncryption()))
    return cp, kp


def where(g):
    frame = g.gr_frame
    if frame is None:
        return '?'
    stack = traceback.extract_stack(frame)
    return ' <- '.join('%s:%d %s' % (os.path.basename(f.filename), f.lineno, f.name)
                       for f in reversed(stack[-4:]))


def main():
    cp, kp = make_cert()
    server_ctx = ssl.SSLContext(ssl.PROTOCOL_TLS_SERVER)
    server_ctx.load_cert_chain(cp, kp)
    client_ctx = ssl.SSLContext(ssl.PROTOCOL_TLS_CLIENT)
    client_ctx.check_hostname = False
    client_ctx.verify_mode = ssl.CERT_NONE

    listener = socket.socket()
    listener.bind(('127.0.0.1', 0))
    listener.listen(5)
    port = listener.getsockname()[1]
    keep = []

    def stalled_endpoint(conn):
        try:
            keep.append(server_ctx.wrap_socket(conn, server_side=True))
        except Exception as exc:
            print('      (peer error: %r)' % exc)
        # handshake done; never read the request, never answer, never close

    def serve():
        while True:
            conn, _ = listener.accept()
            gevent.spawn(stalled_endpoint, conn)

    gevent.spawn(serve)

    relay = HttpRelay('https://127.0.0.1:%d/inject' % port, pool_size=1,
                      context=client_ctx, timeout=TIMEOUT)
    env = Envelope('sender@example.com', ['rcpt@example.com'])
    env.parse(b'Subject: test\r\n\r\nbody\r\n')

    ok = True
    for n in (1, 2):
        outcome = {}

        def attempt():
            try:
                outcome['result'] = relay.attempt(env, 0)
            except BaseException as exc:
                outcome['result'] = exc

        start = time.time()
        g = gevent.spawn(attempt)
        g.join(LIMIT)
        elapsed = time.time() - start
        if g.dead:
            res = outcome.get('result')
            good = isinstance(res, TransientRelayError)
            print('  attempt %d ended after %.2fs with %r -> %s'
                  % (n, elapsed, res, 'ok' if good else 'NOT ok'))
            ok = ok and good
        else:
            print('  attempt %d STILL WAITING after %.1fs (timeout=%.1fs); '
                  'queue length %d, pool: %d client(s)'
                  % (n, elapsed, TIMEOUT, len(relay.queue), len(relay.pool)))
            for client in relay.pool:
                print('      pool client blocked in: %s' % where(client))
            g.kill()
            ok = False
    for client in list(relay.pool):
        client.kill(block=False)
    if ok:
        print('OK')
        return 0
    print('VIOLATION: a silent HTTPS peer keeps the pool slot for ever '
          '(HTTPSConnection.close() blocks in unwrap()); the next attempt '
          'never ends')
    return 1


if __name__ == '__main__':
    sys.exit(main())
