"""Pre-existing C14 violation 2: TLS handshakes are not covered by any timer.

Server side:  Server._encrypt_session() -> IO.encrypt_socket_server() ->
context.wrap_socket(server_side=True) performs the whole TLS handshake with no
Timeout around it.  This is reached (a) right after the `220 Go ahead` answer
to STARTTLS and (b) before the banner when tls_immediately=True.  A peer that
says STARTTLS (or just connects to an implicit-TLS listener) and then stays
silent, or sends half a ClientHello, is never disconnected.

Relay side:  SmtpRelayClient._handshake() calls self.client.encrypt(context)
for tls_immediately=True outside of `with Timeout(...)` (the STARTTLS path is
covered by the command timer, the implicit-TLS path is not).  A peer that
accepts the TCP connection and never answers the ClientHello blocks the
delivery attempt forever.  (The relay is given an explicit gevent SSLContext
here so that the handshake is cooperative; with the default context things are
worse, see preexisting_3.py.)

Run from the repository root:  /venv/bin/python SEED/preexisting_2.py
exit 1 = at least one of the three stalls is unbounded, exit 0 = all bounded.
"""

import datetime
import os
import sys
import tempfile
import time

sys.path.insert(0, os.getcwd())

import gevent
from gevent import socket as gsocket
from gevent import ssl as gssl

from slimta.envelope import Envelope
from slimta.relay.smtp.static import StaticSmtpRelay
from slimta.smtp import ConnectionLost
from slimta.smtp.server import Server

TIMEOUT = 0.5
OBSERVE = 5.0


def server_context():
    """A TLS server context; with a throw-away certificate when possible."""
    ctx = gssl.SSLContext(gssl.PROTOCOL_TLS_SERVER)
    try:
        from cryptography import x509
        from cryptography.hazmat.primitives import hashes, serialization
        from cryptography.hazmat.primitives.asymmetric import rsa
        from cryptography.x509.oid import NameOID
    except ImportError:
        return ctx      # the handshake never gets far enough to need it
    key = rsa.generate_private_key(public_exponent=65537, key_size=2048)
    name = x509.Name([x509.NameAttribute(NameOID.COMMON_NAME, u'localhost')])
    now = datetime.datetime.now(datetime.timezone.utc)
    cert = (x509.CertificateBuilder().subject_name(name).issuer_name(name)
            .public_key(key.public_key())
            .serial_number(x509.random_serial_number())
            .not_valid_before(now - datetime.timedelta(days=1))
            .not_valid_after(now + datetime.timedelta(days=1))
            .sign(key, hashes.SHA256()))
    with tempfile.NamedTemporaryFile(suffix='.pem', delete=False) as f:
        f.write(key.private_bytes(serialization.Encoding.PEM,
                                  serialization.PrivateFormat.TraditionalOpenSSL,
                                  serialization.NoEncryption()))
        f.write(cert.public_bytes(serialization.Encoding.PEM))
        path = f.name
    try:
        ctx.load_cert_chain(path)
    finally:
        os.unlink(path)
    return ctx


def read_reply(sock):
    buf = b''
    while not buf.endswith(b'\n') or buf.splitlines()[-1][3:4] == b'-':
        piece = sock.recv(4096)
        if not piece:
            break
        buf += piece
    return buf


def run_server(ctx, tls_immediately, peer):
    server_sock, peer_sock = gsocket.socketpair()
    server = Server(server_sock, None, address=('peer', 0), context=ctx,
                    tls_immediately=tls_immediately,
                    command_timeout=TIMEOUT, data_timeout=TIMEOUT)
    state = {}

    def session():
        try:
            server.handle()
            state['end'] = 'handle() returned'
        except ConnectionLost:
            state['end'] = 'ConnectionLost (closed)'
        except BaseException as exc:
            state['end'] = 'raised {0!r}'.format(exc)

    g = gevent.spawn(session)
    peer(peer_sock)
    start = time.time()
    g.join(OBSERVE)
    bounded = g.ready()
    elapsed = time.time() - start
    g.kill(block=False)
    peer_sock.close()
    return bounded, elapsed, state.get('end')


def starttls_then_silent(sock):
    read_reply(sock)                        # banner
    sock.sendall(b'EHLO demo\r\n')
    read_reply(sock)
    sock.sendall(b'STARTTLS\r\n')
    reply = read_reply(sock)
    assert reply.startswith(b'220'), reply
    # ... and now nothing at all: no ClientHello.


def connect_then_silent(sock):
    pass


def run_relay():
    peers = []

    def socket_creator(address):
        ours, theirs = gsocket.socketpair()
        peers.append(theirs)                # accepted, never answered
        return ours

    # An explicit gevent SSLContext, so that the handshake is cooperative
    # (see preexisting_3.py for what the default context does).
    client_ctx = gssl.SSLContext(gssl.PROTOCOL_TLS_CLIENT)
    client_ctx.check_hostname = False
    client_ctx.verify_mode = gssl.CERT_NONE
    relay = StaticSmtpRelay('peer.example', 465, socket_creator=socket_creator,
                            context=client_ctx,
                            tls_immediately=True, ehlo_as='demo',
                            connect_timeout=TIMEOUT, command_timeout=TIMEOUT,
                            data_timeout=TIMEOUT)
    env = Envelope('sender@example.com', ['rcpt@example.com'])
    env.parse(b'From: sender@example.com\r\n\r\nhello\r\n')
    state = {}

    def attempt():
        try:
            state['end'] = 'returned {0!r}'.format(relay.attempt(env, 0))
        except Exception as exc:
            state['end'] = 'raised {0}'.format(type(exc).__name__)

    g = gevent.spawn(attempt)
    start = time.time()
    g.join(OBSERVE)
    bounded = g.ready()
    elapsed = time.time() - start
    g.kill(block=False)
    relay.kill()
    return bounded, elapsed, state.get('end')


def main():
    ctx = server_context()
    violations = 0
    cases = [
        ('server, peer silent after the 220 reply to STARTTLS',
         lambda: run_server(ctx, False, starttls_then_silent)),
        ('server with tls_immediately, peer silent right after connecting',
         lambda: run_server(ctx, True, connect_then_silent)),
        ('relay with tls_immediately, peer never answers the ClientHello',
         run_relay),
    ]
    for label, case in cases:
        bounded, elapsed, end = case()
        if bounded:
            print('bounded    {0}: ended after {1:.2f}s ({2})'
                  .format(label, elapsed, end))
        else:
            violations += 1
            print('VIOLATION  {0}: still blocked in the TLS handshake after '
                  '{1:.1f}s (all timeouts {2}s)'.format(label, elapsed, TIMEOUT))
    sys.exit(1 if violations else 0)


if __name__ == '__main__':
    main()
