"""Pre-existing C14 violation 7 (relay side of the unbounded TLS close): a
peer that withholds its TLS close_notify after QUIT makes the NEXT delivery
attempt of a bounded pool hang forever.

SmtpRelayClient._disconnect() bounds the QUIT exchange with the command
timeout but then calls self.client.io.close(), whose socket.unwrap() waits for
the peer's close_notify with no bound (see preexisting_4.py).  The result of
the delivery has already been handed out, so the first attempt looks fine, but
the client greenlet never finishes and never leaves RelayPool.pool.  With
pool_size=1 (or once pool_size such peers have been met) RelayPool.attempt()
sees no idle client, may not add one, queues the next request and blocks in
result.get() forever: no connect/command/data timeout applies to it.

Run from the repository root:  /venv/bin/python SEED/preexisting_7.py
exit 1 = violation reproduced, exit 0 = the second attempt ended in bounded time.
"""

import datetime
import os
import sys
import tempfile
import time

sys.path.insert(0, os.getcwd())

import gevent
from gevent import socket as gsocket
from gevent import ssl as gssl

from slimta.envelope import Envelope
from slimta.relay.smtp.static import StaticSmtpRelay

TIMEOUT = 0.5
OBSERVE = 6.0


def server_context():
    from cryptography import x509
    from cryptography.hazmat.primitives import hashes, serialization
    from cryptography.hazmat.primitives.asymmetric import rsa
    from cryptography.x509.oid import NameOID
    key = rsa.generate_private_key(public_exponent=65537, key_size=2048)
    name = x509.Name([x509.NameAttribute(NameOID.COMMON_NAME, u'localhost')])
    now = datetime.datetime.now(datetime.timezone.utc)
    cert = (x509.CertificateBuilder().subject_name(name).issuer_name(name)
            .public_key(key.public_key())
            .serial_number(x509.random_serial_number())
            .not_valid_before(now - datetime.timedelta(days=1))
            .not_valid_after(now + datetime.timedelta(days=1))
            .sign(key, hashes.SHA256()))
    with tempfile.NamedTemporaryFile(suffix='.pem', delete=False) as f:
        f.write(key.private_bytes(
            serialization.Encoding.PEM,
            serialization.PrivateFormat.TraditionalOpenSSL,
            serialization.NoEncryption()))
        f.write(cert.public_bytes(serialization.Encoding.PEM))
        path = f.name
    ctx = gssl.SSLContext(gssl.PROTOCOL_TLS_SERVER)
    try:
        ctx.load_cert_chain(path)
    finally:
        os.unlink(path)
    return ctx


def peer(sock, ctx):
    """A perfectly well-behaved ESMTP+STARTTLS server, except that after the
    221 it neither sends a TLS close_notify nor closes the connection."""
    buf = b''
    in_data = False
    try:
        sock.sendall(b'220 peer ESMTP\r\n')
        while True:
            while b'\n' not in buf:
                piece = sock.recv(4096)
                if not piece:
                    return
                buf += piece
            line, buf = buf.split(b'\n', 1)
            if in_data:
                if line.strip() == b'.':
                    in_data = False
                    sock.sendall(b'250 2.6.0 Queued\r\n')
                continue
            verb = line.strip().upper()[:4]
            if verb == b'EHLO':
                if isinstance(sock, gssl.SSLSocket):
                    sock.sendall(b'250-peer\r\n250 8BITMIME\r\n')
                else:
                    sock.sendall(b'250-peer\r\n250 STARTTLS\r\n')
            elif verb == b'STAR':
                sock.sendall(b'220 2.0.0 Go ahead\r\n')
                sock = ctx.wrap_socket(sock, server_side=True)
                buf = b''
            elif verb == b'DATA':
                in_data = True
                sock.sendall(b'354 go ahead\r\n')
            elif verb == b'QUIT':
                sock.sendall(b'221 2.0.0 Bye\r\n')
                gevent.sleep(3600)      # connection stays open, no close_notify
                return
            else:
                sock.sendall(b'250 2.0.0 Ok\r\n')
    except (OSError, gevent.GreenletExit):
        pass


def main():
    ctx = server_context()
    peers = []

    def socket_creator(address):
        ours, theirs = gsocket.socketpair()
        peers.append(gevent.spawn(peer, theirs, ctx))
        return ours

    client_ctx = gssl.SSLContext(gssl.PROTOCOL_TLS_CLIENT)
    client_ctx.check_hostname = False
    client_ctx.verify_mode = gssl.CERT_NONE
    relay = StaticSmtpRelay('peer.example', 25, pool_size=1,
                            socket_creator=socket_creator, context=client_ctx,
                            ehlo_as='demo', connect_timeout=TIMEOUT,
                            command_timeout=TIMEOUT, data_timeout=TIMEOUT)

    def envelope():
        env = Envelope('sender@example.com', ['rcpt@example.com'])
        env.parse(b'From: sender@example.com\r\n\r\nhello\r\n')
        return env

    start = time.time()
    first = relay.attempt(envelope(), 0)
    print('first attempt: delivered after {0:.2f}s ({1})'
          .format(time.time() - start, first['rcpt@example.com']))
    gevent.sleep(2 * TIMEOUT)
    print('pool after the first attempt: {0} client(s), connections made: {1}'
          .format(len(relay.pool), len(peers)))

    outcome = {}

    def second():
        try:
            outcome['value'] = relay.attempt(envelope(), 0)
        except Exception as exc:
            outcome['value'] = exc

    start = time.time()
    g = gevent.spawn(second)
    g.join(OBSERVE)
    elapsed = time.time() - start
    bounded = g.ready()
    g.kill(block=False)
    gevent.killall(peers, block=False)
    if bounded:
        print('OK: second attempt ended after {0:.2f}s with {1!r}'
              .format(elapsed, outcome.get('value')))
        sys.exit(0)
    print('VIOLATION: second attempt still blocked after {0:.1f}s (all '
          'timeouts {1}s, connections made: {2}); the only pool slot is held '
          'by the first client, stuck in io.close() -> unwrap()'
          .format(elapsed, TIMEOUT, len(peers)))
    sys.exit(1)


if __name__ == '__main__':
    main()
