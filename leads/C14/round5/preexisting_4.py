"""Pre-existing C14 violation 4: closing a TLS session waits for the peer
without any bound.

IO.close() calls self.socket.unwrap() for encrypted sockets.  unwrap() sends
our close_notify and then WAITS for the peer's close_notify; the socket has no
timeout and no gevent Timeout surrounds the call.  SmtpEdge.handle() reaches
it from its `finally:` block, i.e. exactly after the server has decided to
time the peer out and has sent the 421.  A TLS peer that simply keeps the
connection open (no close_notify, no FIN) is therefore never disconnected: the
421 goes out, but the session greenlet and the socket stay around forever.
(The relay side has the same call in SmtpRelayClient._disconnect(); there the
stuck client greenlet keeps its slot in the RelayPool.)

Run from the repository root:  /venv/bin/python SEED/preexisting_4.py
exit 1 = violation reproduced, exit 0 = the session was closed in bounded time.
"""

import datetime
import os
import sys
import tempfile
import time

sys.path.insert(0, os.getcwd())

import gevent
from gevent import socket as gsocket
from gevent import ssl as gssl

from slimta.edge.smtp import SmtpEdge

COMMAND_TIMEOUT = 0.5
OBSERVE = 5.0


def server_context():
    from cryptography import x509
    from cryptography.hazmat.primitives import hashes, serialization
    from cryptography.hazmat.primitives.asymmetric import rsa
    from cryptography.x509.oid import NameOID
    key = rsa.generate_private_key(public_exponent=65537, key_size=2048)
    name = x509.Name([x509.NameAttribute(NameOID.COMMON_NAME, u'localhost')])
    now = datetime.datetime.now(datetime.timezone.utc)
    cert = (x509.CertificateBuilder().subject_name(name).issuer_name(name)
            .public_key(key.public_key())
            .serial_number(x509.random_serial_number())
            .not_valid_before(now - datetime.timedelta(days=1))
            .not_valid_after(now + datetime.timedelta(days=1))
            .sign(key, hashes.SHA256()))
    with tempfile.NamedTemporaryFile(suffix='.pem', delete=False) as f:
        f.write(key.private_bytes(
            serialization.Encoding.PEM,
            serialization.PrivateFormat.TraditionalOpenSSL,
            serialization.NoEncryption()))
        f.write(cert.public_bytes(serialization.Encoding.PEM))
        path = f.name
    ctx = gssl.SSLContext(gssl.PROTOCOL_TLS_SERVER)
    try:
        ctx.load_cert_chain(path)
    finally:
        os.unlink(path)
    return ctx


def read_reply(sock):
    buf = b''
    while True:
        piece = sock.recv(4096)
        if not piece:
            return buf
        buf += piece
        lines = buf.splitlines()
        if buf.endswith(b'\n') and lines[-1][3:4] != b'-':
            return buf


def main():
    edge = SmtpEdge(None, None, context=server_context(),
                    command_timeout=COMMAND_TIMEOUT,
                    data_timeout=COMMAND_TIMEOUT, hostname='demo')
    server_sock, peer_sock = gsocket.socketpair()
    session = gevent.spawn(edge.handle, server_sock, ('127.0.0.1', 40000))

    read_reply(peer_sock)                               # banner
    peer_sock.sendall(b'EHLO demo\r\n')
    read_reply(peer_sock)
    peer_sock.sendall(b'STARTTLS\r\n')
    assert read_reply(peer_sock).startswith(b'220')
    client_ctx = gssl.SSLContext(gssl.PROTOCOL_TLS_CLIENT)
    client_ctx.check_hostname = False
    client_ctx.verify_mode = gssl.CERT_NONE
    tls = client_ctx.wrap_socket(peer_sock)
    tls.sendall(b'EHLO demo\r\n')
    assert read_reply(tls).startswith(b'250')

    # From here on the peer is silent but keeps the connection open.
    start = time.time()
    notice = read_reply(tls)
    print('after {0:.2f}s of silence the server said: {1!r}'
          .format(time.time() - start, notice.strip()))
    said_421 = time.time()

    session.join(OBSERVE)
    waited = time.time() - said_421
    if session.ready():
        print('OK: session greenlet finished {0:.2f}s after the 421'
              .format(waited))
        sys.exit(0)
    import traceback
    print('VIOLATION: {0:.1f}s after the 421 the session greenlet is still '
          'alive and the connection still open (command_timeout={1}s); it '
          'is waiting for the peer\'s TLS close_notify:'
          .format(waited, COMMAND_TIMEOUT))
    frame = session.gr_frame
    if frame is not None:
        print(''.join(traceback.format_stack(frame)[-5:]))
    session.kill(block=False)
    sys.exit(1)


if __name__ == '__main__':
    main()
