"""Pre-existing C14 violation 5: a peer that floods an endless line is never
timed out (and starves every other greenlet while doing so).

IO.recv_line() keeps appending 4096-byte pieces to recv_buffer and re-runs
`line_pattern.match()` over the WHOLE buffer after each piece; there is no
limit on the line length.  gevent's socket.recv() only yields to the hub when
no data is available, and the quadratic rescan makes the server slower and
slower, so a peer that just keeps writing bytes without a newline always has
data waiting: the server greenlet never yields, the command timer started in
Server._recv_command() never gets a chance to fire, and the session (plus an
ever growing buffer) lives for as long as the peer keeps writing.  The same
loop serves the relay side (recv_reply) and AUTH (recv_line).

The flooding peer is a separate OS process writing into a socketpair.  Because
the hub of this process is starved, the observation deadline is a SIGALRM.

Run from the repository root:  /venv/bin/python SEED/preexisting_5.py
exit 1 = violation reproduced, exit 0 = the session was ended in bounded time.
"""

import os
import signal
import socket as pysocket
import subprocess
import sys
import time

sys.path.insert(0, os.getcwd())

import gevent
from gevent import socket as gsocket

from slimta.smtp import ConnectionLost
from slimta.smtp.server import Server

COMMAND_TIMEOUT = 0.5
OBSERVE = 8.0

FLOODER = r'''
import socket, sys
s = socket.socket(fileno=int(sys.argv[1]))
s.recv(4096)                      # the banner
chunk = b'x' * 65536              # never a newline
try:
    while True:
        s.sendall(chunk)
except OSError:
    pass
'''


def main():
    ours, theirs = pysocket.socketpair()
    flooder = subprocess.Popen([sys.executable, '-c', FLOODER,
                                str(theirs.fileno())],
                               pass_fds=[theirs.fileno()])
    theirs.close()
    server_sock = gsocket.socket(gsocket.AF_UNIX, gsocket.SOCK_STREAM, 0,
                                 fileno=ours.detach())
    server = Server(server_sock, None, address=('peer', 0),
                    command_timeout=COMMAND_TIMEOUT,
                    data_timeout=COMMAND_TIMEOUT)
    state = {'start': time.time()}
    ticks = []

    def deadline(signum, frame):
        waited = time.time() - state['start']
        print('VIOLATION: {0:.1f}s after the banner the session is still '
              'open (command_timeout={1}s); the unfinished "command line" '
              'buffered so far is {2:.1f} MiB and another greenlet that '
              'should tick every 50ms ran {3} times'
              .format(waited, COMMAND_TIMEOUT,
                      len(server.io.recv_buffer) / 1048576.0, len(ticks)))
        sys.stdout.flush()
        flooder.kill()
        os._exit(1)

    signal.signal(signal.SIGALRM, deadline)
    signal.setitimer(signal.ITIMER_REAL, OBSERVE)

    def ticker():
        while True:
            gevent.sleep(0.05)
            ticks.append(1)

    gevent.spawn(ticker)

    def session():
        try:
            server.handle()
            state['end'] = 'handle() returned'
        except ConnectionLost:
            state['end'] = 'ConnectionLost (session closed)'
        except BaseException as exc:
            state['end'] = 'raised {0!r}'.format(exc)

    g = gevent.spawn(session)
    g.join()
    signal.setitimer(signal.ITIMER_REAL, 0)
    flooder.kill()
    print('OK: session ended after {0:.2f}s: {1}'
          .format(time.time() - state['start'], state['end']))
    sys.exit(0)


if __name__ == '__main__':
    main()
