"""Pre-existing C14 violation 3: the DEFAULT TLS context of the SMTP relays is
a blocking standard-library context, so after STARTTLS no timeout can fire.

StaticSmtpRelay / MxSmtpRelay default to `gevent.ssl.create_default_context()`
and IO.encrypt_socket_client() falls back to the same function.  In gevent
that name is simply re-exported from the standard library: it returns a plain
`ssl.SSLContext` (not gevent.ssl.SSLContext) whose wrap_socket() produces a
standard `ssl.SSLSocket`.  Wrapping the gevent socket with it switches the
file descriptor to blocking mode (the gevent socket reports timeout None), and
from then on the handshake and every recv()/sendall() block the whole process
in the kernel.  gevent Timeouts only fire when the hub runs, so the
`with Timeout(command_timeout)` around STARTTLS and around every later command
never fires: a peer that goes silent after `220 Go ahead` (or at any later
point of the TLS session) holds the delivery attempt, and every other greenlet
of the process, forever.  (Processes that call gevent.monkey.patch_all() are
not affected, the library itself does not.)

The scenario runs in a child process; the parent only enforces a hard
deadline because nothing inside a frozen process can.

Run from the repository root:  /venv/bin/python SEED/preexisting_3.py
exit 1 = violation reproduced, exit 0 = the attempt ended in bounded time.
"""

import os
import subprocess
import sys
import time

sys.path.insert(0, os.getcwd())

COMMAND_TIMEOUT = 0.5
SOFT_DEADLINE = 6.0
HARD_DEADLINE = 15.0


def serve(listener):
    """Blocking peer in an OS thread: offers STARTTLS, then never speaks."""
    conn, _ = listener.accept()
    buf = b''
    try:
        conn.sendall(b'220 peer ESMTP\r\n')
        while True:
            while b'\n' not in buf:
                piece = conn.recv(4096)
                if not piece:
                    return
                buf += piece
            line, buf = buf.split(b'\n', 1)
            verb = line.strip().upper()[:4]
            if verb == b'EHLO':
                conn.sendall(b'250-peer\r\n250 STARTTLS\r\n')
            elif verb == b'STAR':
                conn.sendall(b'220 2.0.0 Go ahead\r\n')
                time.sleep(3600)            # no ServerHello, ever
            elif verb == b'QUIT':
                conn.sendall(b'221 bye\r\n')
                return
            else:
                conn.sendall(b'250 2.0.0 Ok\r\n')
    except OSError:
        pass


def child():
    import socket as pysocket
    import threading

    import gevent

    from slimta.envelope import Envelope
    from slimta.relay import TransientRelayError
    from slimta.relay.smtp.static import StaticSmtpRelay

    listener = pysocket.socket(pysocket.AF_INET, pysocket.SOCK_STREAM)
    listener.bind(('127.0.0.1', 0))
    listener.listen(5)
    host, port = listener.getsockname()
    thread = threading.Thread(target=serve, args=(listener, ))
    thread.daemon = True
    thread.start()

    # Host, port and timeouts only: default socket creator, default context.
    relay = StaticSmtpRelay(host, port, ehlo_as='demo',
                            connect_timeout=COMMAND_TIMEOUT,
                            command_timeout=COMMAND_TIMEOUT,
                            data_timeout=COMMAND_TIMEOUT)
    context = relay._client_kwargs['context']
    print('CHILD default context is {0}.{1}, makes {2}.{3} sockets'
          .format(type(context).__module__, type(context).__name__,
                  context.sslsocket_class.__module__,
                  context.sslsocket_class.__name__))
    sys.stdout.flush()

    env = Envelope('sender@example.com', ['rcpt@example.com'])
    env.parse(b'From: sender@example.com\r\n\r\nhello\r\n')
    outcome = {}

    def attempt():
        try:
            outcome['value'] = relay.attempt(env, 0)
        except BaseException as exc:
            outcome['value'] = exc

    start = time.time()
    g = gevent.spawn(attempt)
    g.join(SOFT_DEADLINE)
    elapsed = time.time() - start
    if not g.ready():
        print('CHILD-VIOLATION attempt still blocked after {0:.1f}s'
              .format(elapsed))
        sys.stdout.flush()
        os._exit(1)
    value = outcome.get('value')
    if isinstance(value, TransientRelayError):
        print('CHILD-OK transient failure ({0}) after {1:.2f}s'
              .format(value.reply, elapsed))
        sys.stdout.flush()
        os._exit(0)
    print('CHILD-OTHER attempt ended after {0:.2f}s with {1!r}'
          .format(elapsed, value))
    sys.stdout.flush()
    os._exit(0)


def main():
    if '--child' in sys.argv:
        child()
        return
    env = dict(os.environ, PYTHONWARNINGS='ignore')
    proc = subprocess.Popen([sys.executable, os.path.abspath(__file__),
                             '--child'], cwd=os.getcwd(), env=env,
                            stdout=subprocess.PIPE, stderr=subprocess.STDOUT)
    try:
        out, _ = proc.communicate(timeout=HARD_DEADLINE)
    except subprocess.TimeoutExpired:
        proc.kill()
        out, _ = proc.communicate()
        if out.strip():
            print(out.decode('utf-8', 'replace').strip())
        print('VIOLATION: peer silent after "220 Go ahead" to STARTTLS; '
              'after {0:.0f}s the attempt has not ended (command_timeout='
              '{1}s) and the process did not even reach its own in-process '
              'deadline of {2}s: it is frozen in a blocking TLS handshake'
              .format(HARD_DEADLINE, COMMAND_TIMEOUT, SOFT_DEADLINE))
        sys.exit(1)
    print(out.decode('utf-8', 'replace').strip())
    sys.exit(1 if proc.returncode else 0)


if __name__ == '__main__':
    main()
