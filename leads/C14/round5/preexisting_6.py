"""Pre-existing C14 violation 6: with the PROXY protocol mix-ins the server
waits for the PROXY header, before the banner, without any timeout.

slimta.util.proxyproto.ProxyProtocol / ProxyProtocolV1 / ProxyProtocolV2 are
mixed in before SmtpEdge; their handle() reads the header with bare
sock.recv_into() calls and only then hands over to SmtpEdge.handle(), where
the command timer starts.  A peer that connects and sends nothing (or half a
header such as b'PROXY TCP4 1.2.3.4' without the line end) is never answered
and never disconnected, although command_timeout is configured on the edge.

Run from the repository root:  /venv/bin/python SEED/preexisting_6.py
exit 1 = violation reproduced, exit 0 = the session was ended in bounded time.
"""

import os
import sys
import time

sys.path.insert(0, os.getcwd())

import gevent
from gevent import socket as gsocket

from slimta.edge.smtp import SmtpEdge
from slimta.util.proxyproto import ProxyProtocol, ProxyProtocolV1

COMMAND_TIMEOUT = 0.5
OBSERVE = 4.0


class AutoPPEdge(ProxyProtocol, SmtpEdge):
    pass


class V1PPEdge(ProxyProtocolV1, SmtpEdge):
    pass


def run(edge_class, first_bytes):
    edge = edge_class(None, None, command_timeout=COMMAND_TIMEOUT,
                      data_timeout=COMMAND_TIMEOUT, hostname='demo')
    server_sock, peer_sock = gsocket.socketpair()
    session = gevent.spawn(edge.handle, server_sock, ('127.0.0.1', 40000))
    if first_bytes:
        peer_sock.sendall(first_bytes)
    start = time.time()
    session.join(OBSERVE)
    bounded = session.ready()
    elapsed = time.time() - start
    session.kill(block=False)
    peer_sock.close()
    return bounded, elapsed


def main():
    violations = 0
    for label, edge_class, first in (
            ('ProxyProtocol+SmtpEdge, peer sends nothing', AutoPPEdge, b''),
            ('ProxyProtocolV1+SmtpEdge, peer sends half a PROXY line',
             V1PPEdge, b'PROXY TCP4 1.2.3.4')):
        bounded, elapsed = run(edge_class, first)
        if bounded:
            print('bounded    {0}: ended after {1:.2f}s'.format(label, elapsed))
        else:
            violations += 1
            print('VIOLATION  {0}: no banner, no 421, still waiting after '
                  '{1:.1f}s (command_timeout={2}s)'
                  .format(label, elapsed, COMMAND_TIMEOUT))
    sys.exit(1 if violations else 0)


if __name__ == '__main__':
    main()
