"""Pre-existing C14 violation 8: an HttpRelay with an https:// URL and the
default context is not bounded by its `timeout`.

HttpRelay(url, context=None) -> slimta.http.HTTPSConnection(host, context=None)
-> http.client falls back to the standard library default HTTPS context, whose
wrap_socket() turns the (gevent) TCP socket into a blocking ssl.SSLSocket.
The TLS handshake and everything after it then block the whole process in the
kernel, so the single `with gevent.Timeout(self.relay.timeout)` of
HttpRelayClient._handle_request() can never fire.  A peer that accepts the TCP
connection and never answers the ClientHello (or stalls later) holds the
attempt, and the process, forever.  Passing a context made with
gevent.ssl.create_default_context() does not help: that function is the
standard library one (see preexisting_3.py).

The scenario runs in a child process; the parent enforces the hard deadline.

Run from the repository root:  /venv/bin/python SEED/preexisting_8.py
exit 1 = violation reproduced, exit 0 = the attempt ended in bounded time.
"""

import os
import subprocess
import sys
import time

sys.path.insert(0, os.getcwd())

TIMEOUT = 0.5
SOFT_DEADLINE = 6.0
HARD_DEADLINE = 15.0


def serve(listener):
    conn, _ = listener.accept()
    time.sleep(3600)                # accepted, never a byte


def child():
    import socket as pysocket
    import threading

    import gevent

    from slimta.envelope import Envelope
    from slimta.relay import TransientRelayError
    from slimta.relay.http import HttpRelay

    listener = pysocket.socket(pysocket.AF_INET, pysocket.SOCK_STREAM)
    listener.bind(('127.0.0.1', 0))
    listener.listen(5)
    host, port = listener.getsockname()
    thread = threading.Thread(target=serve, args=(listener, ))
    thread.daemon = True
    thread.start()

    relay = HttpRelay('https://{0}:{1}/deliver'.format(host, port),
                      ehlo_as='demo', timeout=TIMEOUT)
    env = Envelope('sender@example.com', ['rcpt@example.com'])
    env.parse(b'From: sender@example.com\r\n\r\nhello\r\n')
    outcome = {}

    def attempt():
        try:
            outcome['value'] = relay.attempt(env, 0)
        except BaseException as exc:
            outcome['value'] = exc

    start = time.time()
    g = gevent.spawn(attempt)
    g.join(SOFT_DEADLINE)
    elapsed = time.time() - start
    if not g.ready():
        print('CHILD-VIOLATION attempt still blocked after {0:.1f}s'
              .format(elapsed))
        sys.stdout.flush()
        os._exit(1)
    value = outcome.get('value')
    print('CHILD attempt ended after {0:.2f}s with {1!r}'
          .format(elapsed, value))
    sys.stdout.flush()
    os._exit(0 if isinstance(value, TransientRelayError) else 2)


def main():
    if '--child' in sys.argv:
        child()
        return
    env = dict(os.environ, PYTHONWARNINGS='ignore')
    proc = subprocess.Popen([sys.executable, os.path.abspath(__file__),
                             '--child'], cwd=os.getcwd(), env=env,
                            stdout=subprocess.PIPE, stderr=subprocess.STDOUT)
    try:
        out, _ = proc.communicate(timeout=HARD_DEADLINE)
    except subprocess.TimeoutExpired:
        proc.kill()
        out, _ = proc.communicate()
        if out.strip():
            print(out.decode('utf-8', 'replace').strip())
        print('VIOLATION: HTTPS peer accepted the connection and stayed '
              'silent; after {0:.0f}s the attempt has not ended (timeout='
              '{1}s) and the process never reached its own in-process '
              'deadline of {2}s: frozen in a blocking TLS handshake'
              .format(HARD_DEADLINE, TIMEOUT, SOFT_DEADLINE))
        sys.exit(1)
    print(out.decode('utf-8', 'replace').strip())
    sys.exit(1 if proc.returncode else 0)


if __name__ == '__main__':
    main()
