"""Pre-existing C14 violation 1: the server never bounds its own SENDS.

Only the two receive steps of slimta.smtp.server.Server (waiting for a command
and reading message data) run under a gevent Timeout.  Every reply is written
with IO.flush_send() -> socket.sendall() outside of any timer.  A peer that
keeps sending commands but never reads the replies fills the socket buffers,
the server then blocks inside sendall() forever: no 421, no close, whatever
command_timeout / data_timeout say.

Run from the repository root:  /venv/bin/python SEED/preexisting_1.py
exit 1 = violation reproduced, exit 0 = session was ended in bounded time.
"""

import os
import sys
import time

sys.path.insert(0, os.getcwd())

import gevent
from gevent import socket as gsocket

from slimta.smtp import ConnectionLost
from slimta.smtp.server import Server

COMMAND_TIMEOUT = 0.5
OBSERVE = 6.0       # how long the silent, non-reading peer is observed


def main():
    server_sock, peer_sock = gsocket.socketpair()
    server = Server(server_sock, None, address=('peer', 0),
                    command_timeout=COMMAND_TIMEOUT,
                    data_timeout=COMMAND_TIMEOUT)
    state = {}

    def session():
        try:
            server.handle()
            state['end'] = 'handle() returned'
        except ConnectionLost:
            state['end'] = 'ConnectionLost (session closed)'
        except BaseException as exc:
            state['end'] = 'raised {0!r}'.format(exc)
        finally:
            state['ended_at'] = time.time()
            server.io.close()

    g = gevent.spawn(session)

    # The peer: pipelines NOOPs as fast as the server takes them and never
    # reads a single reply.  It stops as soon as it cannot send any more
    # (i.e. the server has stopped reading because it is stuck writing).
    peer_sock.settimeout(1.0)
    sent = 0
    chunk = b'NOOP\r\n' * 512
    try:
        while sent < 64 * 1024 * 1024:
            peer_sock.sendall(chunk)
            sent += len(chunk)
    except (gsocket.timeout, OSError):
        pass
    stopped = time.time()
    print('peer pushed about {0} KiB of NOOP commands without reading, then '
          'went completely silent'.format(sent // 1024))

    g.join(OBSERVE)
    if g.ready():
        print('session ended {0:.2f}s after the peer went silent: {1}'
              .format(state['ended_at'] - stopped, state['end']))
        print('OK: bounded')
        sys.exit(0)
    print('VIOLATION: {0:.1f}s after the peer went silent the session is '
          'still open (command_timeout={1}s); the server greenlet is blocked '
          'in IO.flush_send()/sendall(), which no timer covers'
          .format(time.time() - stopped, COMMAND_TIMEOUT))
    import traceback
    frame = g.gr_frame
    if frame is not None:
        print(''.join(traceback.format_stack(frame)[-4:]))
    g.kill(block=False)
    sys.exit(1)


if __name__ == '__main__':
    main()
