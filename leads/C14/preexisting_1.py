"""Pre-existing C14 violation 1 (pristine code): the server-side TLS handshake
is not covered by any timeout.

A client sends STARTTLS, gets '220 Go ahead' and then stays silent (or, with
tls_immediately=True, connects and never sends a ClientHello).  The session
greenlet sits in SSLContext.wrap_socket() for ever: no 421, no close, although
command_timeout is configured.

Run from the repository root:  /venv/bin/python SEED/preexisting_1.py
exit 1 = violation reproduced, exit 0 = session was ended in time.
"""
from __future__ import print_function
import os, sys, time, tempfile, datetime, traceback
sys.path.insert(0, os.getcwd())
import warnings; warnings.simplefilter('ignore')
import gevent
from gevent import socket, ssl

from slimta.edge.smtp import SmtpEdge

COMMAND_TIMEOUT = 0.3
LIMIT = 3.0


def make_cert():
    from cryptography import x509
    from cryptography.x509.oid import NameOID
    from cryptography.hazmat.primitives import hashes, serialization
    from cryptography.hazmat.primitives.asymmetric import rsa
    key = rsa.generate_private_key(public_exponent=65537, key_size=2048)
    name = x509.Name([x509.NameAttribute(NameOID.COMMON_NAME, u'localhost')])
    start = datetime.datetime(2026, 1, 1)
    cert = (x509.CertificateBuilder().subject_name(name).issuer_name(name)
            .public_key(key.public_key()).serial_number(1)
            .not_valid_before(start)
            .not_valid_after(start + datetime.timedelta(days=3650))
            .sign(key, hashes.SHA256()))
    d = tempfile.mkdtemp()
    cp, kp = os.path.join(d, 'cert.pem'), os.path.join(d, 'key.pem')
    with open(cp, 'wb') as f:
        f.write(cert.public_bytes(serialization.Encoding.PEM))
    with open(kp, 'wb') as f:
        f.write(key.private_bytes(
            serialization.Encoding.PEM,
            serialization.PrivateFormat.TraditionalOpenSSL,
            serialization.NoEncryption()))
    return cp, kp


class NullQueue(object):
    def enqueue(self, envelope):
        return [(envelope, 'id')]


def read_until(sock, marker, limit=2.0):
    buf = b''
    with gevent.Timeout(limit, False):
        while marker not in buf:
            data = sock.recv(4096)
            if not data:
                break
            buf += data
    return buf


def where(g):
    frame = g.gr_frame
    if frame is None:
        return '?'
    stack = traceback.extract_stack(frame)
    return ' <- '.join('%s:%d %s' % (os.path.basename(f.filename), f.lineno, f.name)
                       for f in reversed(stack[-4:]))


def scenario(name, tls_immediately, ctx):
    a, b = socket.socketpair()
    edge = SmtpEdge(None, NullQueue(), context=ctx,
                    tls_immediately=tls_immediately,
                    command_timeout=COMMAND_TIMEOUT,
                    data_timeout=COMMAND_TIMEOUT)
    session = gevent.spawn(edge.handle, a, ('127.0.0.1', 12345))
    if not tls_immediately:
        read_until(b, b'220 ')
        b.sendall(b'EHLO client.example\r\n')
        read_until(b, b'250 ')
        b.sendall(b'STARTTLS\r\n')
        print('  [%s] server said %r, client now stays silent'
              % (name, read_until(b, b'\r\n')))
    start = time.time()
    session.join(LIMIT)
    elapsed = time.time() - start
    if session.dead:
        print('  [%s] session ended after %.2fs -> ok' % (name, elapsed))
        return True
    print('  [%s] session STILL OPEN %.1fs after the last command '
          '(command_timeout=%.1fs)' % (name, elapsed, COMMAND_TIMEOUT))
    print('      blocked in: %s' % where(session))
    session.kill()
    return False


def main():
    cp, kp = make_cert()
    ctx = ssl.SSLContext(ssl.PROTOCOL_TLS_SERVER)
    ctx.load_cert_chain(cp, kp)
    ok = [scenario('silent after STARTTLS', False, ctx),
          scenario('tls_immediately, silent before ClientHello', True, ctx)]
    if all(ok):
        print('OK: the TLS handshake is bounded by a timeout')
        return 0
    print('VIOLATION: a client holds the session for ever inside the TLS '
          'handshake')
    return 1


if __name__ == '__main__':
    sys.exit(main())
