"""Pre-existing C20 violation 1: VT / FF / FS / GS / RS inside a header value.

A header value that contains one of the ASCII control characters 0x0B, 0x0C,
0x1C, 0x1D or 0x1E (legal obs-text in RFC 5322, no CR/LF involved) is cut in
two by Envelope.flatten(): the control character is replaced by CRLF.  The
flattened header block is then malformed, and on re-parse every following
header is pushed into the body.
Exits 1 while the defect is present, 0 once fixed.
"""
import os
import sys

sys.path.insert(0, os.getcwd())

from slimta.envelope import Envelope  # noqa: E402

bad = 0
for c in (0x0b, 0x0c, 0x1c, 0x1d, 0x1e):
    hdr = b'X-Info: left' + bytes([c]) + b'right\r\nTo: rcpt@example.com\r\n\r\n'
    body = b'body\r\n'
    env = Envelope()
    env.parse(hdr + body)
    got_hdr, got_body = env.flatten()
    again = Envelope()
    again.parse(got_hdr + got_body)
    if got_hdr != hdr or got_body != body:
        bad += 1
        print('0x%02x: flatten() headers %r (wanted %r)' % (c, got_hdr, hdr))
        print('      after re-parse: To=%r body=%r'
              % (again.headers.get_all('To'), again.message))
if bad:
    print('VIOLATION: %d control characters split the header field' % bad)
    sys.exit(1)
print('ok')
sys.exit(0)
