"""Pre-existing C20 violation 2 (weak claim: parse/flatten never raise).

For header lines longer than 78 octets the stdlib refolds the header on
flatten().  With some byte strings that refolding raises, so
Envelope.flatten() (and therefore every relay / bounce that flattens the
envelope) blows up on a message that parse() accepted:
  * an 8-bit word followed by an over-long unbreakable token
    -> UnicodeEncodeError ('surrogates not allowed')
  * an over-long header name whose value is a lone 0x1C
    -> IndexError
Exits 1 while flatten() raises, 0 once fixed.
"""
import os
import sys
import pickle

sys.path.insert(0, os.getcwd())

from slimta.envelope import Envelope  # noqa: E402

CASES = [
    b'X-A: caf\xc3\xa9 ' + b'y' * 100 + b'\r\n\r\nbody\r\n',
    b'X-A: \xffabc ' + b'y' * 80 + b'\r\n\r\nbody\r\n',
    b'x' * 80 + b':\x1c',
]
bad = 0
for data in CASES:
    env = Envelope()
    env.parse(data)            # accepted without complaint
    env2 = pickle.loads(pickle.dumps(env.copy(), pickle.HIGHEST_PROTOCOL))
    try:
        env2.flatten()
    except Exception as exc:
        bad += 1
        print('flatten() raised %r for %r...' % (exc, data[:30]))
if bad:
    print('VIOLATION: flatten() raised for %d of %d inputs' % (bad, len(CASES)))
    sys.exit(1)
print('ok')
sys.exit(0)
