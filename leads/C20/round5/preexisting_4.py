"""Pre-existing C20 violation: a header line of exactly 78 bytes written
without a space after the colon ("Name:value") is re-folded by flatten(), and
flattening the re-parsed output gives yet another header block, so
parse/flatten is not a fixed point."""
import os
import sys

sys.path.insert(0, os.getcwd())
from slimta.envelope import Envelope  # noqa: E402

line = b'Subject:' + b'word ' * 13 + b'abcde'
assert len(line) == 78
data = line + b'\r\nFrom: sender@example.com\r\n\r\nbody\r\n'

env = Envelope()
env.parse(data)
h1, b1 = env.flatten()
env2 = Envelope()
env2.parse(h1 + b1)
h2, b2 = env2.flatten()
print('input   : %r' % (line,))
print('flatten : %r' % (h1.split(b'\r\nFrom')[0],))
print('again   : %r' % (h2.split(b'\r\nFrom')[0],))
folded = h1.split(b'\r\n')[0] == b'Subject:'
not_fixed = (h1, b1) != (h2, b2)
if folded:
    print('the 78 byte line was re-folded (first line left empty)')
if not_fixed:
    print('re-parsing the flattened output is not a fixed point')
bad = folded or not_fixed
print('VIOLATION' if bad else 'no violation')
sys.exit(1 if bad else 0)
