"""Pre-existing C20 violation: Envelope.parse() raises IndexError on a short,
syntactically well-formed Content-Type field whose parameter name is followed
by white space and a '*' (e.g. "text/plain; charset *")."""
import os
import sys
import pickle

sys.path.insert(0, os.getcwd())
from slimta.envelope import Envelope  # noqa: E402

bad = 0
for value in (b'text/plain; charset *', b'text/plain; name *', b'a;x *'):
    header = b'Content-Type: ' + value + b'\r\n'
    data = b'From: sender@example.com\r\n' + header + b'\r\nbody\r\n'
    try:
        env = Envelope()
        env.parse(data)
        headers, body = env.flatten()
        env.copy().flatten()
        pickle.loads(pickle.dumps(env, pickle.HIGHEST_PROTOCOL)).flatten()
    except Exception as exc:
        bad += 1
        print('%r: raised %r' % (header, exc))
        continue
    ok = body == b'body\r\n' and headers == data[:-len(b'body\r\n')]
    print('%r: %s' % (header, 'ok' if ok else 'changed: %r' % (headers,)))
    bad += not ok
print('VIOLATION' if bad else 'no violation')
sys.exit(1 if bad else 0)
