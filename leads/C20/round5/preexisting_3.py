"""Pre-existing C20 deviation: 7-bit conversion with the base64 encoder does
not decode to the same text - every CRLF of the received body comes back as a
bare LF (the parser used by _encode_parts() translates newlines before the
encoder sees the payload).  With quoted-printable the CRLFs survive, but a
lone CR inside a line is turned into CRLF."""
import os
import sys
import base64
import quopri

sys.path.insert(0, os.getcwd())
from email.encoders import encode_base64, encode_quopri  # noqa: E402
from slimta.envelope import Envelope  # noqa: E402

HDR = (b'From: sender@example.com\r\n'
       b'Content-Type: text/plain; charset="utf-8"\r\n\r\n')


def convert(body, encoder):
    env = Envelope()
    env.parse(HDR + body)
    env.encode_7bit(encoder)
    _, out = env.flatten()
    out.decode('ascii')
    if encoder is encode_base64:
        return base64.b64decode(out)
    return quopri.decodestring(out)


bad = 0
body = u'h\xe9llo\r\nw\xf6rld\r\n'.encode('utf-8')
for encoder in (encode_base64, encode_quopri):
    got = convert(body, encoder)
    ok = got == body
    bad += not ok
    print('%s: CRLF text %r decodes to %r -> %s'
          % (encoder.__name__, body, got, 'ok' if ok else 'DIFFERENT'))
# Outside the set the property is judged on (lone CR), for information only.
body_cr = u'10%\r100% \xe9\r\n'.encode('utf-8')
for encoder in (encode_base64, encode_quopri):
    got = convert(body_cr, encoder)
    print('(info) %s: lone-CR text %r decodes to %r'
          % (encoder.__name__, body_cr, got))
print('VIOLATION' if bad else 'no violation')
sys.exit(1 if bad else 0)
