"""Pre-existing deviation at the edge of the property's domain: an ASCII
control character that str.splitlines() treats as a line boundary (VT, FF, FS,
GS, RS) inside a short header value is replaced by a bare CRLF on flatten(),
i.e. the field is cut in two, the second half is no continuation line, and on
re-parsing everything after it (including later header fields) becomes body."""
import os
import sys

sys.path.insert(0, os.getcwd())
from slimta.envelope import Envelope  # noqa: E402

bad = 0
for ch in (b'\x0b', b'\x0c', b'\x1c', b'\x1d', b'\x1e'):
    data = (b'Subject: part one' + ch + b'part two\r\n'
            b'From: sender@example.com\r\n\r\nbody\r\n')
    env = Envelope()
    env.parse(data)
    h1, b1 = env.flatten()
    env2 = Envelope()
    env2.parse(h1 + b1)
    h2, b2 = env2.flatten()
    ok = h1 + b1 == data and (h2, b2) == (h1, b1)
    bad += not ok
    print('%r in value: flatten -> %r ; re-parsed body %r -> %s'
          % (ch, h1, b2, 'ok' if ok else 'BROKEN'))
print('VIOLATION' if bad else 'no violation')
sys.exit(1 if bad else 0)
