"""Pre-existing C20 violation (weaker 'never raises' claim): flatten() lets
AttributeError / TypeError from the email package escape when an over-long
address header has to be re-folded; only UnicodeError and IndexError are
handled by the fall-back in Envelope._msg_generator()."""
import os
import sys
import pickle

sys.path.insert(0, os.getcwd())
from slimta.envelope import Envelope  # noqa: E402

CASES = [
    # group syntax with a stray ']' ('Group' object has no attribute
    # 'local_part')
    b'To: friends:]; ' + b'someone@example.com, ' * 4 + b'x@example.com',
    b'To: a:];' + b'x' * 75,
    # ('str' object has no attribute 'token_type')
    b'To: .' + b'\xe9' * 90 + b': @',
]
bad = 0
for line in CASES:
    data = line + b'\r\n\r\nbody\r\n'
    env = Envelope()
    try:
        env.parse(data)
        env.copy()
        pickle.loads(pickle.dumps(env, pickle.HIGHEST_PROTOCOL))
        env.flatten()
    except Exception as exc:
        bad += 1
        print('%r... (%d bytes): raised %r' % (line[:24], len(line), exc))
    else:
        print('%r... (%d bytes): ok' % (line[:24], len(line)))
print('VIOLATION' if bad else 'no violation')
sys.exit(1 if bad else 0)
