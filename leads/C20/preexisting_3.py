"""Pre-existing C20 violation 3: encode_7bit(encode_base64) rewrites CRLF to LF.

An 8-bit UTF-8 text body with CRLF line ends that is converted with the
base64 encoder decodes to text with bare-LF line ends: the CRLFs are lost
inside the base64 data (quoted-printable keeps them).  Byte-wise the decoded
text differs from the original; RFC 2045/2046 require CRLF as the canonical
line break of text encoded in base64.
Exits 1 while the decoded text differs, 0 once fixed.
"""
import os
import sys
import base64
import quopri

sys.path.insert(0, os.getcwd())

from email.encoders import encode_base64, encode_quopri  # noqa: E402
from slimta.envelope import Envelope  # noqa: E402

HDR = (b'From: a@example.com\r\nContent-Type: text/plain; charset=utf-8\r\n'
       b'Content-Transfer-Encoding: 8bit\r\n\r\n')
BODY = u'h\xe9llo w\xf6rld\r\nsecond line €\r\n'.encode('utf-8')

bad = 0
for name, enc, dec in (('base64', encode_base64, base64.b64decode),
                       ('quoted-printable', encode_quopri,
                        quopri.decodestring)):
    env = Envelope()
    env.parse(HDR + BODY)
    env.encode_7bit(enc)
    hdr, body = env.flatten()
    body.decode('ascii')
    decoded = dec(body)
    print('%-16s decodes to %r' % (name, decoded))
    if decoded != BODY:
        bad += 1
if bad:
    print('VIOLATION: decoded text differs from the original %r' % BODY)
    sys.exit(1)
print('ok')
sys.exit(0)
