"""Pre-existing C06 violation 3: a recipient the edge answers with a positive
reply other than 250 is reported as delivered by the relay but is missing from
the envelope the edge hands on.

An SmtpValidators.handle_rcpt() may answer a recipient with any 2xx code, e.g.
"251 User not local; will forward" (RFC 5321 3.4/4.2.3) or 252.  The relay
client (correctly) treats that as acceptance.  The edge, however, only records
the recipient -- SmtpSession.RCPT() -- and only counts it towards
Server.have_rcptto -- Server._command_RCPT() -- when the code is exactly '250'.
With other accepted recipients in the same transaction the message goes through
and the relay reports the edge's final 250 for the 251 recipient too, but that
recipient is not in the envelope given to the queue: it is silently lost.  (If
it is the only recipient, DATA is answered 503 although RCPT was accepted.)

In-memory socket pair only.  Run from the repository root:
    /venv/bin/python SEED/preexisting_3.py
Exits 1 while the defect is present, 0 once fixed.
"""
import os
import sys
import warnings

warnings.filterwarnings('ignore')
sys.path.insert(0, os.getcwd())

import gevent  # noqa: E402
from gevent import socket as gsocket  # noqa: E402
from gevent.event import AsyncResult  # noqa: E402

from slimta.envelope import Envelope  # noqa: E402
from slimta.edge.smtp import SmtpEdge, SmtpValidators  # noqa: E402
from slimta.relay import RelayError  # noqa: E402
from slimta.relay.smtp.client import SmtpRelayClient  # noqa: E402
from slimta.util.deque import BlockingDeque  # noqa: E402


class FakeQueue(object):

    def __init__(self):
        self.got = []

    def enqueue(self, env):
        self.got.append(env)
        return [(env, 'id{0}'.format(len(self.got)))]


class Validators(SmtpValidators):

    def handle_rcpt(self, reply, recipient, params):
        if recipient.startswith('moved'):
            reply.code = '251'
            reply.message = '2.1.5 User not local; will forward'


def hop(envelope):
    queue = FakeQueue()
    edge = SmtpEdge(None, queue, validator_class=Validators,
                    hostname='edge.example')
    client_sock, server_sock = gsocket.socketpair()

    def serve():
        try:
            edge.handle(server_sock, ('127.0.0.1', 12345))
        except Exception:
            pass

    server = gevent.spawn(serve)
    requests = BlockingDeque()
    result = AsyncResult()
    requests.append((result, envelope))
    client = SmtpRelayClient(('127.0.0.1', 25), requests,
                             socket_creator=lambda addr: client_sock,
                             ehlo_as='client.example')
    client.start()
    client.join(timeout=20)
    server.join(timeout=5)
    server.kill()
    try:
        outcome = result.get(timeout=1)
    except BaseException as exc:
        outcome = exc
    return queue.got, outcome


def main():
    recipients = ['a@example.com', 'moved@example.com', 'c@example.com']
    env = Envelope('sender@example.com', list(recipients))
    env.parse(b'Subject: x\r\n\r\nbody\r\n')
    received, outcome = hop(env)
    print('relay was given recipients :', recipients)
    if isinstance(outcome, dict):
        for rcpt in recipients:
            res = outcome.get(rcpt)
            print('  relay result for %-18s: %s' % (
                rcpt, getattr(res, 'reply', res)))
    else:
        print('  relay result: %r' % (outcome,))
    got_rcpts = [g.recipients for g in received]
    print('edge handed on recipients  :', got_rcpts)
    ok_for_moved = isinstance(outcome, dict) and \
        not isinstance(outcome.get('moved@example.com'), RelayError)
    if ok_for_moved and got_rcpts != [recipients]:
        print('VIOLATION: the relay reports moved@example.com as accepted '
              '(the edge said 251, then 250 after DATA) but the edge dropped '
              'that recipient')
        return 1
    print('ok')
    return 0


if __name__ == '__main__':
    sys.exit(main())
