"""Pre-existing C06 violation 6 (HTTP transport): WsgiEdge cannot express some
failure replies in its X-Smtp-Reply header, answers a bare "500 Internal
Server Error" instead, and the HTTP relay therefore reports a *transient*
"450 4.0.0 Internal Server Error" where the edge had decided on a permanent
5xx reply.

slimta.edge.wsgi._build_http_response() passes reply.command and reply.message
straight to wsgiref.headers.Headers.add_header():
  * reply.command is bytes for every reply produced by the SMTP client
    (b'RCPT', b'[SEND_DATA]', ...), e.g. when the edge sits in front of a
    ProxyQueue + SMTP relay: add_header() raises AssertionError;
  * a multi-line reply message (common from real SMTP servers) puts CR LF into
    the header value: start_response() raises ValueError.
In both cases WsgiEdge.__call__ falls into `except Exception`, which moreover
returns a str body that pywsgi cannot send.

Uses only the loopback interface.  Run from the repository root:
    /venv/bin/python SEED/preexisting_6.py
Exits 1 while the defect is present, 0 once fixed.
"""
import os
import sys
import warnings

warnings.filterwarnings('ignore')
sys.path.insert(0, os.getcwd())

import logging  # noqa: E402
import gevent  # noqa: E402
from gevent.pywsgi import WSGIServer  # noqa: E402

from slimta.envelope import Envelope  # noqa: E402
from slimta.edge.wsgi import WsgiEdge  # noqa: E402
from slimta.relay.http import HttpRelay  # noqa: E402
from slimta.relay.smtp import SmtpRelayError  # noqa: E402
from slimta.smtp.reply import Reply  # noqa: E402

logging.disable(logging.CRITICAL)


class RefusingQueue(object):
    """Behaves like ProxyQueue whose SMTP relay got a permanent failure."""

    def __init__(self):
        self.failure = None

    def enqueue(self, env):
        return [(env, self.failure)]


class Quiet(object):

    def write(self, data):
        pass

    def flush(self):
        pass


def main():
    gevent.get_hub().exception_stream = Quiet()
    queue = RefusingQueue()
    edge = WsgiEdge(queue, hostname='edge.example')
    server = WSGIServer(('127.0.0.1', 0), edge, log=None, error_log=Quiet())
    server.start()
    relay = HttpRelay('http://127.0.0.1:{0}/'.format(server.server_port),
                      ehlo_as='client.example', timeout=10.0)
    cases = [
        ('control: plain 550 reply',
         Reply('550', '5.1.1 No such user')),
        ('550 reply carrying the SMTP command it answered (bytes)',
         Reply('550', '5.1.1 No such user', command=b'RCPT')),
        ('multi-line 550 reply',
         Reply('550', '5.1.1 No such user\r\nplease check the address')),
    ]
    bad = 0
    for name, reply in cases:
        queue.failure = SmtpRelayError.factory(reply)
        env = Envelope('sender@example.com', ['rcpt@example.com'])
        env.parse(b'Subject: x\r\n\r\nbody\r\n')
        try:
            reported = 'success: {0}'.format(relay.attempt(env, 0))
            code = None
        except Exception as exc:
            rep = getattr(exc, 'reply', None)
            code = getattr(rep, 'code', None)
            reported = '{0}: {1}'.format(type(exc).__name__, rep or exc)
        same = code == reply.code
        print('%s %s' % ('ok ' if same else 'BAD', name))
        print('      edge decided   : %s %s' % (
            reply.code, reply.message.replace('\r\n', ' / ')))
        print('      relay reported : %s' % reported)
        if not same:
            bad += 1
    server.stop()
    if bad:
        print('VIOLATION: %d permanent refusal(s) by the edge reached the '
              'relay as something else' % bad)
        return 1
    print('ok')
    return 0


if __name__ == '__main__':
    sys.exit(main())
