"""Pre-existing C06 violation 2: the rest of an over-size message is executed
as SMTP commands by the edge.

An SmtpEdge with max_size set stops reading message data as soon as the
DataReader has seen more than max_size bytes (slimta.smtp.datareader
DataReader.recv_piece raises MessageTooBig) and answers 552 -- but the bytes of
the message the client has already sent (everything up to "<CRLF>.<CRLF>") are
still in the socket.  Server.handle() goes back to reading *commands*, so the
remainder of the body is interpreted as SMTP commands.  The relay handed ONE
message (sender s1@example.com -> a@example.com); what arrives at the edge's
queue is a DIFFERENT message (evil@example.com -> victim@example.com) that was
just text inside the body, and the client is left with stale replies in the
pipe.  (SmtpRelayClient never sends SIZE= with MAIL, so it cannot be refused up
front.)

In-memory socket pair only.  Run from the repository root:
    /venv/bin/python SEED/preexisting_2.py
Exits 1 while the defect is present, 0 once fixed.
"""
import os
import sys
import warnings

warnings.filterwarnings('ignore')
sys.path.insert(0, os.getcwd())

import gevent  # noqa: E402
from gevent import socket as gsocket  # noqa: E402
from gevent.event import AsyncResult  # noqa: E402

from slimta.envelope import Envelope  # noqa: E402
from slimta.edge.smtp import SmtpEdge  # noqa: E402
from slimta.relay.smtp.client import SmtpRelayClient  # noqa: E402
from slimta.util.deque import BlockingDeque  # noqa: E402


class FakeQueue(object):

    def __init__(self):
        self.got = []

    def enqueue(self, env):
        self.got.append(env)
        return [(env, 'id{0}'.format(len(self.got)))]


class Tap(object):
    """Socket wrapper that records what the server said."""

    def __init__(self, sock, log):
        self._sock = sock
        self._log = log

    def recv(self, n):
        data = self._sock.recv(n)
        self._log.append(data)
        return data

    def __getattr__(self, name):
        return getattr(self._sock, name)


def main():
    queue = FakeQueue()
    edge = SmtpEdge(None, queue, max_size=1000, hostname='edge.example')
    client_sock, server_sock = gsocket.socketpair()

    def serve():
        try:
            edge.handle(server_sock, ('127.0.0.1', 12345))
        except Exception:
            pass

    server = gevent.spawn(serve)

    padding = (b'y' * 70 + b'\r\n') * 70        # 5040 bytes > one recv(4096)
    env = Envelope('s1@example.com', ['a@example.com'])
    env.parse(b'Subject: big\r\n\r\n' + padding +
              b'RSET\r\n'
              b'MAIL FROM:<evil@example.com>\r\n'
              b'RCPT TO:<victim@example.com>\r\n'
              b'DATA\r\n'
              b'Subject: smuggled\r\n'
              b'\r\n'
              b'this text was only ever part of the body of the big message\r\n')

    requests = BlockingDeque()
    result = AsyncResult()
    requests.append((result, env))
    server_said = []
    client = SmtpRelayClient(('127.0.0.1', 25), requests,
                             socket_creator=lambda a: Tap(client_sock,
                                                          server_said),
                             ehlo_as='client.example')
    client.start()
    client.join(timeout=20)
    server.join(timeout=5)
    server.kill()
    try:
        outcome = result.get(timeout=1)
    except BaseException as exc:
        outcome = exc
    print('relay was given : sender=%r recipients=%r (%d byte body)'
          % (env.sender, env.recipients, len(env.message)))
    print('relay reported  : %s' % (outcome,))
    print('edge replies after the end of DATA:')
    after = b''.join(server_said).split(b'354 ', 1)[-1]
    for line in after.split(b'\r\n')[1:]:
        if line:
            print('    ' + line.decode('utf-8', 'replace'))
    print('edge queue got  : %r' % [(g.sender, g.recipients,
                                     g.flatten()[1]) for g in queue.got])
    if queue.got:
        print('VIOLATION: the edge stored a message nobody handed to the '
              'relay; the tail of the refused message was run as commands')
        return 1
    print('ok')
    return 0


if __name__ == '__main__':
    sys.exit(main())
