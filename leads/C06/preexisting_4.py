"""Pre-existing C06 violation 4: after STARTTLS + HELO fallback the client
still believes in the extensions of the earlier, clear-text EHLO.

SmtpRelayClient._handshake() sends EHLO, STARTTLS, EHLO.  If the second EHLO
is answered 500 the client falls back to HELO (SmtpRelayClient._ehlo ->
_helo).  slimta.smtp.client.Client.helo() does not touch Client.extensions,
and Client.ehlo() only replaces them on a 250, so the list parsed from the
FIRST (pre-TLS) EHLO reply stays in force although the server, in the session
that is now established with HELO, advertises no extension at all (its own
Server._command_HELO() even does self.extensions.reset()).  The client then
pipelines MAIL/RCPT/DATA and sends 8-bit content unconverted to a server that
offered neither PIPELINING nor 8BITMIME, and still "sees" STARTTLS.

The TLS layer is replaced by a pass-through fake context so no certificates
are needed; the edge is the library's own SmtpEdge whose validator refuses
EHLO (500) once the session is encrypted.  In-memory socket pair only.  Run
from the repository root:
    /venv/bin/python SEED/preexisting_4.py
Exits 1 while the defect is present, 0 once fixed.
"""
import os
import sys
import warnings

warnings.filterwarnings('ignore')
sys.path.insert(0, os.getcwd())

import gevent  # noqa: E402
from gevent import socket as gsocket  # noqa: E402
from gevent.event import AsyncResult  # noqa: E402

from slimta.envelope import Envelope  # noqa: E402
from slimta.edge.smtp import SmtpEdge, SmtpValidators  # noqa: E402
from slimta.relay.smtp.client import SmtpRelayClient  # noqa: E402
from slimta.util.deque import BlockingDeque  # noqa: E402


class FakeQueue(object):

    def __init__(self):
        self.got = []

    def enqueue(self, env):
        self.got.append(env)
        return [(env, 'id{0}'.format(len(self.got)))]


class PassThroughContext(object):
    """Stands in for ssl.SSLContext: 'encrypts' by returning the socket."""

    def wrap_socket(self, sock, **kwargs):
        return sock

    def session_stats(self):
        return {}


class Validators(SmtpValidators):

    def handle_ehlo(self, reply, ehlo_as):
        if self.session.security == 'TLS':
            reply.code = '500'
            reply.message = '5.5.2 EHLO not supported, use HELO'


class Tap(object):

    def __init__(self, sock, log):
        self._sock = sock
        self._log = log

    def sendall(self, data):
        self._log.append(b'C: ' + bytes(data))
        return self._sock.sendall(data)

    def recv(self, n):
        data = self._sock.recv(n)
        self._log.append(b'S: ' + data)
        return data

    def __getattr__(self, name):
        return getattr(self._sock, name)


def main():
    queue = FakeQueue()
    edge = SmtpEdge(None, queue, validator_class=Validators,
                    context=PassThroughContext(), hostname='edge.example')
    client_sock, server_sock = gsocket.socketpair()

    def serve():
        try:
            edge.handle(server_sock, ('127.0.0.1', 12345))
        except Exception:
            pass

    server = gevent.spawn(serve)
    env = Envelope('sender@example.com', ['rcpt@example.com'])
    env.parse(b'Subject: x\r\n\r\n8-bit body \xe9\r\n')
    requests = BlockingDeque()
    result = AsyncResult()
    requests.append((result, env))
    log = []
    client = SmtpRelayClient(('127.0.0.1', 25), requests,
                             socket_creator=lambda a: Tap(client_sock, log),
                             context=PassThroughContext(),
                             ehlo_as='client.example')
    client.start()
    client.join(timeout=20)
    server.join(timeout=5)
    server.kill()
    for entry in log:
        for line in entry[3:].split(b'\r\n'):
            if line:
                print(entry[:3].decode() + line.decode('utf-8', 'replace'))
    seen = sorted(client.client.extensions.extensions)
    print('extensions advertised in the established (HELO) session: []')
    print('extensions the client believes in                      :', seen)
    if seen:
        print('VIOLATION: the client acts on extensions from the discarded '
              'pre-TLS EHLO reply')
        return 1
    print('ok')
    return 0


if __name__ == '__main__':
    sys.exit(main())
