"""Pre-existing C06 violation 2: a data timeout in the middle of sending the
message makes the edge accept a corrupted message.

IO.flush_send() only empties the send buffer after raw_send() succeeded.
When the relay's data_timeout fires while sendall() is half way through a
large message (slow link / slow receiver), the whole message is still in the
buffer.  SmtpRelayClient._run() then reports "421 Connection timed out" and
calls _disconnect(), whose QUIT flushes the buffer again: the complete
message, its end-of-data marker and QUIT are written into the DATA stream the
edge is still reading.  The edge sees <first part><whole message>, a valid
end-of-data, answers 250 and queues a message whose body is not the one that
was handed to the relay -- while the relay reported a transient failure and
will send the message once more later.
"""
import os
import sys
import warnings
warnings.filterwarnings('ignore')
sys.path.insert(0, os.getcwd())

import gevent
from gevent import socket as gsocket
from slimta.envelope import Envelope
from slimta.edge.smtp import SmtpEdge, SmtpSession
from slimta.relay import RelayError
from slimta.relay.smtp.static import StaticSmtpRelay


class FakeQueue(object):
    def __init__(self):
        self.got = []

    def enqueue(self, env):
        self.got.append(env)
        return [(env, 'id')]


class Session(SmtpSession):
    def BANNER_(self, reply):
        pass


class StallingSocket(object):
    """Edge side of the link: after `after` bytes were read, the receiver is
    stalled once for `stall` seconds (congestion, busy host, ...)."""

    def __init__(self, sock, after, stall):
        self._sock = sock
        self._after = after
        self._stall = stall
        self._count = 0

    def recv(self, bufsize, *args):
        if self._stall and self._count > self._after:
            gevent.sleep(self._stall)
            self._stall = 0
        data = self._sock.recv(bufsize, *args)
        self._count += len(data)
        return data

    def __getattr__(self, name):
        return getattr(self._sock, name)


def main():
    sys.stderr = open(os.devnull, 'w')   # greenlet tracebacks of closed sockets
    queue = FakeQueue()
    edge = SmtpEdge(None, queue, session_class=Session, hostname='edge.test')

    def creator(address):
        ours, theirs = gsocket.socketpair()
        gevent.spawn(edge.handle, StallingSocket(theirs, 20000, 2.0),
                     ('127.0.0.1', 1234))
        return ours

    relay = StaticSmtpRelay('edge.test', 25, socket_creator=creator,
                            ehlo_as='client.test', command_timeout=5.0,
                            data_timeout=1.0)
    body = b''.join(b'line %06d of the only copy of this message ........'
                    b'................\r\n' % i for i in range(20000))
    env = Envelope('sender@example.org', ['rcpt@example.com'])
    env.parse(b'From: sender@example.org\r\nSubject: big\r\n\r\n' + body)
    try:
        with gevent.Timeout(30.0):
            result = relay.attempt(env, 0)
    except RelayError as exc:
        result = exc
    print('relay reported: {0!r}'.format(result))
    gevent.sleep(6.0)   # let the edge session run to its end
    print('edge queued {0} message(s)'.format(len(queue.got)))
    violation = False
    for got in queue.got:
        same = got.flatten() == env.flatten()
        print('  body length {0} (original {1}), identical={2}, copies of '
              'the "Subject: big" header line inside the message: {3}'.format(
                  len(got.message), len(env.message), same,
                  b''.join(got.flatten()).count(b'Subject: big')))
        if not same:
            violation = True
    if violation:
        print('VIOLATION: the edge accepted and queued a message that is not '
              'the one handed to the relay (relay result: {0!r})'
              .format(result))
        return 1
    print('ok')
    return 0


if __name__ == '__main__':
    sys.exit(main())
