"""Pre-existing C06 violation 7: a message with an empty header block does
not keep its body across a hop.

The relay sends flatten() == (b'\r\n', body).  The edge feeds the received
b'\r\n' + body to Envelope.parse(), which looks for the first "newline,
optional white space, newline" anywhere in the data to split headers from
body.  With no headers that boundary is found inside (or at the start of) the
body: leading line breaks of the body are swallowed, and the part of the body
up to its first empty line goes through the email parser/generator, which
rewrites its line endings.
"""
import os
import sys
import warnings
warnings.filterwarnings('ignore')
sys.path.insert(0, os.getcwd())

from email.message import Message

import gevent
from gevent import socket as gsocket
from slimta.envelope import Envelope
from slimta.edge.smtp import SmtpEdge, SmtpSession
from slimta.relay import RelayError
from slimta.relay.smtp.static import StaticSmtpRelay


class FakeQueue(object):
    def __init__(self):
        self.got = []

    def enqueue(self, env):
        self.got.append(env)
        return [(env, 'id')]


class Session(SmtpSession):
    raw = []

    def BANNER_(self, reply):
        pass

    def HAVE_DATA(self, reply, data, err):
        Session.raw.append(data)
        return SmtpSession.HAVE_DATA(self, reply, data, err)


def main():
    sys.stderr = open(os.devnull, 'w')
    queue = FakeQueue()
    edge = SmtpEdge(None, queue, session_class=Session, hostname='edge.test')

    def creator(address):
        ours, theirs = gsocket.socketpair()
        gevent.spawn(edge.handle, theirs, ('127.0.0.1', 1234))
        return ours

    relay = StaticSmtpRelay('edge.test', 25, socket_creator=creator,
                            ehlo_as='client.test', command_timeout=5.0)
    bodies = [
        b'plain text\r\nsecond line\r\n',
        b'\r\nstarts with an empty line\r\n',
        b'unix line\nanother\n\nsecond paragraph\r\n',
    ]
    violations = 0
    for body in bodies:
        env = Envelope('sender@example.org', ['rcpt@example.com'],
                       headers=Message(), message=body)
        del queue.got[:]
        del Session.raw[:]
        try:
            with gevent.Timeout(20.0):
                result = relay.attempt(env, 0)
        except RelayError as exc:
            result = exc
        sent = env.flatten()
        recv = queue.got[0].flatten() if queue.got else None
        print('sent     {0!r}\n on wire {1!r}\n queued  {2!r}'.format(
            sent, Session.raw[0] if Session.raw else None, recv))
        if recv != sent:
            violations += 1
    if violations:
        print('VIOLATION: {0} header-less message(s) changed during the hop'
              .format(violations))
        return 1
    print('ok')
    return 0


if __name__ == '__main__':
    sys.exit(main())
