"""Pre-existing C06 violation 6: the header block is not byte-identical after
a hop when a header line is just over 78 characters and cannot be folded.

Envelope.flatten() re-folds long source header lines (email.policy.SMTP,
refold_source='long').  For a header whose value is one unbreakable token
(message id, token, URL ...) such that "Name: token" is longer than 78
characters while the token alone still fits on a line, the result of folding
is not a fixed point: the sender emits
"Name:\r\n value", the edge parses that and its own flatten() emits
"Name: \r\n value".  The bytes on the wire are transferred faithfully; it is
the edge's Envelope that no longer holds the header block that was sent (any
signature over the headers made before the hop is broken after it).
"""
import os
import sys
import warnings
warnings.filterwarnings('ignore')
sys.path.insert(0, os.getcwd())

import gevent
from gevent import socket as gsocket
from slimta.envelope import Envelope
from slimta.edge.smtp import SmtpEdge, SmtpSession
from slimta.relay import RelayError
from slimta.relay.smtp.static import StaticSmtpRelay


class FakeQueue(object):
    def __init__(self):
        self.got = []

    def enqueue(self, env):
        self.got.append(env)
        return [(env, 'id')]


class Session(SmtpSession):
    def BANNER_(self, reply):
        pass


def main():
    sys.stderr = open(os.devnull, 'w')
    queue = FakeQueue()
    edge = SmtpEdge(None, queue, session_class=Session, hostname='edge.test')

    def creator(address):
        ours, theirs = gsocket.socketpair()
        gevent.spawn(edge.handle, theirs, ('127.0.0.1', 1234))
        return ours

    relay = StaticSmtpRelay('edge.test', 25, socket_creator=creator,
                            ehlo_as='client.test', command_timeout=5.0)
    env = Envelope('sender@example.org', ['rcpt@example.com'])
    env.parse(b'From: sender@example.org\r\n'
              b'X-Token: ' + b'a' * 70 + b'\r\n'
              b'Subject: hi\r\n\r\nbody\r\n')
    try:
        with gevent.Timeout(20.0):
            result = relay.attempt(env, 0)
    except RelayError as exc:
        result = exc
    print('relay reported: {0!r}'.format(result))
    sent_headers, sent_body = env.flatten()
    recv_headers, recv_body = queue.got[0].flatten()
    print('header block handed to the relay:\n  {0!r}'.format(sent_headers))
    print('header block of the envelope the edge queued:\n  {0!r}'.format(
        recv_headers))
    if sent_headers != recv_headers:
        print('VIOLATION: header block changed during the hop')
        return 1
    print('ok')
    return 0


if __name__ == '__main__':
    sys.exit(main())
