"""Pre-existing C06 violation 1: HttpRelay with connection reuse.

With idle_timeout set, HttpRelayClient keeps its HTTPConnection for the next
message but never reads/closes the previous HTTPResponse.  The second message
on the connection is sent, the WsgiEdge receives and queues it and answers
204 / "250 Message accepted" -- but http.client refuses getresponse() with
ResponseNotReady, so the relay reports a transient failure (and the message
will be delivered again on retry).
"""
import os
import sys
import warnings
warnings.filterwarnings('ignore')
sys.path.insert(0, os.getcwd())

import gevent
from slimta.envelope import Envelope
from slimta.edge.wsgi import WsgiEdge
from slimta.relay.http import HttpRelay
from slimta.relay import RelayError


class FakeQueue(object):
    def __init__(self):
        self.got = []

    def enqueue(self, env):
        self.got.append(env)
        return [(env, 'id')]


def main():
    devnull = open(os.devnull, 'w')
    sys.stderr = devnull    # silence the greenlet traceback of the relay
    queue = FakeQueue()
    edge = WsgiEdge(queue, hostname='edge.test')
    server = edge.build_server(('127.0.0.1', 0))
    server.log = devnull
    server.error_log = devnull
    server.start()
    relay = HttpRelay('http://127.0.0.1:{0}/'.format(server.server_port),
                      ehlo_as='client.test', timeout=5.0, idle_timeout=5.0)
    violations = 0
    for n in range(3):
        env = Envelope('sender@example.org', ['rcpt@example.com'])
        env.parse('From: sender@example.org\r\nSubject: msg {0}\r\n\r\n'
                  'body {0}\r\n'.format(n).encode('ascii'))
        before = len(queue.got)
        try:
            with gevent.Timeout(10.0):
                result = relay.attempt(env, 0)
        except RelayError as exc:
            result = exc
        gevent.sleep(0.3)   # let the edge finish handling the request
        queued = len(queue.got) - before
        print('message {0}: edge queued {1} message(s); relay reported {2!r}'
              .format(n, queued, result))
        if queued == 1 and isinstance(result, Exception):
            violations += 1
    server.stop()
    if violations:
        print('VIOLATION: {0} message(s) were accepted by the edge (250) but '
              'reported as failed by the relay'.format(violations))
        return 1
    print('ok')
    return 0


if __name__ == '__main__':
    sys.exit(main())
