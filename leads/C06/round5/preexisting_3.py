"""Pre-existing C06 violation 3: a message over the edge's SIZE limit turns
into a different message.

DataReader.recv_piece() raises MessageTooBig as soon as the limit is passed
and the Server answers 552 -- but it does not skip to the end-of-data marker.
Everything the relay client still sends (it cannot know yet) is read as SMTP
commands.  A body that contains lines looking like an SMTP transaction after
the cut-off point is therefore executed: the edge queues a message with an
envelope sender, recipient and content that nobody handed to the relay,
while the relay (correctly) reports 552 for the real one.
"""
import os
import sys
import warnings
warnings.filterwarnings('ignore')
sys.path.insert(0, os.getcwd())

import gevent
from gevent import socket as gsocket
from slimta.envelope import Envelope
from slimta.edge.smtp import SmtpEdge, SmtpSession
from slimta.relay import RelayError
from slimta.relay.smtp.static import StaticSmtpRelay


class FakeQueue(object):
    def __init__(self):
        self.got = []

    def enqueue(self, env):
        self.got.append(env)
        return [(env, 'id')]


class Session(SmtpSession):
    def BANNER_(self, reply):
        pass


def main():
    sys.stderr = open(os.devnull, 'w')   # greenlet tracebacks of closed sockets
    queue = FakeQueue()
    edge = SmtpEdge(None, queue, session_class=Session, hostname='edge.test',
                    max_size=2000)

    def creator(address):
        ours, theirs = gsocket.socketpair()
        gevent.spawn(edge.handle, theirs, ('127.0.0.1', 1234))
        return ours

    relay = StaticSmtpRelay('edge.test', 25, socket_creator=creator,
                            ehlo_as='client.test', command_timeout=5.0)
    filler = b''.join(b'filler line %04d .................................'
                      b'.......\r\n' % i for i in range(120))
    quoted_transcript = (
        b'MAIL FROM:<ceo@edge.test>\r\n'
        b'RCPT TO:<victim@edge.test>\r\n'
        b'DATA\r\n'
        b'From: ceo@edge.test\r\nSubject: please pay\r\n\r\nphantom\r\n'
        b'.\r\n')
    env = Envelope('sender@example.org', ['rcpt@example.com'])
    env.parse(b'From: sender@example.org\r\nSubject: too big\r\n\r\n' +
              filler + quoted_transcript + b'the end\r\n')
    try:
        with gevent.Timeout(20.0):
            result = relay.attempt(env, 0)
    except RelayError as exc:
        result = exc
    print('relay reported: {0!r}'.format(result))
    gevent.sleep(0.5)
    print('edge queued {0} message(s)'.format(len(queue.got)))
    for got in queue.got:
        print('  sender={0!r} recipients={1!r} headers={2!r}'.format(
            got.sender, got.recipients, got.flatten()[0]))
    if queue.got:
        print('VIOLATION: the only message handed to the relay was refused '
              'with 552, yet the edge queued a message made of its body')
        return 1
    print('ok')
    return 0


if __name__ == '__main__':
    sys.exit(main())
