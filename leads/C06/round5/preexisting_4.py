"""Pre-existing C06 violation 4: over HTTP the relay does not report the
reply the edge gave when that reply has a multi-line (or non latin-1) text.

WsgiEdge puts the SMTP reply of a failed hand-off into the X-Smtp-Reply
response header verbatim.  SMTP replies are routinely multi-line
("550-5.1.1 ...\r\n550 5.1.1 ..."), e.g. when the edge's queue relays
synchronously and passes on what the next hop said.  A header value with
CR/LF (or a character outside latin-1) is refused by the WSGI server, the
request ends as a bare "500 Internal Server Error" and HttpRelay turns the
edge's permanent 550 into a transient "450 4.0.0 Internal Server Error":
the message is retried instead of bounced.
"""
import os
import sys
import warnings
warnings.filterwarnings('ignore')
sys.path.insert(0, os.getcwd())

import gevent
from slimta.envelope import Envelope
from slimta.edge.wsgi import WsgiEdge
from slimta.relay.http import HttpRelay
from slimta.relay import RelayError, PermanentRelayError
from slimta.smtp.reply import Reply


class RejectingQueue(object):
    """Stands for a queue/proxy whose next hop refused the message."""

    def __init__(self, reply):
        self.reply = reply

    def enqueue(self, env):
        return [(env, PermanentRelayError('rejected', self.reply))]


def hop(reply):
    devnull = open(os.devnull, 'w')
    edge = WsgiEdge(RejectingQueue(reply), hostname='edge.test')
    server = edge.build_server(('127.0.0.1', 0))
    server.log = devnull
    server.error_log = devnull
    server.start()
    relay = HttpRelay('http://127.0.0.1:{0}/'.format(server.server_port),
                      ehlo_as='client.test', timeout=5.0)
    env = Envelope('sender@example.org', ['rcpt@example.com'])
    env.parse(b'From: sender@example.org\r\nSubject: hi\r\n\r\nbody\r\n')
    try:
        with gevent.Timeout(10.0):
            result = relay.attempt(env, 0)
    except RelayError as exc:
        result = exc
    server.stop()
    return result


def main():
    sys.stderr = open(os.devnull, 'w')
    replies = [
        Reply('550', '5.1.1 No such user'),
        Reply('550', '5.1.1 The email account that you tried to reach does '
                     'not exist.\r\n5.1.1 Please try double-checking the '
                     'recipient\'s email address'),
        Reply('550', u'5.1.1 Utilisateur inconnu ☃'),
    ]
    violations = 0
    for reply in replies:
        result = hop(reply)
        reported = getattr(result, 'reply', result)
        print('edge replied {0!r}\n   relay reported {1}: {2!r}'.format(
            reply, type(result).__name__, reported))
        if getattr(reported, 'code', None) != reply.code:
            violations += 1
    if violations:
        print('VIOLATION: {0} reply code(s) of the edge were not what the '
              'relay reported'.format(violations))
        return 1
    print('ok')
    return 0


if __name__ == '__main__':
    sys.exit(main())
