"""Pre-existing C06 violation 5: a recipient the edge answers with 251 is
reported as delivered by the relay but dropped by the edge.

RFC 5321 knows two positive replies to RCPT: 250 and 251 ("User not local;
will forward to <forward-path>").  SmtpRelayClient treats every 2xx as
acceptance, but Server._command_RCPT / SmtpSession.RCPT only count a
recipient when the (validator-modifiable) reply code is exactly '250'.  With
an SmtpValidators.handle_rcpt that answers 251 the recipient is silently left
out of the queued envelope although the edge told the client it accepted it,
and the relay reports the final 250 for it.
"""
import os
import sys
import warnings
warnings.filterwarnings('ignore')
sys.path.insert(0, os.getcwd())

import gevent
from gevent import socket as gsocket
from slimta.envelope import Envelope
from slimta.edge.smtp import SmtpEdge, SmtpSession, SmtpValidators
from slimta.relay import RelayError
from slimta.relay.smtp.static import StaticSmtpRelay


class FakeQueue(object):
    def __init__(self):
        self.got = []

    def enqueue(self, env):
        self.got.append(env)
        return [(env, 'id')]


class Session(SmtpSession):
    def BANNER_(self, reply):
        pass


class Validators(SmtpValidators):
    def handle_rcpt(self, reply, recipient, params):
        if recipient.startswith('moved'):
            reply.code = '251'
            reply.message = '2.1.5 User not local; will forward'


def main():
    sys.stderr = open(os.devnull, 'w')
    queue = FakeQueue()
    edge = SmtpEdge(None, queue, session_class=Session, hostname='edge.test',
                    validator_class=Validators)

    def creator(address):
        ours, theirs = gsocket.socketpair()
        gevent.spawn(edge.handle, theirs, ('127.0.0.1', 1234))
        return ours

    relay = StaticSmtpRelay('edge.test', 25, socket_creator=creator,
                            ehlo_as='client.test', command_timeout=5.0)
    rcpts = ['local@example.com', 'moved@example.com']
    env = Envelope('sender@example.org', list(rcpts))
    env.parse(b'From: sender@example.org\r\nSubject: hi\r\n\r\nbody\r\n')
    try:
        with gevent.Timeout(20.0):
            result = relay.attempt(env, 0)
    except RelayError as exc:
        result = exc
    print('relay reported: {0!r}'.format(result))
    got = [e.recipients for e in queue.got]
    print('edge queued envelopes with recipients: {0!r}'.format(got))
    reported_ok = isinstance(result, dict) and \
        getattr(result.get('moved@example.com'), 'code', '')[:1] == '2'
    if reported_ok and got != [rcpts]:
        print('VIOLATION: moved@example.com was answered 251 and reported '
              'as delivered, but is not a recipient of the queued message')
        return 1
    print('ok')
    return 0


if __name__ == '__main__':
    sys.exit(main())
