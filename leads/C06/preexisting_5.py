r"""Pre-existing C06 violation 5: the edge's Envelope.parse() moves or rewrites
bytes around the header/body boundary for two kinds of message.

(a) A header block that contains a whitespace-only continuation line (e.g.
    b'Subject: hi\r\n \r\n').  Envelope.parse() looks for the end of the
    headers with _HEADER_BOUNDARY = rb'\r?\n\s*?\n', which also matches
    "<CRLF><SP><CRLF>", i.e. the folded, empty continuation line, so the
    split happens one line early.  The email parser keeps the continuation
    with the header, flatten() adds the real blank line again, and the body
    the edge hands on has gained a leading CRLF.  Every hop adds another one.

(b) A message with no header fields at all (header block == b'\r\n').  On the
    wire it starts with the empty line, _HEADER_BOUNDARY finds nothing (or
    only a later blank line inside the body), so the first paragraph of the
    body is run through email's parser/generator by _merge_payloads(): bare
    CR or LF become CRLF, and lstrip(b'\r\n') eats every leading blank line
    of the body, not just the separator.

Sender and recipients are fine; the body is not byte-identical.  In-memory
socket pair only.  Run from the repository root:
    /venv/bin/python SEED/preexisting_5.py
Exits 1 while the defect is present, 0 once fixed.
"""
import os
import sys
import warnings
from email.message import Message

warnings.filterwarnings('ignore')
sys.path.insert(0, os.getcwd())

import gevent  # noqa: E402
from gevent import socket as gsocket  # noqa: E402
from gevent.event import AsyncResult  # noqa: E402

from slimta.envelope import Envelope  # noqa: E402
from slimta.edge.smtp import SmtpEdge  # noqa: E402
from slimta.relay.smtp.client import SmtpRelayClient  # noqa: E402
from slimta.util.deque import BlockingDeque  # noqa: E402


class FakeQueue(object):

    def __init__(self):
        self.got = []

    def enqueue(self, env):
        self.got.append(env)
        return [(env, 'id{0}'.format(len(self.got)))]


def hop(envelope):
    queue = FakeQueue()
    edge = SmtpEdge(None, queue, hostname='edge.example')
    client_sock, server_sock = gsocket.socketpair()

    def serve():
        try:
            edge.handle(server_sock, ('127.0.0.1', 12345))
        except Exception:
            pass

    server = gevent.spawn(serve)
    requests = BlockingDeque()
    result = AsyncResult()
    requests.append((result, envelope))
    client = SmtpRelayClient(('127.0.0.1', 25), requests,
                             socket_creator=lambda addr: client_sock,
                             ehlo_as='client.example')
    client.start()
    client.join(timeout=20)
    server.join(timeout=5)
    server.kill()
    try:
        outcome = result.get(timeout=1)
    except BaseException as exc:
        outcome = exc
    return queue.got, outcome


def parsed(raw):
    env = Envelope('sender@example.com', ['rcpt@example.com'])
    env.parse(raw)
    return env


def headerless(body):
    return Envelope('sender@example.com', ['rcpt@example.com'],
                    headers=Message(), message=body)


CASES = [
    ('(a) whitespace-only continuation line in the header block',
     parsed(b'Subject: hi\r\n \r\nX-Other: 1\r\n\r\nbody\r\n')),
    ('(a) the same, tab',
     parsed(b'Subject: hi\r\n\t\r\n\r\nbody\r\n')),
    ('(b) no header fields, bare LF in the first paragraph',
     headerless(b'unix\nline\r\n')),
    ('(b) no header fields, bare CR in the first paragraph',
     headerless(b'mac\rline\r\n')),
    ('(b) no header fields, body starts with a blank line',
     headerless(b'\r\nleading blank line\r\n')),
    ('control: ordinary message',
     parsed(b'Subject: hi\r\n\r\nunix\nline\rmac\r\n\r\n\r\nend\r\n')),
]


def main():
    bad = 0
    for name, env in CASES:
        sent = env.flatten()
        received, outcome = hop(env)
        got = received[0].flatten() if len(received) == 1 else None
        same = got == sent
        print('%s %s' % ('ok ' if same else 'BAD', name))
        if not same:
            bad += 1
            print('      relay was given (headers, body): %r' % (sent,))
            print('      edge handed on  (headers, body): %r' % (got,))
    if bad:
        print('VIOLATION: %d message(s) did not arrive byte-identical' % bad)
        return 1
    print('ok')
    return 0


if __name__ == '__main__':
    sys.exit(main())
