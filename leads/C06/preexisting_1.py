"""Pre-existing C06 violation 1: HTTP relay + connection re-use.

HttpRelay(idle_timeout=...) keeps its HTTP connection open for further
messages.  The second message sent over the kept connection IS received and
acknowledged (204 / "250 2.6.0 Message accepted") by the library's own
WsgiEdge, but HttpRelayClient reports "450 4.4.2 Request-sent" (a
TransientRelayError made from http.client.ResponseNotReady), because the
previous response object was never read/closed.  So the reply the edge gave is
not the result the relay reports (and a queue would deliver the message again).

Uses only the loopback interface.  Run from the repository root:
    /venv/bin/python SEED/preexisting_1.py
Exits 1 while the defect is present, 0 once fixed.
"""
import os
import sys
import warnings

warnings.filterwarnings('ignore')
sys.path.insert(0, os.getcwd())

import gevent  # noqa: E402
from gevent.pywsgi import WSGIServer  # noqa: E402

from slimta.envelope import Envelope  # noqa: E402
from slimta.edge.wsgi import WsgiEdge  # noqa: E402
from slimta.relay.http import HttpRelay  # noqa: E402


class FakeQueue(object):

    def __init__(self):
        self.got = []

    def enqueue(self, env):
        self.got.append(env)
        return [(env, 'id{0}'.format(len(self.got)))]


def main():
    queue = FakeQueue()
    edge = WsgiEdge(queue, hostname='edge.example')
    server = WSGIServer(('127.0.0.1', 0), edge, log=None, error_log=None)
    server.start()
    relay = HttpRelay('http://127.0.0.1:{0}/'.format(server.server_port),
                      ehlo_as='client.example', timeout=10.0,
                      idle_timeout=5.0)
    reports = []
    for i in range(3):
        env = Envelope('sender{0}@example.com'.format(i),
                       ['rcpt{0}@example.com'.format(i)])
        env.parse('Subject: message {0}\r\n\r\nbody {0}\r\n'.format(i)
                  .encode('ascii'))
        try:
            reported = str(relay.attempt(env, 0))
        except Exception as exc:
            reported = '{0}: {1}'.format(type(exc).__name__,
                                         getattr(exc, 'reply', exc))
        reports.append(reported)
        gevent.sleep(0.2)  # let the edge finish what it was sent
    bad = False
    for i, reported in enumerate(reports):
        accepted = sum(1 for got in queue.got
                       if got.sender == 'sender{0}@example.com'.format(i))
        print('message {0}: edge accepted and acknowledged it {1} time(s), '
              'relay reported: {2}'.format(i, accepted, reported))
        if accepted == 1 and not reported.startswith('250'):
            bad = True
    relay.kill()
    server.stop()
    if bad:
        print('VIOLATION: the edge accepted the message (2xx) but the relay '
              'reported a failure')
        return 1
    print('ok')
    return 0


if __name__ == '__main__':
    sys.exit(main())
