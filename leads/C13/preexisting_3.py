"""Pre-existing (borderline) C13 violation: the header block embedded in a
bounce is not the header block that was received when a header line is longer
than 78 characters.  Envelope.flatten() regenerates the headers with
email.policy.SMTP, whose refold_source='long' re-folds such lines (and even
RFC 2047-encodes long unbreakable tokens), so Bounce embeds a rewritten header
block.  Lines of up to 78 characters, 8-bit header bytes and existing folding
are preserved.

Run from the repository root.  Exits 1 when the violation is present."""
import os
import sys
import warnings
warnings.filterwarnings('ignore')
sys.path.insert(0, os.getcwd())

import gevent

from slimta.queue import Queue
from slimta.queue.dict import DictStorage
from slimta.relay import Relay, PermanentRelayError
from slimta.envelope import Envelope
from slimta.smtp.reply import Reply


class RejectRelay(Relay):
    def attempt(self, envelope, attempts):
        raise PermanentRelayError('no', Reply('550', '5.1.1 No such user'))


CASES = {
    'short lines (control)':
        b'From: sender@example.com\r\nSubject: short\r\n\r\n',
    'Subject line of 120 characters':
        b'From: sender@example.com\r\nSubject: ' + b'word ' * 22 + b'end\r\n\r\n',
    'unbreakable 100-character token':
        b'From: sender@example.com\r\nX-Token: ' + b'x' * 100 + b'\r\n\r\n',
}
BODY = b'body\r\n'

bad = False
for name, header_block in CASES.items():
    bounce_store = DictStorage()
    queue = Queue(DictStorage(), RejectRelay(),
                  bounce_queue=Queue(bounce_store))
    env = Envelope('sender@example.com', ['rcpt@example.com'])
    env.parse(header_block + BODY)
    queue.enqueue(env)
    for _ in range(20):
        gevent.sleep(0)
    bounces = list(bounce_store.env_db.values())
    assert len(bounces) == 1, bounces
    data = b''.join(bounces[0].flatten())
    ok = header_block + BODY in data
    print('%s: received header block embedded unchanged: %s' % (name, ok))
    if not ok:
        bad = True
        start = data.index(b'From: sender@example.com')
        print('   received:', repr(header_block))
        print('   embedded:', repr(data[start:data.index(BODY, start)]))
if bad:
    print('VIOLATION: the bounce embeds a re-folded / re-encoded header block')
    sys.exit(1)
print('ok')
sys.exit(0)
