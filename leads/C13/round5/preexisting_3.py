"""Pre-existing C13 violation (pristine tree): a failure Reply that has a
code but no message text (``Reply('450')`` / ``Reply('550')``, message is
None, which is the constructor default) kills the greenlet that should
produce the bounce:

 * retries exhausted: Queue._retry_later() does ``reply.message += '...'``
   -> TypeError; no bounce, and the message is never removed from storage
   and stays marked active for ever;
 * permanent failure: Bounce() cannot render ``{message}`` -> AttributeError
   in the bounce greenlet; no bounce is enqueued.

Run as:  cd <repo root> && /venv/bin/python SEED/preexisting_3.py
Exits 1 when the violation is observed, 0 otherwise.
"""
import os
import sys
import warnings

warnings.simplefilter('ignore')
sys.path.insert(0, os.getcwd())

import gevent

from slimta.envelope import Envelope
from slimta.queue import Queue
from slimta.queue.dict import DictStorage
from slimta.relay import Relay, PermanentRelayError, TransientRelayError
from slimta.smtp.reply import Reply


class BareCodeRelay(Relay):

    def __init__(self, exc_type, code):
        super(BareCodeRelay, self).__init__()
        self.exc_type = exc_type
        self.code = code
        self.bounces = []

    def attempt(self, envelope, attempts):
        if envelope.sender:
            raise self.exc_type('failed', Reply(self.code))
        self.bounces.append(envelope)


def run(exc_type, code):
    relay = BareCodeRelay(exc_type, code)
    store = DictStorage()
    queue = Queue(store, relay)
    env = Envelope('sender@example.com', ['rcpt@example.org'])
    env.parse(b'From: sender\r\nSubject: hi\r\n\r\nbody\r\n')
    queue.enqueue(env)
    gevent.sleep(0.1)
    print('%s with Reply(%r): %d bounce(s), %d message(s) left in storage'
          % (exc_type.__name__, code, len(relay.bounces), len(store.env_db)))
    return len(relay.bounces) == 1 and not store.env_db


def main():
    sys.stderr = open(os.devnull, 'w')     # greenlet tracebacks
    ok1 = run(TransientRelayError, '450')
    ok2 = run(PermanentRelayError, '550')
    if not (ok1 and ok2):
        print('VIOLATION: failed mail did not yield its bounce')
        sys.exit(1)
    print('OK')
    sys.exit(0)


if __name__ == '__main__':
    main()
