"""Pre-existing C13 violation (pristine tree): on retry exhaustion the queue
appends ' (Too many retries)' IN PLACE to the Reply object it got from the
relay.  A relay that reports the same Reply object for more than one message
(a constant, a cached "upstream is down" reply, ...) gets that object
modified behind its back, so the bounce of the 2nd, 3rd, ... failed message
does not quote the reply that was given: the suffix piles up.

Run as:  cd <repo root> && /venv/bin/python SEED/preexisting_1.py
Exits 1 when the violation is observed, 0 otherwise.
"""
import os
import sys
import warnings

warnings.simplefilter('ignore')
sys.path.insert(0, os.getcwd())

import gevent

from slimta.envelope import Envelope
from slimta.queue import Queue
from slimta.queue.dict import DictStorage
from slimta.relay import Relay, TransientRelayError
from slimta.smtp.reply import Reply

UPSTREAM_DOWN = Reply('451', '4.3.0 Upstream unavailable')
GIVEN = str(UPSTREAM_DOWN)


class ConstantReplyRelay(Relay):

    def __init__(self):
        super(ConstantReplyRelay, self).__init__()
        self.bounces = []

    def attempt(self, envelope, attempts):
        if envelope.sender:
            raise TransientRelayError('upstream down', UPSTREAM_DOWN)
        self.bounces.append(envelope)


def main():
    relay = ConstantReplyRelay()
    queue = Queue(DictStorage(), relay)     # default backoff: no retries
    for i in range(3):
        env = Envelope('sender%d@example.com' % i, ['rcpt@example.org'])
        env.parse(b'From: sender\r\nSubject: hi\r\n\r\nbody\r\n')
        queue.enqueue(env)
        gevent.sleep(0.05)

    expected = (GIVEN + ' (Too many retries)').encode('ascii')
    violation = False
    print('reply given by the relay for every message: %r' % GIVEN)
    for bounce in relay.bounces:
        data = b''.join(bounce.flatten())
        line = [l for l in data.split(b'\r\n') if l.startswith(b'451 ')][0]
        ok = line == expected
        print('bounce to %s quotes: %r%s'
              % (bounce.recipients[0], line.decode('ascii'),
                 '' if ok else '   <-- not the reply that was given'))
        violation = violation or not ok
    print('relay\'s own Reply object is now: %r' % str(UPSTREAM_DOWN))
    if len(relay.bounces) != 3:
        print('expected 3 bounces, got %d' % len(relay.bounces))
        violation = True
    if violation:
        print('VIOLATION: bounce does not quote the failure reply')
        sys.exit(1)
    print('OK')
    sys.exit(0)


if __name__ == '__main__':
    main()
