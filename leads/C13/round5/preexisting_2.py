"""Pre-existing C13 violation (pristine tree): when the destination SMTP
server refuses EVERY recipient of a message, each with a different permanent
reply, the SMTP relay reports only the first RCPT reply for the whole message
and the queue enqueues a single bounce that names all recipients with that
one reply, instead of one bounce per distinct reply naming exactly the
recipients that failed with it.

Run as:  cd <repo root> && /venv/bin/python SEED/preexisting_2.py
Exits 1 when the violation is observed, 0 otherwise.
"""
import os
import sys
import warnings

warnings.simplefilter('ignore')
sys.path.insert(0, os.getcwd())

import gevent
from gevent import socket

from slimta.envelope import Envelope
from slimta.queue import Queue
from slimta.queue.dict import DictStorage
from slimta.relay.smtp.static import StaticSmtpRelay

RCPT_REPLIES = {
    b'rcpt1@example.org': b'550 5.1.1 User unknown\r\n',
    b'rcpt2@example.org': b'552 5.2.2 Mailbox full\r\n',
}
bounced = []      # messages with empty sender accepted by the fake server


def serve(sock):
    fp = sock.makefile('rb')
    sock.sendall(b'220 fake.example.org ESMTP\r\n')
    sender = None
    accepted = 0
    while True:
        line = fp.readline()
        if not line:
            break
        cmd = line.strip()
        upper = cmd.upper()
        if upper.startswith(b'EHLO'):
            sock.sendall(b'250-fake.example.org\r\n250 8BITMIME\r\n')
        elif upper.startswith(b'MAIL'):
            sender = cmd
            accepted = 0
            sock.sendall(b'250 2.1.0 Ok\r\n')
        elif upper.startswith(b'RCPT'):
            for addr, reply in RCPT_REPLIES.items():
                if addr in cmd:
                    sock.sendall(reply)
                    break
            else:
                accepted += 1
                sock.sendall(b'250 2.1.5 Ok\r\n')
        elif upper.startswith(b'DATA'):
            if not accepted:
                sock.sendall(b'554 5.5.1 No valid recipients\r\n')
                continue
            sock.sendall(b'354 Go ahead\r\n')
            data = []
            while True:
                dline = fp.readline()
                if dline in (b'.\r\n', b''):
                    break
                data.append(dline)
            if b'<>' in sender:
                bounced.append(b''.join(data))
            sock.sendall(b'250 2.0.0 Queued\r\n')
        elif upper.startswith(b'RSET'):
            sock.sendall(b'250 2.0.0 Ok\r\n')
        elif upper.startswith(b'QUIT'):
            sock.sendall(b'221 2.0.0 Bye\r\n')
            break
        else:
            sock.sendall(b'500 5.5.2 What?\r\n')
    sock.close()


def socket_creator(address):
    client_side, server_side = socket.socketpair()
    gevent.spawn(serve, server_side)
    return client_side


def main():
    relay = StaticSmtpRelay('fake.example.org', 25,
                            socket_creator=socket_creator,
                            ehlo_as='demo.example.com')
    store = DictStorage()
    queue = Queue(store, relay)
    env = Envelope('sender@example.com',
                   ['rcpt1@example.org', 'rcpt2@example.org'])
    env.parse(b'From: sender@example.com\r\nSubject: hi\r\n\r\nbody\r\n')
    queue.enqueue(env)
    for _ in range(100):
        gevent.sleep(0.01)

    print('bounces delivered to the sender: %d (expected 2, one per '
          'distinct reply)' % len(bounced))
    violation = len(bounced) != 2
    for data in bounced:
        text = data.split(b'Content-Type: message/delivery-status')[0]
        text = text.split(b'Delivery failed for:')[1]
        print('---- bounce says:')
        print(text.decode('ascii', 'replace').strip())
        for addr, reply in RCPT_REPLIES.items():
            named = addr in text
            quoted = reply.strip() in text
            if named != quoted:
                violation = True
                print('  !! %s named=%s but its reply quoted=%s'
                      % (addr.decode(), named, quoted))
    if violation:
        print('VIOLATION: recipients are reported with a reply they did '
              'not get / not one bounce per distinct reply')
        os._exit(1)
    print('OK')
    os._exit(0)


if __name__ == '__main__':
    main()
