"""Pre-existing C13 violation: with a bounded store pool, a message whose
retries are exhausted after a whole-message transient failure is never bounced
(and never leaves the storage): Queue._retry_later() runs *inside* the store
pool and then waits for another slot of the same pool.

Run from the repository root.  Exits 1 when the violation is present."""
import os
import sys
import warnings
warnings.filterwarnings('ignore')
sys.path.insert(0, os.getcwd())

import gevent

from slimta.queue import Queue
from slimta.queue.dict import DictStorage
from slimta.relay import Relay, TransientRelayError
from slimta.envelope import Envelope
from slimta.smtp.reply import Reply


class BusyRelay(Relay):
    def __init__(self):
        super(BusyRelay, self).__init__()
        self.attempts = []

    def attempt(self, envelope, attempts):
        self.attempts.append((envelope.sender, list(envelope.recipients)))
        if envelope.sender == '':
            return None  # the bounce itself is accepted
        raise TransientRelayError('busy', Reply('450', '4.2.0 Busy'))


def run(store_pool):
    store = DictStorage()
    relay = BusyRelay()
    queue = Queue(store, relay, store_pool=store_pool)  # default backoff: no retry
    env = Envelope('sender@example.com', ['rcpt@example.com'])
    env.parse(b'From: sender@example.com\r\nSubject: hi\r\n\r\nbody\r\n')
    queue.enqueue(env)
    gevent.sleep(0.5)
    bounced = ('', ['sender@example.com']) in relay.attempts
    return bounced, len(store.env_db), relay.attempts


bad = False
for store_pool in (None, 2, 1):
    bounced, left, attempts = run(store_pool)
    print('store_pool=%r: bounce delivered to the sender: %s; messages left '
          'in storage: %d; relay saw %r' % (store_pool, bounced, left, attempts))
    if not bounced or left:
        bad = True
if bad:
    print('VIOLATION: retries exhausted, but no bounce was enqueued and the '
          'failed message is stuck (store pool deadlock)')
    sys.exit(1)
print('ok')
sys.exit(0)
