"""Pre-existing C13 violation (8-bit bodies): when the SMTP relay talks to a
server without 8BITMIME, SmtpRelayClient._handle_encoding() re-encodes the
queue's own Envelope object in place *before* the SMTP transaction.  If that
transaction then fails (here: RCPT refused with 550), the bounce built by the
queue embeds the converted message (extra Content-Transfer-Encoding header,
base64 body) instead of the original header block and body.

Uses the real StaticSmtpRelay over a socketpair with a scripted fake server.
Run from the repository root.  Exits 1 when the violation is present."""
import os
import sys
import warnings
warnings.filterwarnings('ignore')
sys.path.insert(0, os.getcwd())

import gevent
from gevent import socket
from email.encoders import encode_base64

from slimta.queue import Queue
from slimta.queue.dict import DictStorage
from slimta.relay.smtp.static import StaticSmtpRelay
from slimta.envelope import Envelope


def fake_server(sock):
    f = sock.makefile('rwb', 0)

    def send(line):
        sock.sendall(line + b'\r\n')
    send(b'220 fake ESMTP')
    while True:
        line = f.readline()
        if not line:
            break
        cmd = line.strip().upper()
        if cmd.startswith(b'EHLO'):
            send(b'250-fake')
            send(b'250 PIPELINING')  # no 8BITMIME
        elif cmd.startswith(b'MAIL'):
            send(b'250 2.1.0 ok')
        elif cmd.startswith(b'RCPT'):
            send(b'550 5.1.1 No such user')
        elif cmd.startswith(b'DATA'):
            send(b'503 5.5.1 no valid recipients')
        elif cmd.startswith(b'RSET'):
            send(b'250 2.0.0 ok')
        elif cmd.startswith(b'QUIT'):
            send(b'221 2.0.0 bye')
            break
        else:
            send(b'500 5.5.2 what')
    sock.close()


def creator(address):
    a, b = socket.socketpair()
    gevent.spawn(fake_server, b)
    return a


relay = StaticSmtpRelay('fake.example.com', 25, socket_creator=creator,
                        binary_encoder=encode_base64, ehlo_as='client')
bounce_store = DictStorage()
bounce_queue = Queue(bounce_store)  # no relay: bounces are only stored
store = DictStorage()
queue = Queue(store, relay, bounce_queue=bounce_queue)

env = Envelope('sender@example.com', ['rcpt@example.com'])
env.parse(b'From: sender@example.com\r\n'
          b'Subject: hi\r\n'
          b'Content-Type: text/plain; charset=iso-8859-1\r\n'
          b'\r\n'
          b'caf\xe9 au lait\r\n')
orig_headers, orig_body = env.flatten()
queue.enqueue(env)
for _ in range(100):
    gevent.sleep(0.01)
    if bounce_store.env_db:
        break

bounces = list(bounce_store.env_db.values())
print('bounces enqueued:', len(bounces))
if len(bounces) != 1:
    print('unexpected number of bounces')
    sys.exit(2)
data = b''.join(bounces[0].flatten())
embedded = data[data.index(b'Content-Type: message/rfc822'):]
print('--- original message ---')
print(repr(orig_headers + orig_body))
print('--- embedded in the bounce ---')
print(repr(embedded))
if orig_headers + orig_body not in data:
    print('VIOLATION: the bounce does not embed the original header block '
          'and 8-bit body unchanged (it embeds the 7-bit conversion made for '
          'the failed delivery attempt)')
    sys.exit(1)
print('ok')
sys.exit(0)
