"""Pre-existing C12 violation 4: after a per-recipient (dict) relay result in
which no recipient failed transiently, the message id is never taken out of
Queue.active_ids.  With a storage that hands a freed id out again, the next
message that gets this id is neither attempted nor scheduled: forgotten.

Run as:  cd <repo root> && /venv/bin/python SEED/preexisting_4.py
"""
import os
import sys
sys.path.insert(0, os.getcwd())

import gevent
from slimta.queue import Queue
from slimta.queue.dict import DictStorage
from slimta.relay import Relay
from slimta.envelope import Envelope


class SlotStorage(DictStorage):
    """Ids are slot names; a slot is free again once its message is removed
    (ids are still unique among the messages in the queue)."""

    def write(self, envelope, timestamp):
        n = 0
        while 'slot-%d' % n in self.env_db:
            n += 1
        id = 'slot-%d' % n
        self.env_db[id] = envelope
        self.meta_db[id] = {'timestamp': timestamp, 'attempts': 0}
        return id


class PerRcptRelay(Relay):
    def __init__(self):
        super(PerRcptRelay, self).__init__()
        self.attempts = []

    def attempt(self, envelope, attempts):
        self.attempts.append(list(envelope.recipients))
        return dict((rcpt, None) for rcpt in envelope.recipients)


def main():
    store = SlotStorage()
    relay = PerRcptRelay()
    queue = Queue(store, relay, backoff=lambda envelope, attempts: 0)
    queue.start()
    res1 = queue.enqueue(Envelope('s@example.com', ['one@example.com']))
    gevent.sleep(0.2)
    res2 = queue.enqueue(Envelope('s@example.com', ['two@example.com']))
    gevent.sleep(0.5)
    queue.flush()
    gevent.sleep(0.5)
    print('ids: %r %r' % (res1[0][1], res2[0][1]))
    print('attempts: %r' % (relay.attempts, ))
    print('still stored: %r, scheduled: %r, active: %r'
          % (sorted(store.env_db), queue.queued, sorted(queue.active_ids)))
    queue.kill()
    if ['two@example.com'] not in relay.attempts:
        print('VIOLATION: the second message is stored but was never '
              'attempted and is not scheduled (not even flush() sends it)')
        return 1
    print('OK')
    return 0


if __name__ == '__main__':
    sys.exit(main())
