"""Pre-existing C12 violation 1: with a bounded store pool AND a bounded relay
pool the queue deadlocks; due messages are never attempted.

Run as:  cd <repo root> && /venv/bin/python SEED/preexisting_1.py
"""
import os
import sys
import time
sys.path.insert(0, os.getcwd())

import gevent
from slimta.queue import Queue
from slimta.queue.dict import DictStorage
from slimta.relay import Relay
from slimta.envelope import Envelope


class SlowRelay(Relay):
    def __init__(self):
        super(SlowRelay, self).__init__()
        self.attempts = []

    def attempt(self, envelope, attempts):
        self.attempts.append(envelope.recipients[0])
        gevent.sleep(0.05)      # every delivery succeeds after 50 ms


def main():
    store = DictStorage()
    now = time.time()
    for i in range(3):
        store.write(Envelope('s@example.com', ['r%d@example.com' % i]),
                    now - 10)   # all three are overdue
    relay = SlowRelay()
    queue = Queue(store, relay, store_pool=1, relay_pool=1)
    queue.start()
    gevent.sleep(3.0)           # 3 deliveries of 50 ms each: plenty of time
    print('attempted: %r' % (relay.attempts, ))
    print('still stored: %d, store pool busy: %d, relay pool busy: %d'
          % (store.get_info()['size'], len(queue.store_pool),
             len(queue.relay_pool)))
    if len(relay.attempts) != 3 or store.get_info()['size'] != 0:
        print('VIOLATION: overdue messages were never attempted: the relay '
              'greenlet waits for a store-pool slot (to remove its message) '
              'while the only store-pool slot is held by a _dequeue() that '
              'waits for a relay-pool slot')
        return 1
    print('OK')
    return 0


if __name__ == '__main__':
    sys.exit(main())
