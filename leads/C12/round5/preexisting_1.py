"""Pre-existing C12 violation 1: with BOTH pools bounded, the queue deadlocks
and every stored message is forgotten.

Schedule (store_pool=1, relay_pool=1):
  * message A is being attempted (holds the only relay_pool slot, the relay
    takes 0.3s);
  * message B, already in storage and due, is dispatched by the scheduler:
    _dequeue(B) runs in the only store_pool slot, fetches B and then calls
    _pool_spawn('relay', ...) which blocks because the relay pool is full;
  * A's attempt finishes and needs the store pool (_remove() on success,
    _retry_later() on a transient failure) -> _pool_spawn('store', ...) blocks
    because _dequeue(B) still sits in the store pool.
Each greenlet holds the slot the other one is waiting for: nothing is ever
attempted again (A is never removed, B never attempted, later messages pile up
behind them, flush() blocks as well).
"""
import os
import sys
import time

sys.path.insert(0, os.getcwd())

import gevent

from slimta.queue import Queue
from slimta.queue.dict import DictStorage
from slimta.relay import Relay
from slimta.envelope import Envelope


class SlowRelay(Relay):

    def __init__(self):
        super(SlowRelay, self).__init__()
        self.attempted = []

    def attempt(self, envelope, attempts):
        self.attempted.append(envelope.sender)
        gevent.sleep(0.3)
        return None


def main():
    store = DictStorage()
    relay = SlowRelay()
    # B is already in the storage (e.g. left over from an earlier run), due
    # 0.1s from now.
    b_id = store.write(Envelope('b@example.com', ['rcpt@example.com']),
                       time.time() + 0.1)
    queue = Queue(store, relay, store_pool=1, relay_pool=1)
    queue.start()
    gevent.sleep(0.02)
    queue.enqueue(Envelope('a@example.com', ['rcpt@example.com']))

    gevent.sleep(3.0)
    print('attempted so far     :', relay.attempted)
    print('still in storage     :', sorted(store.env_db))
    print('active_ids           :', sorted(queue.active_ids))
    print('store pool free slots:', queue.store_pool.free_count(),
          ' relay pool free slots:', queue.relay_pool.free_count())
    ok = True
    if 'b@example.com' not in relay.attempted:
        print('VIOLATION: message B (%s) was due 2.9s ago and has not been '
              'attempted; both pools are exhausted by greenlets waiting for '
              'each other' % b_id)
        ok = False
    if store.env_db:
        print('VIOLATION: delivered/undelivered messages are stuck in '
              'storage: %r' % sorted(store.env_db))
        ok = False
    if ok:
        print('OK: both messages were attempted and removed')
        return 0
    return 1


if __name__ == '__main__':
    sys.exit(main())
