"""Pre-existing C12 violation 5: flush() interrupted while it waits for a slot
of a bounded store pool loses the rest of the timetable.

Queue.flush() first swaps the whole timetable out (`waiting, self.queued =
self.queued, []`) and then spawns one _dequeue per entry.  With a bounded,
busy store pool _pool_spawn() blocks; if the caller of flush() is interrupted
there (gevent.Timeout around the call, the calling greenlet being killed, e.g.
an admin/HTTP handler with a deadline), the entries not yet spawned are gone
from the timetable while their ids stay in queued_ids: they are never
attempted again and new announcements of them are ignored.  (_check_ready()
removes entries one at a time and does not have this problem.)
"""
import os
import sys
import time

sys.path.insert(0, os.getcwd())

import gevent

from slimta.queue import Queue
from slimta.queue.dict import DictStorage
from slimta.relay import Relay
from slimta.envelope import Envelope


class SlowGetStorage(DictStorage):

    def get(self, id):
        gevent.sleep(0.3)
        return super(SlowGetStorage, self).get(id)


class RecordingRelay(Relay):

    def __init__(self):
        super(RecordingRelay, self).__init__()
        self.attempted = []

    def attempt(self, envelope, attempts):
        self.attempted.append(envelope.sender)


def main():
    store = SlowGetStorage()
    relay = RecordingRelay()
    due = time.time() + 2.0
    ids = [store.write(Envelope('m%d@example.com' % i, ['rcpt@example.com']),
                       due) for i in range(4)]
    queue = Queue(store, relay, store_pool=1)
    queue.start()
    gevent.sleep(0.1)
    assert len(queue.queued) == 4
    try:
        with gevent.Timeout(0.1):
            queue.flush()
    except gevent.Timeout:
        print('flush() interrupted after 0.1s while waiting for the store pool')
    gevent.sleep(4.0)   # well past the regular due time of all four
    missing = [i for i in ids if i in store.env_db]
    print('attempted:', sorted(relay.attempted))
    print('timetable:', queue.queued, ' queued_ids:', len(queue.queued_ids))
    if missing:
        print('VIOLATION: %d stored messages were dropped from the timetable '
              'by the interrupted flush(); they were not attempted at their '
              'regular due time either and their ids are stuck in queued_ids'
              % len(missing))
        return 1
    print('OK')
    return 0


if __name__ == '__main__':
    sys.exit(main())
