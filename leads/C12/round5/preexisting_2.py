"""Pre-existing C12 violation 2: a message is attempted LATE (not "once its due
time has passed") because the scheduler sleeps with a stale clock reading.

Queue._run() reads `now` once, calls _check_ready(now) -- which can block for
a long time in _pool_spawn() when the store pool is bounded and busy -- and
then calls _wait_ready(now) with the SAME, by now outdated, value.
_wait_ready() sleeps `first_timestamp - now` seconds counted from the moment it
is called, so the next message is dispatched late by exactly the time
_check_ready() was blocked, although the pools are idle again at its due time.

Schedule (store_pool=1, unbounded relay pool), storage loaded at start-up:
  A due now, store.get(A) takes 0.5s      (occupies the only store slot)
  B due now                               (scheduler blocks 0.5s spawning it)
  C due at t0+0.7s                        (store pool idle again from t0+0.5s)
Expected: C attempted at about t0+0.7s.  Observed: about t0+1.2s.
"""
import os
import sys
import time

sys.path.insert(0, os.getcwd())

import gevent

from slimta.queue import Queue
from slimta.queue.dict import DictStorage
from slimta.relay import Relay
from slimta.envelope import Envelope


class SlowGetStorage(DictStorage):

    slow_id = None

    def get(self, id):
        if id == self.slow_id:
            gevent.sleep(0.5)
        return super(SlowGetStorage, self).get(id)


class RecordingRelay(Relay):

    def __init__(self):
        super(RecordingRelay, self).__init__()
        self.times = {}

    def attempt(self, envelope, attempts):
        self.times[envelope.sender] = time.time()
        return None


def main():
    store = SlowGetStorage()
    relay = RecordingRelay()
    t0 = time.time()
    # Timestamps chosen so that the timetable order is A, B, C.
    a = store.write(Envelope('a@example.com', ['rcpt@example.com']), t0 - 2)
    store.write(Envelope('b@example.com', ['rcpt@example.com']), t0 - 1)
    c_due = t0 + 0.7
    store.write(Envelope('c@example.com', ['rcpt@example.com']), c_due)
    store.slow_id = a

    queue = Queue(store, relay, store_pool=1)
    queue.start()
    gevent.sleep(3.0)

    for sender in ('a@example.com', 'b@example.com', 'c@example.com'):
        when = relay.times.get(sender)
        print('%s attempted at t0+%s' % (
            sender, 'never' if when is None else '%.3f' % (when - t0)))
    print('c was due at t0+%.3f' % (c_due - t0))
    c_time = relay.times.get('c@example.com')
    if c_time is None:
        print('VIOLATION: C never attempted')
        return 1
    if c_time < c_due:
        print('VIOLATION: C attempted early')
        return 1
    late = c_time - c_due
    if late > 0.25:
        print('VIOLATION: C was attempted %.3fs after its due time although '
              'the store pool was idle from t0+0.5s on (the scheduler slept '
              'with the clock value read before _check_ready() blocked)'
              % late)
        return 1
    print('OK: C attempted %.3fs after its due time' % late)
    return 0


if __name__ == '__main__':
    sys.exit(main())
