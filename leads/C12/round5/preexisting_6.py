"""Pre-existing C12 violation 6: enqueue() of a message that a policy split in
several envelopes forgets the envelopes written after one whose store.write()
raised a non-QueueError exception.

enqueue() first writes ALL envelopes, then walks over the results and
re-raises the first exception that is not a QueueError.  Envelopes later in the
list were written successfully (the queue knows their ids) but are neither
marked active/attempted nor put on the timetable; they sit in storage until the
process is restarted and load() finds them.
"""
import os
import sys

sys.path.insert(0, os.getcwd())

import gevent

from slimta.queue import Queue
from slimta.queue.dict import DictStorage
from slimta.relay import Relay
from slimta.policy import QueuePolicy
from slimta.envelope import Envelope


class Split(QueuePolicy):

    def apply(self, envelope):
        return [envelope.copy([rcpt]) for rcpt in envelope.recipients]


class FlakyWriteStorage(DictStorage):

    def write(self, envelope, timestamp):
        if envelope.recipients == ['two@example.com']:
            raise IOError('disk full')
        return super(FlakyWriteStorage, self).write(envelope, timestamp)


class RecordingRelay(Relay):

    def __init__(self):
        super(RecordingRelay, self).__init__()
        self.attempted = []

    def attempt(self, envelope, attempts):
        self.attempted.extend(envelope.recipients)


def main():
    store = FlakyWriteStorage()
    relay = RecordingRelay()
    queue = Queue(store, relay)
    queue.add_policy(Split())
    queue.start()
    gevent.sleep(0.02)
    try:
        queue.enqueue(Envelope('sender@example.com', [
            'one@example.com', 'two@example.com', 'three@example.com']))
    except IOError as exc:
        print('enqueue() raised', repr(exc))
    gevent.sleep(1.0)
    queue.flush()
    gevent.sleep(0.2)
    stuck = [(id, env.recipients) for id, env in store.env_db.items()]
    print('attempted:', relay.attempted)
    print('left in storage:', stuck)
    print('timetable:', queue.queued, ' active_ids:', sorted(queue.active_ids))
    forgotten = [id for id, _ in stuck
                 if id not in queue.active_ids
                 and id not in [e[1] for e in queue.queued]]
    if forgotten:
        print('VIOLATION: stored message(s) %r written by enqueue() are '
              'neither in flight nor scheduled' % forgotten)
        return 1
    print('OK')
    return 0


if __name__ == '__main__':
    sys.exit(main())
