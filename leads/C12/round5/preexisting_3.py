"""Pre-existing C12 violation 3: a storage error in store.get() makes the
queue forget a due message.

Queue._dequeue() only expects KeyError from store.get().  Any other exception
(QueueError, IOError from a disk / network backed storage, ...) kills the
_dequeue greenlet; its `finally` removes the id from queued_ids, the timetable
entry was already removed by _check_ready()/flush(), and nothing re-schedules
the message: it stays in storage, is neither in flight nor scheduled, and is
only seen again after a restart.  The same happens when flush() dispatches it.
"""
import os
import sys
import time

sys.path.insert(0, os.getcwd())

import gevent

from slimta.queue import Queue
from slimta.queue.dict import DictStorage
from slimta.relay import Relay
from slimta.envelope import Envelope


class FlakyGetStorage(DictStorage):

    failures = 1

    def get(self, id):
        if self.failures:
            self.failures -= 1
            raise IOError('storage temporarily unavailable')
        return super(FlakyGetStorage, self).get(id)


class RecordingRelay(Relay):

    def __init__(self):
        super(RecordingRelay, self).__init__()
        self.attempted = []

    def attempt(self, envelope, attempts):
        self.attempted.append(envelope.sender)


def main():
    sys.stderr = open(os.devnull, 'w')  # hide the greenlet traceback
    store = FlakyGetStorage()
    relay = RecordingRelay()
    id = store.write(Envelope('a@example.com', ['rcpt@example.com']),
                     time.time() + 0.1)
    queue = Queue(store, relay)
    queue.start()
    gevent.sleep(1.5)
    queue.flush()
    gevent.sleep(0.5)
    scheduled = [e for e in queue.queued if e[1] == id]
    print('in storage:', id in store.env_db, ' attempted:', relay.attempted,
          ' scheduled:', scheduled, ' in queued_ids:', id in queue.queued_ids,
          ' in active_ids:', id in queue.active_ids)
    if id in store.env_db and not relay.attempted and not scheduled \
            and id not in queue.active_ids:
        print('VIOLATION: after one failed store.get() the stored message is '
              'neither in flight nor scheduled, and not even flush() '
              'attempts it')
        return 1
    print('OK')
    return 0


if __name__ == '__main__':
    sys.exit(main())
