"""Pre-existing C12 violation 4: a storage error while re-queueing a message
after a transient delivery failure leaves it marked active forever.

Queue._retry_later() calls store.increment_attempts() / store.set_timestamp()
without any error handling.  If one of them raises (IOError, QueueError, ...)
the greenlet dies before `active_ids.discard(id)` and `_add_queued()`: the
message stays in storage, no greenlet works on it, it is not on the timetable,
and because its id is still in active_ids every later announcement of it and
flush() are ignored as well.
"""
import os
import sys
import time

sys.path.insert(0, os.getcwd())

import gevent

from slimta.queue import Queue
from slimta.queue.dict import DictStorage
from slimta.relay import Relay, TransientRelayError
from slimta.smtp.reply import Reply
from slimta.envelope import Envelope


class FlakyStorage(DictStorage):

    failures = 1

    def set_timestamp(self, id, timestamp):
        if self.failures:
            self.failures -= 1
            raise IOError('storage temporarily unavailable')
        return super(FlakyStorage, self).set_timestamp(id, timestamp)


class FailingRelay(Relay):

    def __init__(self):
        super(FailingRelay, self).__init__()
        self.attempts = 0

    def attempt(self, envelope, attempts):
        self.attempts += 1
        raise TransientRelayError('later', Reply('450', 'later'))


def main():
    sys.stderr = open(os.devnull, 'w')  # hide the greenlet traceback
    store = FlakyStorage()
    relay = FailingRelay()
    queue = Queue(store, relay, backoff=lambda env, attempts: 0.2)
    queue.start()
    gevent.sleep(0.02)
    (env, id), = queue.enqueue(Envelope('a@example.com',
                                        ['rcpt@example.com']))
    gevent.sleep(1.5)
    before_flush = relay.attempts
    queue.flush()
    queue._add_queued((time.time(), id))   # what a wait()/load() would do
    gevent.sleep(0.5)
    scheduled = [e for e in queue.queued if e[1] == id]
    print('in storage:', id in store.env_db, ' relay attempts:',
          relay.attempts, '(before flush: %d)' % before_flush,
          ' scheduled:', scheduled, ' in active_ids:', id in queue.active_ids)
    if id in store.env_db and relay.attempts == 1 and not scheduled:
        print('VIOLATION: backoff asked for a retry after 0.2s; 2s later the '
              'message was attempted only once, is not scheduled, and flush() '
              'and a fresh announcement are ignored because the id is stuck '
              'in active_ids')
        return 1
    print('OK')
    return 0


if __name__ == '__main__':
    sys.exit(main())
