"""Pre-existing C12 violation 2: a message whose id is announced by the
storage's wait() mechanism (or reported by a concurrent load) right after
enqueue() wrote it is attempted a second time long before the time chosen by
the backoff policy, when its first attempt fails while the announced copy is
still being fetched from storage.

Run as:  cd <repo root> && /venv/bin/python SEED/preexisting_2.py
"""
import os
import sys
import time
sys.path.insert(0, os.getcwd())

import gevent
from gevent.queue import Queue as GeventQueue
from slimta.queue import Queue
from slimta.queue.dict import DictStorage
from slimta.relay import Relay, TransientRelayError
from slimta.envelope import Envelope

BACKOFF = 3600.0


class AnnouncingStorage(DictStorage):
    """Like RedisStorage: every write() is announced through wait(), also to
    the process that wrote the message; get() is a (slow) round-trip."""

    def __init__(self):
        super(AnnouncingStorage, self).__init__()
        self.announcements = GeventQueue()

    def write(self, envelope, timestamp):
        id = super(AnnouncingStorage, self).write(envelope, timestamp)
        self.announcements.put((timestamp, id))
        return id

    def get(self, id):
        gevent.sleep(0.2)
        return super(AnnouncingStorage, self).get(id)

    def wait(self):
        return [self.announcements.get()]


class FailingRelay(Relay):
    def __init__(self):
        super(FailingRelay, self).__init__()
        self.attempts = []

    def attempt(self, envelope, attempts):
        self.attempts.append(time.time())
        raise TransientRelayError('try again later')


def main():
    store = AnnouncingStorage()
    relay = FailingRelay()
    queue = Queue(store, relay, backoff=lambda envelope, attempts: BACKOFF)
    queue.start()
    gevent.sleep(0.05)
    t0 = time.time()
    queue.enqueue(Envelope('s@example.com', ['r@example.com']))
    gevent.sleep(1.0)
    queue.kill()
    print('attempts at (s after enqueue): %r'
          % ([round(t - t0, 3) for t in relay.attempts], ))
    if len(relay.attempts) > 1:
        print('VIOLATION: the backoff policy chose %.0f s, but the message '
              'was attempted again after %.3f s'
              % (BACKOFF, relay.attempts[1] - relay.attempts[0]))
        return 1
    print('OK')
    return 0


if __name__ == '__main__':
    sys.exit(main())
