"""Pre-existing C12 violation 3: after the scheduler loop was blocked on a
full (bounded) store pool, it sleeps for `due - <time before it blocked>`
instead of `due - <current time>`; the next message is attempted late by the
time spent blocked although both pools are idle when it becomes due.

Run as:  cd <repo root> && /venv/bin/python SEED/preexisting_3.py
"""
import os
import sys
import time
sys.path.insert(0, os.getcwd())

import gevent
from slimta.queue import Queue
from slimta.queue.dict import DictStorage
from slimta.relay import Relay
from slimta.envelope import Envelope


class Storage(DictStorage):
    slow_id = None

    def get(self, id):
        if id == self.slow_id:
            gevent.sleep(0.6)
        return super(Storage, self).get(id)


class RecordingRelay(Relay):
    def __init__(self):
        super(RecordingRelay, self).__init__()
        self.attempts = {}

    def attempt(self, envelope, attempts):
        self.attempts[envelope.recipients[0]] = time.time()


def main():
    store = Storage()
    relay = RecordingRelay()
    t0 = time.time()
    # a and a2 are overdue; fetching a takes 0.6 s and fills the store pool,
    # so the scheduler blocks (until t0+0.6) when it dispatches a2.
    store.slow_id = store.write(
        Envelope('s@example.com', ['a@example.com']), t0 - 20)
    store.write(Envelope('s@example.com', ['a2@example.com']), t0 - 10)
    # b is due at t0+0.8, when everything is idle again.
    due = t0 + 0.8
    store.write(Envelope('s@example.com', ['b@example.com']), due)
    queue = Queue(store, relay, store_pool=1)
    queue.start()
    gevent.sleep(2.5)
    queue.kill()
    print('attempt times relative to start: %r'
          % ({k: round(v - t0, 3) for k, v in relay.attempts.items()}, ))
    late = relay.attempts.get('b@example.com', float('inf')) - due
    print('b was due at 0.8, attempted %.3f s after that' % late)
    if late > 0.3:
        print('VIOLATION: b was not attempted when due (pools were idle from '
              '0.6 on); _wait_ready() used the stale `now` of _run()')
        return 1
    print('OK')
    return 0


if __name__ == '__main__':
    sys.exit(main())
