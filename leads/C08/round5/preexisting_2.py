# -*- coding: utf-8 -*-
"""Pre-existing C08 violation 2: what the server learned in clear text before
STARTTLS survives the handshake. A session that authenticated before STARTTLS
(possible with a mechanism that is allowed without TLS, e.g. CRAM-MD5) is
still "authenticated" afterwards: Server.authed stays True, a new AUTH inside
the TLS session is refused with 503, and SmtpEdge stamps the message received
over TLS with the pre-TLS identity (and with "ESMTP" although only HELO was
sent after the handshake).

Run from the repository root: /venv/bin/python SEED/preexisting_2.py
Exits 1 while the violation is present, 0 once it is fixed.
"""
import os
import sys
import ssl
import base64
import datetime
import tempfile

sys.path.insert(0, os.getcwd())

import gevent
from gevent import socket
from gevent.ssl import SSLContext

from slimta.smtp.server import Server
from slimta.edge.smtp import SmtpSession, SmtpValidators


def make_contexts(tmpdir):
    from cryptography import x509
    from cryptography.x509.oid import NameOID
    from cryptography.hazmat.primitives import hashes, serialization
    from cryptography.hazmat.primitives.asymmetric import ec
    key = ec.generate_private_key(ec.SECP256R1())
    name = x509.Name([x509.NameAttribute(NameOID.COMMON_NAME, u'localhost')])
    now = datetime.datetime(2020, 1, 1)
    cert = (x509.CertificateBuilder().subject_name(name).issuer_name(name)
            .public_key(key.public_key()).serial_number(1000)
            .not_valid_before(now)
            .not_valid_after(now + datetime.timedelta(days=36500))
            .sign(key, hashes.SHA256()))
    certfile = os.path.join(tmpdir, 'cert.pem')
    keyfile = os.path.join(tmpdir, 'key.pem')
    with open(certfile, 'wb') as f:
        f.write(cert.public_bytes(serialization.Encoding.PEM))
    with open(keyfile, 'wb') as f:
        f.write(key.private_bytes(
            serialization.Encoding.PEM,
            serialization.PrivateFormat.TraditionalOpenSSL,
            serialization.NoEncryption()))
    server_ctx = SSLContext(ssl.PROTOCOL_TLS_SERVER)
    server_ctx.load_cert_chain(certfile, keyfile)
    client_ctx = SSLContext(ssl.PROTOCOL_TLS_CLIENT)
    client_ctx.check_hostname = False
    client_ctx.verify_mode = ssl.CERT_NONE
    return server_ctx, client_ctx


class Peer(object):
    def __init__(self, sock):
        self.sock = sock
        self.buf = b''

    def reply(self):
        while True:
            while b'\n' not in self.buf:
                data = self.sock.recv(4096)
                if not data:
                    raise EOFError()
                self.buf += data
            line, self.buf = self.buf.split(b'\n', 1)
            if line[3:4] != b'-':
                return line.rstrip(b'\r').decode('ascii', 'replace')

    def cmd(self, line):
        self.sock.sendall(line + b'\r\n')
        return self.reply()



def main():
    server_ctx, client_ctx = make_contexts(tempfile.mkdtemp(prefix='c08pre'))
    b64 = base64.b64encode
    envelopes = []

    def handoff(envelope):
        envelopes.append(envelope)
        return [(envelope, 'queue-id')]

    a, b = socket.socketpair()
    session = SmtpSession(('192.0.2.1', 1234), SmtpValidators, handoff)
    session.BANNER_ = lambda reply: None   # no PTR lookup, no network
    server = Server(a, session, ('192.0.2.1', 1234),
                    auth=[b'PLAIN', b'CRAM-MD5'], context=server_ctx,
                    command_timeout=5.0)

    def serve():
        try:
            server.handle()
        except Exception:
            pass
    g = gevent.spawn(serve)

    problems = []
    with gevent.Timeout(20):
        peer = Peer(b)
        peer.reply()
        peer.cmd(b'EHLO cleartext.example')
        assert peer.cmd(b'AUTH CRAM-MD5').startswith('334')
        # SmtpValidators accepts everything, as a permissive application does
        r = peer.cmd(b64(b'mallory 00112233445566778899aabbccddeeff'))
        print('clear text: AUTH CRAM-MD5 ->', r)
        assert r.startswith('235')
        r = peer.cmd(b'STARTTLS')
        assert r.startswith('220'), r
        tls = client_ctx.wrap_socket(b, server_hostname='x')
        peer = Peer(tls)
        r = peer.cmd(b'NOOP')   # makes sure the server finished STARTTLS
        print('after the handshake: server.authed=%r session.auth=%r '
              'ehlo_as=%r STARTTLS offered=%r'
              % (server.authed, session.auth, server.ehlo_as,
                 'STARTTLS' in server.extensions))
        if server.authed:
            problems.append('Server.authed is still True after STARTTLS')
        r = peer.cmd(b'EHLO tls.example')
        r = peer.cmd(b'AUTH PLAIN ' + b64(b'\0alice\0secret'))
        print('inside TLS: AUTH PLAIN ->', r)
        if not r.startswith('235'):
            problems.append('AUTH inside the TLS session answered %r: the '
                            'pre-TLS authentication still counts' % r)
        peer.cmd(b'HELO tls.example')
        peer.cmd(b'MAIL FROM:<sender@example.com>')
        peer.cmd(b'RCPT TO:<rcpt@example.com>')
        peer.cmd(b'DATA')
        tls.sendall(b'Subject: test\r\n\r\nbody\r\n.\r\n')
        peer.reply()
        peer.cmd(b'QUIT')
    g.join(2)
    g.kill()
    client = envelopes[0].client
    print('message received over TLS after a plain HELO is stamped:', client)
    if client.get('auth') and client['auth'][0] == 'mallory':
        problems.append('message stamped with the pre-TLS identity %r'
                        % (client['auth'],))
    if problems:
        print('VIOLATION:')
        for p in problems:
            print('  - ' + p)
        sys.exit(1)
    print('ok: nothing crossed the STARTTLS boundary')
    sys.exit(0)


if __name__ == '__main__':
    main()
