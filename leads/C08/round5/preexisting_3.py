# -*- coding: utf-8 -*-
"""Pre-existing C08 violation 3 (depends on reading XOAUTH2 as a plain-text
mechanism, which it is on the wire): an XOAUTH2 bearer token is accepted on an
unencrypted session. AuthSession.server_attempt() only treats PLAIN and LOGIN
as insecure; XOAUTH2 carries a replayable secret in base64 just like PLAIN.

Run from the repository root: /venv/bin/python SEED/preexisting_3.py
Exits 1 while the violation is present, 0 once it is fixed.
"""
import os
import sys
import base64

sys.path.insert(0, os.getcwd())

import gevent
from gevent import socket

from slimta.smtp.server import Server


class Handlers(object):
    def __init__(self):
        self.shown = []

    def AUTH(self, reply, creds):
        self.shown.append(creds)


class Peer(object):
    def __init__(self, sock):
        self.sock = sock
        self.buf = b''

    def reply(self):
        while True:
            while b'\n' not in self.buf:
                data = self.sock.recv(4096)
                if not data:
                    raise EOFError()
                self.buf += data
            line, self.buf = self.buf.split(b'\n', 1)
            if line[3:4] != b'-':
                return line.rstrip(b'\r').decode('ascii', 'replace')

    def cmd(self, line):
        self.sock.sendall(line + b'\r\n')
        return self.reply()



def main():
    a, b = socket.socketpair()
    handlers = Handlers()
    server = Server(a, handlers, ('peer', 0),
                    auth=[b'PLAIN', b'LOGIN', b'XOAUTH2'],
                    command_timeout=5.0)

    def serve():
        try:
            server.handle()
        except Exception:
            pass
    g = gevent.spawn(serve)
    token = b'user=alice@example.com\x01auth=Bearer ya29.SECRET-TOKEN\x01\x01'
    with gevent.Timeout(10):
        peer = Peer(b)
        peer.reply()
        peer.cmd(b'EHLO client.example')
        assert not server.encrypted
        r_plain = peer.cmd(b'AUTH PLAIN ' + base64.b64encode(b'\0u\0p'))
        r_login = peer.cmd(b'AUTH LOGIN')
        r_oauth = peer.cmd(b'AUTH XOAUTH2 ' + base64.b64encode(token))
        peer.cmd(b'QUIT')
    g.join(2)
    g.kill()
    print('unencrypted session:')
    print('  AUTH PLAIN   ->', r_plain)
    print('  AUTH LOGIN   ->', r_login)
    print('  AUTH XOAUTH2 ->', r_oauth)
    print('  application was shown %d credential object(s), authed=%r'
          % (len(handlers.shown), server.authed))
    if r_oauth.startswith('235') or handlers.shown or server.authed:
        print('VIOLATION: a bearer token sent in clear text was accepted')
        sys.exit(1)
    print('ok')
    sys.exit(0)


if __name__ == '__main__':
    main()
