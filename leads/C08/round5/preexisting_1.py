# -*- coding: utf-8 -*-
"""Pre-existing C08 violation 1: undecodable base64 in an AUTH exchange is not
answered with an error reply; the server silently drops the offending bytes
and shows the application credentials the client never sent.

Run from the repository root: /venv/bin/python SEED/preexisting_1.py
Exits 1 while the violation is present, 0 once it is fixed.
"""
import os
import sys
import ssl
import base64
import datetime
import tempfile

sys.path.insert(0, os.getcwd())

import gevent
from gevent import socket
from gevent.ssl import SSLContext

from slimta.smtp.server import Server


def make_contexts(tmpdir):
    from cryptography import x509
    from cryptography.x509.oid import NameOID
    from cryptography.hazmat.primitives import hashes, serialization
    from cryptography.hazmat.primitives.asymmetric import ec
    key = ec.generate_private_key(ec.SECP256R1())
    name = x509.Name([x509.NameAttribute(NameOID.COMMON_NAME, u'localhost')])
    now = datetime.datetime(2020, 1, 1)
    cert = (x509.CertificateBuilder().subject_name(name).issuer_name(name)
            .public_key(key.public_key()).serial_number(1000)
            .not_valid_before(now)
            .not_valid_after(now + datetime.timedelta(days=36500))
            .sign(key, hashes.SHA256()))
    certfile = os.path.join(tmpdir, 'cert.pem')
    keyfile = os.path.join(tmpdir, 'key.pem')
    with open(certfile, 'wb') as f:
        f.write(cert.public_bytes(serialization.Encoding.PEM))
    with open(keyfile, 'wb') as f:
        f.write(key.private_bytes(
            serialization.Encoding.PEM,
            serialization.PrivateFormat.TraditionalOpenSSL,
            serialization.NoEncryption()))
    server_ctx = SSLContext(ssl.PROTOCOL_TLS_SERVER)
    server_ctx.load_cert_chain(certfile, keyfile)
    client_ctx = SSLContext(ssl.PROTOCOL_TLS_CLIENT)
    client_ctx.check_hostname = False
    client_ctx.verify_mode = ssl.CERT_NONE
    return server_ctx, client_ctx


class Handlers(object):
    def __init__(self):
        self.shown = []

    def AUTH(self, reply, creds):
        self.shown.append((creds.authcid, getattr(creds, '_secret', None)))


class Peer(object):
    def __init__(self, sock):
        self.sock = sock
        self.buf = b''

    def reply(self):
        while True:
            while b'\n' not in self.buf:
                data = self.sock.recv(4096)
                if not data:
                    raise EOFError()
                self.buf += data
            line, self.buf = self.buf.split(b'\n', 1)
            if line[3:4] != b'-':
                return line.rstrip(b'\r').decode('ascii', 'replace')

    def cmd(self, line):
        self.sock.sendall(line + b'\r\n')
        return self.reply()


def attempt(server_ctx, client_ctx, lines, tls):
    a, b = socket.socketpair()
    handlers = Handlers()
    server = Server(a, handlers, ('peer', 0),
                    auth=[b'PLAIN', b'LOGIN', b'CRAM-MD5'],
                    context=server_ctx, tls_immediately=tls,
                    command_timeout=5.0)

    def serve():
        try:
            server.handle()
        except Exception:
            pass
    g = gevent.spawn(serve)
    sock = client_ctx.wrap_socket(b, server_hostname='x') if tls else b
    peer = Peer(sock)
    replies = []
    with gevent.Timeout(10):
        peer.reply()
        peer.cmd(b'EHLO client.example')
        for line in lines:
            replies.append(peer.cmd(line))
            if replies[-1][:1] in '245':
                break
    sock.close()
    g.join(2)
    g.kill()
    return replies, handlers.shown, server.authed


def main():
    server_ctx, client_ctx = make_contexts(tempfile.mkdtemp(prefix='c08pre'))
    b64 = base64.b64encode
    cases = [
        # (description, TLS?, lines sent)
        ('LOGIN, user name with "*" in the middle of the base64', True,
         [b'AUTH LOGIN', b'dXNl*cg==', b64(b'pw')]),
        ('LOGIN, user name that is no base64 at all ("!!!!")', True,
         [b'AUTH LOGIN', b'!!!!', b64(b'pw')]),
        ('PLAIN, initial response with 8-bit junk inside', True,
         [b'AUTH PLAIN AHVz\xff\xfeZXIAcHc=']),
        ('PLAIN, junk after the padding', True,
         [b'AUTH PLAIN ' + b64(b'\0user\0pw') + b'==!!??']),
        ('CRAM-MD5 response with "%%" inside, no TLS', False,
         [b'AUTH CRAM-MD5', b'dXNlciBh%%YmNk']),
    ]
    violations = 0
    for desc, tls, lines in cases:
        replies, shown, authed = attempt(server_ctx, client_ctx, lines, tls)
        bad = replies[-1][:1] != '5' or shown or authed
        print('%s\n    sent %r\n    replies %r\n    application was shown %r,'
              ' session authenticated: %r  => %s'
              % (desc, lines, replies, shown, authed,
                 'VIOLATION' if bad else 'ok'))
        violations += bool(bad)
    if violations:
        print('%d malformed AUTH exchanges were accepted instead of being '
              'answered with an error reply' % violations)
        sys.exit(1)
    print('all malformed AUTH exchanges were refused')
    sys.exit(0)


if __name__ == '__main__':
    main()
