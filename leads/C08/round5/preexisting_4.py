# -*- coding: utf-8 -*-
"""Pre-existing finding 4 (client side of the STARTTLS boundary; adjacent to
C08 rather than in its literal wording): SmtpRelayClient(tls_required=True)
continues in clear text when the server answers STARTTLS with a reply that is
neither 220 nor an error (e.g. "250 ok"). Client.starttls() only encrypts on
220 and SmtpRelayClient._starttls() only fails on 4xx/5xx, so AUTH PLAIN
credentials and the message go out unencrypted although TLS was required.

Run from the repository root: /venv/bin/python SEED/preexisting_4.py
Exits 1 while the problem is present, 0 once it is fixed.
"""
import os
import sys

sys.path.insert(0, os.getcwd())

import gevent
from gevent import socket
from gevent.event import AsyncResult

from slimta.relay.smtp.client import SmtpRelayClient
from slimta.util.deque import BlockingDeque
from slimta.envelope import Envelope


def main():
    a, b = socket.socketpair()
    seen = []

    def fake_server():
        f = a.makefile('rb', 0)
        a.sendall(b'220 mx.example ESMTP\r\n')
        in_data = False
        while True:
            line = f.readline()
            if not line:
                break
            seen.append(line)
            up = line.upper()
            if in_data:
                if line == b'.\r\n':
                    in_data = False
                    a.sendall(b'250 2.0.0 queued\r\n')
            elif up.startswith(b'EHLO'):
                a.sendall(b'250-mx.example\r\n250-STARTTLS\r\n'
                          b'250 AUTH PLAIN\r\n')
            elif up.startswith(b'STARTTLS'):
                a.sendall(b'250 2.0.0 ok\r\n')      # not 220, not an error
            elif up.startswith(b'AUTH'):
                a.sendall(b'235 2.7.0 ok\r\n')
            elif up.startswith(b'DATA'):
                in_data = True
                a.sendall(b'354 go ahead\r\n')
            elif up.startswith(b'QUIT'):
                a.sendall(b'221 bye\r\n')
                break
            else:
                a.sendall(b'250 ok\r\n')

    g = gevent.spawn(fake_server)
    queue = BlockingDeque()
    envelope = Envelope('sender@example.com', ['rcpt@example.com'])
    envelope.parse(b'Subject: confidential\r\n\r\nsecret body\r\n')
    result = AsyncResult()
    queue.append((result, envelope))
    client = SmtpRelayClient(('mx.example', 25), queue,
                             socket_creator=lambda address: b,
                             ehlo_as='relay.example', tls_required=True,
                             credentials=('user', 'hunter2'))
    client.start()
    try:
        outcome = result.get(timeout=10)
    except Exception as exc:
        outcome = exc
    client.join(2)
    g.join(2)
    g.kill()
    print('delivery outcome with tls_required=True:', repr(outcome))
    print('lines the server received in clear text:')
    for line in seen:
        print('   ', line)
    leaked = [l for l in seen
              if l.upper().startswith((b'AUTH', b'MAIL')) or b'secret' in l]
    if leaked:
        print('VIOLATION: TLS was required, no handshake took place, yet the '
              'client sent %d sensitive line(s) in clear text' % len(leaked))
        sys.exit(1)
    print('ok: nothing was sent without TLS')
    sys.exit(0)


if __name__ == '__main__':
    main()
