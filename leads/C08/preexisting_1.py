"""Pre-existing C08 violation 1: a successful AUTH made in clear text survives
the STARTTLS handshake (server not back in its just-greeted state)."""
import os
import sys
import base64
import warnings
warnings.simplefilter('ignore')
sys.path.insert(0, os.getcwd())

from gevent.ssl import SSLSocket, SSLError            # noqa: E402
from slimta.smtp.server import Server                 # noqa: E402
from slimta.smtp.client import Client                 # noqa: E402


class FakeSock(object):
    def __init__(self, chunks):
        self.chunks = list(chunks)
        self.sent = []

    def recv(self, n=4096, flags=0):
        return self.chunks.pop(0) if self.chunks else b''

    def sendall(self, data, flags=0):
        self.sent.append(data)

    def getpeername(self):
        return ('127.0.0.1', 1234)

    def fileno(self):
        return -1

    def close(self):
        pass


class FakeSSLSock(SSLSocket):
    def __init__(self, inner):
        self.__dict__['inner'] = inner

    def recv(self, n=4096, flags=0):
        return self.inner.recv(n)

    def sendall(self, data, flags=0):
        return self.inner.sendall(data)

    def getpeername(self):
        return self.inner.getpeername()

    def fileno(self):
        return -1

    def close(self):
        pass

    def __del__(self):
        pass


class FakeContext(object):
    def session_stats(self):
        return {}

    def wrap_socket(self, sock, server_side=False, server_hostname=None):
        return FakeSSLSock(sock)


def b64(raw):
    return base64.b64encode(raw)


from slimta.edge.smtp import SmtpSession              # noqa: E402


def main():
    bad = []
    # --- Server level
    class H(object):
        def __init__(self):
            self.auth = []

        def AUTH(self, reply, creds):
            self.auth.append(creds.authcid)
    h = H()
    sock = FakeSock([
        b'EHLO pre.tls\r\n', b'AUTH CRAM-MD5\r\n',
        b64(b'bob 0123456789abcdef0123456789abcdef') + b'\r\n',
        b'STARTTLS\r\n', b'EHLO post.tls\r\n',
        b'AUTH PLAIN ' + b64(b'\x00alice\x00pw') + b'\r\n', b'QUIT\r\n'])
    srv = Server(sock, h, ('127.0.0.1', 5), auth=[b'CRAM-MD5', b'PLAIN'],
                 context=FakeContext())
    srv.handle()
    replies = [r for r in b''.join(sock.sent).split(b'\r\n')
               if r[3:4] == b' ']
    print('replies:', replies)
    print('AUTH handler calls:', h.auth)
    if replies[-2].startswith(b'503'):
        bad.append('AUTH inside TLS answered %r: the clear-text AUTH from '
                   'before the handshake still counts' % replies[-2])

    # --- SmtpEdge session level
    got = []

    def handoff(env):
        got.append(env)
        return [(env, 'id')]
    sess = SmtpSession(('127.0.0.1', 5), None, handoff)
    sock = FakeSock([
        b'EHLO pre.tls\r\n', b'AUTH CRAM-MD5\r\n',
        b64(b'bob 0123456789abcdef0123456789abcdef') + b'\r\n',
        b'STARTTLS\r\n', b'HELO post.tls\r\n', b'MAIL FROM:<a@b>\r\n',
        b'RCPT TO:<c@d>\r\n', b'DATA\r\n', b'Subject: x\r\n\r\nhi\r\n.\r\n',
        b'QUIT\r\n'])
    srv = Server(sock, sess, ('127.0.0.1', 5), auth=[b'CRAM-MD5'],
                 context=FakeContext())
    srv.handle()
    client = got[0].client
    print('envelope.client after TLS + HELO only:', client)
    if client.get('auth'):
        bad.append('message received after the handshake is stamped '
                   'auth=%r although nobody authenticated inside TLS'
                   % (client['auth'], ))
    if client.get('protocol', '').startswith('ESMTP'):
        bad.append('protocol %r: the clear-text EHLO still counts after the '
                   'handshake (only HELO was sent inside TLS)'
                   % client['protocol'])
    if bad:
        print('VIOLATION')
        for b in bad:
            print(' -', b)
        return 1
    print('OK')
    return 0


if __name__ == '__main__':
    sys.exit(main())
