"""Pre-existing C08 violation 3: XOAUTH2 sends the bearer token verbatim (it is
a plain-text mechanism) but is accepted on an unencrypted session."""
import os
import sys
import base64
import warnings
warnings.simplefilter('ignore')
sys.path.insert(0, os.getcwd())

from gevent.ssl import SSLSocket, SSLError            # noqa: E402
from slimta.smtp.server import Server                 # noqa: E402
from slimta.smtp.client import Client                 # noqa: E402


class FakeSock(object):
    def __init__(self, chunks):
        self.chunks = list(chunks)
        self.sent = []

    def recv(self, n=4096, flags=0):
        return self.chunks.pop(0) if self.chunks else b''

    def sendall(self, data, flags=0):
        self.sent.append(data)

    def getpeername(self):
        return ('127.0.0.1', 1234)

    def fileno(self):
        return -1

    def close(self):
        pass


class FakeSSLSock(SSLSocket):
    def __init__(self, inner):
        self.__dict__['inner'] = inner

    def recv(self, n=4096, flags=0):
        return self.inner.recv(n)

    def sendall(self, data, flags=0):
        return self.inner.sendall(data)

    def getpeername(self):
        return self.inner.getpeername()

    def fileno(self):
        return -1

    def close(self):
        pass

    def __del__(self):
        pass


class FakeContext(object):
    def session_stats(self):
        return {}

    def wrap_socket(self, sock, server_side=False, server_hostname=None):
        return FakeSSLSock(sock)


def b64(raw):
    return base64.b64encode(raw)


def main():
    seen = []

    class H(object):
        def AUTH(self, reply, creds):
            seen.append((type(creds).__name__, creds.authzid))
    token = b64(b'user=bob\x01auth=Bearer s3cr3t-token\x01\x01')
    sock = FakeSock([b'EHLO x\r\n', b'AUTH XOAUTH2 ' + token + b'\r\n',
                     b'AUTH PLAIN ' + b64(b'\x00u\x00p') + b'\r\n',
                     b'QUIT\r\n'])
    srv = Server(sock, H(), ('127.0.0.1', 5), auth=[b'XOAUTH2', b'PLAIN'])
    srv.handle()
    sent = b''.join(sock.sent)
    print('encrypted:', srv.encrypted)
    print(sent.decode())
    print('application saw:', seen)
    if not srv.encrypted and (b'\r\n235 ' in sent or seen):
        print('VIOLATION: XOAUTH2 bearer token accepted without TLS')
        return 1
    print('OK')
    return 0


if __name__ == '__main__':
    sys.exit(main())
