"""Pre-existing C08 violation 4 (client): when the TLS handshake after STARTTLS
fails, Client.starttls() reports the 220 and the session silently goes on in
clear text; bytes that arrived behind the 220 are then taken as the reply to
the next command."""
import os
import sys
import base64
import warnings
warnings.simplefilter('ignore')
sys.path.insert(0, os.getcwd())

from gevent.ssl import SSLSocket, SSLError            # noqa: E402
from slimta.smtp.server import Server                 # noqa: E402
from slimta.smtp.client import Client                 # noqa: E402


class FakeSock(object):
    def __init__(self, chunks):
        self.chunks = list(chunks)
        self.sent = []

    def recv(self, n=4096, flags=0):
        return self.chunks.pop(0) if self.chunks else b''

    def sendall(self, data, flags=0):
        self.sent.append(data)

    def getpeername(self):
        return ('127.0.0.1', 1234)

    def fileno(self):
        return -1

    def close(self):
        pass


class FakeSSLSock(SSLSocket):
    def __init__(self, inner):
        self.__dict__['inner'] = inner

    def recv(self, n=4096, flags=0):
        return self.inner.recv(n)

    def sendall(self, data, flags=0):
        return self.inner.sendall(data)

    def getpeername(self):
        return self.inner.getpeername()

    def fileno(self):
        return -1

    def close(self):
        pass

    def __del__(self):
        pass


class FakeContext(object):
    def session_stats(self):
        return {}

    def wrap_socket(self, sock, server_side=False, server_hostname=None):
        return FakeSSLSock(sock)


def b64(raw):
    return base64.b64encode(raw)


class BadContext(FakeContext):
    def wrap_socket(self, *args, **kwargs):
        raise SSLError('handshake failure')


def main():
    sock = FakeSock([
        b'220 mx ESMTP\r\n',
        b'250-mx\r\n250 STARTTLS\r\n',
        # the 220 and, in the same segment, clear-text bytes behind it
        b'220 2.0.0 go ahead\r\n250-injected\r\n250 AUTH PLAIN\r\n',
        b'235 2.7.0 welcome\r\n'])
    client = Client(sock, ('mx.example', 25))
    client.get_banner()
    client.ehlo('me')
    try:
        reply = client.starttls(BadContext())
    except Exception as exc:
        print('starttls raised %r: OK' % (exc, ))
        return 0
    print('starttls ->', reply, ' encrypted:', client.io.encrypted,
          ' leftover buffer:', client.io.recv_buffer)
    recvs_left = len(sock.chunks)
    ehlo = client.ehlo('me')
    print('ehlo ->', ehlo, ' AUTH:', client.extensions.getparam('AUTH'))
    if not client.io.encrypted and ehlo.code == '250' and \
            len(sock.chunks) == recvs_left:
        auth = client.auth('user', 'password')
        print('auth ->', auth, ' sent in clear:', sock.sent[-1])
        print('VIOLATION: no TLS, yet the session continued and the bytes '
              'pipelined behind the 220 were used as the EHLO reply')
        return 1
    print('OK')
    return 0


if __name__ == '__main__':
    sys.exit(main())
