"""Pre-existing C08 violation 2: syntactically bad base64 in AUTH is silently
"repaired" (non-alphabet bytes and trailing garbage dropped) instead of being
answered with an error reply."""
import os
import sys
import base64
import warnings
warnings.simplefilter('ignore')
sys.path.insert(0, os.getcwd())

from gevent.ssl import SSLSocket, SSLError            # noqa: E402
from slimta.smtp.server import Server                 # noqa: E402
from slimta.smtp.client import Client                 # noqa: E402


class FakeSock(object):
    def __init__(self, chunks):
        self.chunks = list(chunks)
        self.sent = []

    def recv(self, n=4096, flags=0):
        return self.chunks.pop(0) if self.chunks else b''

    def sendall(self, data, flags=0):
        self.sent.append(data)

    def getpeername(self):
        return ('127.0.0.1', 1234)

    def fileno(self):
        return -1

    def close(self):
        pass


class FakeSSLSock(SSLSocket):
    def __init__(self, inner):
        self.__dict__['inner'] = inner

    def recv(self, n=4096, flags=0):
        return self.inner.recv(n)

    def sendall(self, data, flags=0):
        return self.inner.sendall(data)

    def getpeername(self):
        return self.inner.getpeername()

    def fileno(self):
        return -1

    def close(self):
        pass

    def __del__(self):
        pass


class FakeContext(object):
    def session_stats(self):
        return {}

    def wrap_socket(self, sock, server_side=False, server_hostname=None):
        return FakeSSLSock(sock)


def b64(raw):
    return base64.b64encode(raw)


def main():
    bad = []
    good = b64(b'\x00user\x00pass')          # AHVzZXIAcGFzcw==
    cases = [good[:4] + b'!!' + good[4:], good + b'garbage',
             good[:8] + b'\x80\xff' + good[8:], good[:6] + b' ' + good[6:]]
    for form in ('initial', 'challenge'):
        for arg in cases:
            seen = []

            class H(object):
                def AUTH(self, reply, creds):
                    seen.append((creds.authcid, creds._secret))
            if form == 'initial':
                chunks = [b'EHLO x\r\n', b'AUTH PLAIN ' + arg + b'\r\n']
            else:
                chunks = [b'EHLO x\r\n', b'AUTH PLAIN\r\n', arg + b'\r\n']
            sock = FakeSock(chunks + [b'QUIT\r\n'])
            srv = Server(sock, H(), ('127.0.0.1', 5), auth=True,
                         context=FakeContext(), tls_immediately=True)
            srv.handle()
            sent = b''.join(sock.sent)
            print(form, arg, '->', sent.split(b'\r\n')[-3], seen)
            if b'\r\n235 ' in sent or seen:
                bad.append('%s response %r accepted, application saw %r'
                           % (form, arg, seen))
    if bad:
        print('VIOLATION')
        for b in bad:
            print(' -', b)
        return 1
    print('OK')
    return 0


if __name__ == '__main__':
    sys.exit(main())
