"""Pre-existing C08 violation 5 (client): what the server said in clear text
(its EHLO extension list) is still believed after a successful STARTTLS."""
import os
import sys
import base64
import warnings
warnings.simplefilter('ignore')
sys.path.insert(0, os.getcwd())

from gevent.ssl import SSLSocket, SSLError            # noqa: E402
from slimta.smtp.server import Server                 # noqa: E402
from slimta.smtp.client import Client                 # noqa: E402


class FakeSock(object):
    def __init__(self, chunks):
        self.chunks = list(chunks)
        self.sent = []

    def recv(self, n=4096, flags=0):
        return self.chunks.pop(0) if self.chunks else b''

    def sendall(self, data, flags=0):
        self.sent.append(data)

    def getpeername(self):
        return ('127.0.0.1', 1234)

    def fileno(self):
        return -1

    def close(self):
        pass


class FakeSSLSock(SSLSocket):
    def __init__(self, inner):
        self.__dict__['inner'] = inner

    def recv(self, n=4096, flags=0):
        return self.inner.recv(n)

    def sendall(self, data, flags=0):
        return self.inner.sendall(data)

    def getpeername(self):
        return self.inner.getpeername()

    def fileno(self):
        return -1

    def close(self):
        pass

    def __del__(self):
        pass


class FakeContext(object):
    def session_stats(self):
        return {}

    def wrap_socket(self, sock, server_side=False, server_hostname=None):
        return FakeSSLSock(sock)


def b64(raw):
    return base64.b64encode(raw)


def main():
    sock = FakeSock([
        b'220 mx ESMTP\r\n',
        b'250-mx\r\n250-STARTTLS\r\n250-SIZE 1\r\n250 AUTH PLAIN\r\n',
        b'220 2.0.0 go ahead\r\n',
        # inside TLS the real server does not know EHLO / offers nothing
        b'502 5.5.1 EHLO not implemented\r\n',
        b'250 mx\r\n',
        b'235 2.7.0 ok\r\n'])
    client = Client(sock, ('mx.example', 25))
    client.get_banner()
    client.ehlo('me')
    client.starttls(FakeContext())
    after_tls = dict(client.extensions.extensions)
    print('encrypted:', client.io.encrypted)
    print('extensions right after the handshake:', after_tls)
    client.ehlo('me')
    client.helo('me')
    after_helo = dict(client.extensions.extensions)
    print('extensions after EHLO(502)+HELO inside TLS:', after_helo)
    if after_tls or after_helo:
        reply = client.auth('user', 'password')
        print('auth() based on the clear-text advertisement ->', reply,
              sock.sent[-1])
        print('VIOLATION: clear-text EHLO reply still drives the client '
              'after the handshake')
        return 1
    print('OK')
    return 0


if __name__ == '__main__':
    sys.exit(main())
