"""Pre-existing C18 deviation 1: a header truncated by a socket error escapes.

If the PROXY header is cut short by end-of-file, the mix-ins proceed with the
invalid address (None, None).  If it is cut short by a socket *error* instead
(ECONNRESET from a peer RST, or socket.timeout when the socket has a timeout),
recv_into() raises OSError, which none of the handle() methods catch: the
exception escapes handle() and the wrapped edge's handle() is never called.

Exits 1 when an exception escapes (pristine behaviour), 0 otherwise.
"""

from __future__ import print_function

import errno
import os
import socket as pysocket
import struct
import sys

sys.path.insert(0, os.getcwd())

from slimta.util.proxyproto import ProxyProtocol, ProxyProtocolV1, \
    ProxyProtocolV2  # noqa


class FailingSocket(object):
    """Delivers `data`, then raises `exc` on the next recv_into()."""

    def __init__(self, data, exc):
        self.data = data
        self.pos = 0
        self.exc = exc

    def fileno(self):
        return -1

    def recv_into(self, view, nbytes=0, flags=0):
        nbytes = nbytes or len(view)
        count = min(nbytes, len(self.data) - self.pos)
        if count == 0:
            raise self.exc
        view[0:count] = self.data[self.pos:self.pos + count]
        self.pos += count
        return count


class RecordingEdge(object):
    def __init__(self):
        self.calls = []

    def handle(self, sock, addr):
        self.calls.append(addr)


class V1Edge(ProxyProtocolV1, RecordingEdge):
    pass


class V2Edge(ProxyProtocolV2, RecordingEdge):
    pass


class AutoEdge(ProxyProtocol, RecordingEdge):
    pass


V1 = b'PROXY TCP4 192.0.2.7 10.0.0.2 40000 25\r\n'
V2 = b'\r\n\r\n\x00\r\nQUIT\n' + struct.pack('!BBH', 0x21, 0x11, 12) + \
    pysocket.inet_aton('192.0.2.7') + pysocket.inet_aton('10.0.0.2') + \
    struct.pack('!HH', 40000, 25)


def main():
    escaped = 0
    errors = [ConnectionResetError(errno.ECONNRESET, 'Connection reset'),
              pysocket.timeout('timed out')]
    for edge_class, header in ((V1Edge, V1), (AutoEdge, V1), (V2Edge, V2),
                               (AutoEdge, V2)):
        for cut in (0, 5, 12, len(header) - 1):
            for exc in errors:
                edge = edge_class()
                sock = FailingSocket(header[:cut], exc)
                try:
                    edge.handle(sock, ('198.51.100.1', 9))
                except Exception as got:
                    escaped += 1
                    print('{0}: header truncated after {1} bytes by {2}: '
                          '{3!r} escaped handle(), edge.handle calls={4}'
                          .format(edge_class.__name__, cut,
                                  type(exc).__name__, got, edge.calls))
                else:
                    print('{0}: header truncated after {1} bytes by {2}: '
                          'edge.handle called with {3}'
                          .format(edge_class.__name__, cut,
                                  type(exc).__name__, edge.calls))
    if escaped:
        print('VIOLATION: {0} truncated headers let a socket error escape '
              'instead of proceeding with (None, None)'.format(escaped))
        return 1
    print('OK: every truncated header proceeded with the invalid address')
    return 0


if __name__ == '__main__':
    sys.exit(main())
