"""Pre-existing C18 deviation 3: all header validation relies on `assert`.

slimta.util.proxyproto validates input (EOF detection, signature, CRLF, field
count, port range, v2 version/command) with `assert` statements and the
handle() methods catch AssertionError.  When the interpreter runs with -O
(PYTHONOPTIMIZE), the assert statements are compiled away:

  * EOF in the middle of a header is no longer detected: recv_into() keeps
    returning 0 and the read loop spins forever (the greenlet never yields
    on a closed socket, so the whole process hangs at 100% CPU);
  * a v1 header with a missing field raises IndexError out of handle();
  * an out-of-range port (100000) is accepted.

This script re-runs itself in a child interpreter started with -O and reports
what happens.  Exits 1 when any of the above is observed, 0 otherwise.
"""

from __future__ import print_function

import os
import subprocess
import sys

sys.path.insert(0, os.getcwd())


def child(case):
    from slimta.util.proxyproto import ProxyProtocol

    class FakeSocket(object):
        def __init__(self, data):
            self.data = data
            self.pos = 0

        def fileno(self):
            return -1

        def recv_into(self, view, nbytes=0, flags=0):
            nbytes = nbytes or len(view)
            count = min(nbytes, len(self.data) - self.pos)
            view[0:count] = self.data[self.pos:self.pos + count]
            self.pos += count
            return count

    class RecordingEdge(object):
        calls = None

        def handle(self, sock, addr):
            self.calls = [addr]

    class AutoEdge(ProxyProtocol, RecordingEdge):
        pass

    data = {
        'eof': b'PROXY TCP4 192.0.2.7 10.0.',
        'missing-field': b'PROXY TCP4 192.0.2.7 10.0.0.2 40000\r\nEHLO x\r\n',
        'port-range': b'PROXY TCP4 192.0.2.7 10.0.0.2 100000 25\r\nEHLO\r\n',
    }[case]
    edge = AutoEdge()
    edge.handle(FakeSocket(data), ('198.51.100.1', 9))
    print('edge.handle called with', edge.calls)
    return 0 if edge.calls == [(None, None)] else 3


def main():
    if len(sys.argv) > 1:
        return child(sys.argv[1])
    bad = 0
    for case in ('eof', 'missing-field', 'port-range'):
        cmd = [sys.executable, '-O', os.path.abspath(__file__), case]
        try:
            proc = subprocess.run(cmd, stdout=subprocess.PIPE,
                                  stderr=subprocess.STDOUT, timeout=8)
        except subprocess.TimeoutExpired:
            print('{0}: python -O child still spinning after 8s (EOF never '
                  'detected, infinite loop)'.format(case))
            bad += 1
            continue
        out = proc.stdout.decode('utf-8', 'replace').strip().splitlines()
        print('{0}: python -O child exit={1}: {2}'.format(
            case, proc.returncode, out[-1] if out else ''))
        if proc.returncode != 0:
            bad += 1
    if bad:
        print('VIOLATION: under python -O, {0} of 3 malformed/truncated '
              'headers are not turned into the invalid address'.format(bad))
        return 1
    print('OK')
    return 0


if __name__ == '__main__':
    sys.exit(main())
