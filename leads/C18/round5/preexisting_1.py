"""Pre-existing C18 issue 1: a PROXY v2 LOCAL header whose family/protocol
byte is not UNSPEC (or is otherwise "odd") and whose address block is shorter
than that family would need is NOT dropped as a LOCAL (health-check)
connection: it is treated as an invalid header and handed to the real
handler.  The spec says that for LOCAL the receiver must ignore the family,
protocol and address block.  Exits 1 if the violation is present."""
import os
import sys
import struct

sys.path.insert(0, os.getcwd())

from slimta.util import proxyproto
from slimta.util.proxyproto import ProxyProtocol, ProxyProtocolV2

proxyproto.invalid_pp_source_address = ('INVALID', 0)


class FakeSocket(object):
    def __init__(self, data):
        self.data = data
        self.pos = 0

    def fileno(self):
        return -1

    def recv_into(self, buf, nbytes=0):
        n = nbytes or len(buf)
        chunk = self.data[self.pos:self.pos+n]
        buf[0:len(chunk)] = chunk
        self.pos += len(chunk)
        return len(chunk)


class Recorder(object):
    def __init__(self):
        super(Recorder, self).__init__()
        self.calls = []

    def handle(self, sock, addr):
        self.calls.append(addr)


class V2Edge(ProxyProtocolV2, Recorder):
    pass


class AutoEdge(ProxyProtocol, Recorder):
    pass


SIG = b'\r\n\r\n\x00\r\nQUIT\n'
cases = [
    ('LOCAL, UNSPEC, len 0 (control case)', SIG + b'\x20\x00' + struct.pack('!H', 0), True),
    ('LOCAL, TCP4, len 0', SIG + b'\x20\x11' + struct.pack('!H', 0), False),
    ('LOCAL, TCP6, len 5', SIG + b'\x20\x21' + struct.pack('!H', 5) + b'12345', False),
    ('LOCAL, family AF_INET / proto UNSPEC, len 0', SIG + b'\x20\x10' + struct.pack('!H', 0), False),
]
bad = 0
for name, header, control in cases:
    for cls in (V2Edge, AutoEdge):
        edge = cls()
        sock = FakeSocket(header + b'EHLO x\r\n')
        edge.handle(sock, ('127.0.0.1', 1))
        dropped = (edge.calls == [])
        print('%-48s %-8s -> %s' % (name, cls.__name__,
              'dropped (LOCAL)' if dropped else 'handler called with %r' % (edge.calls,)))
        if not dropped:
            bad += 1
if bad:
    print('VIOLATION: %d LOCAL headers were not dropped' % bad)
    sys.exit(1)
print('OK')
