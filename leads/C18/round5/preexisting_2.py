"""Pre-existing C18 issue 2: a PROXY v2 header whose family nibble is one of
the undefined values 0x4-0xF (or family UNSPEC with an undefined protocol
nibble 0x3-0xF) -- e.g. a single-byte corruption of the family/protocol byte
of a valid TCP4 header -- is accepted as a *well-formed UNKNOWN/UNSPEC*
header (logged as 'ppsuccess', handler gets unknown_pp_source_address)
instead of being treated as malformed (invalid_pp_source_address).  With the
default constants both are (None, None), so the two documented module
constants are set to distinguishable values here.  Exits 1 if present."""
import os
import sys
import struct
import socket as _socket

sys.path.insert(0, os.getcwd())

from slimta.util import proxyproto
from slimta.util.proxyproto import ProxyProtocol, ProxyProtocolV2

proxyproto.invalid_pp_source_address = ('INVALID', 0)
proxyproto.unknown_pp_source_address = ('UNKNOWN', 0)


class FakeSocket(object):
    def __init__(self, data):
        self.data = data
        self.pos = 0

    def fileno(self):
        return -1

    def recv_into(self, buf, nbytes=0):
        n = nbytes or len(buf)
        chunk = self.data[self.pos:self.pos+n]
        buf[0:len(chunk)] = chunk
        self.pos += len(chunk)
        return len(chunk)


class Recorder(object):
    def __init__(self):
        super(Recorder, self).__init__()
        self.calls = []

    def handle(self, sock, addr):
        self.calls.append(addr)


class V2Edge(ProxyProtocolV2, Recorder):
    pass


class AutoEdge(ProxyProtocol, Recorder):
    pass


SIG = b'\r\n\r\n\x00\r\nQUIT\n'
block = (_socket.inet_aton('1.2.3.4') + _socket.inet_aton('10.0.0.1') +
         struct.pack('!HH', 40000, 25))
bad = 0
for fam_proto in (0x11, 0x41, 0x91, 0xf1, 0x03, 0x0f):
    header = SIG + bytes(bytearray([0x21, fam_proto])) + \
        struct.pack('!H', len(block)) + block
    for cls in (V2Edge, AutoEdge):
        edge = cls()
        edge.handle(FakeSocket(header + b'EHLO x\r\n'), ('127.0.0.1', 1))
        print('family/proto byte 0x%02x %-8s -> handler got %r'
              % (fam_proto, cls.__name__, edge.calls))
        if fam_proto != 0x11 and edge.calls != [('INVALID', 0)]:
            bad += 1
if bad:
    print('VIOLATION: %d headers with undefined family/protocol were '
          'accepted as UNKNOWN instead of invalid' % bad)
    sys.exit(1)
print('OK')
