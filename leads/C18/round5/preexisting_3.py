"""Pre-existing C18 issue 3 (configuration dependent): all header validation
and EOF detection is done with `assert` statements, so under `python -O` /
PYTHONOPTIMIZE=1 (a) out-of-range ports and other malformed v1 headers are
accepted, and (b) a truncated header (peer closes mid-header) makes the
reader spin forever on recv_into() == 0.  The check itself runs in a child
interpreter started with -O.  Exits 1 if the violation is present."""
import os
import subprocess
import sys

CHILD = r'''
import os, sys
sys.path.insert(0, os.getcwd())
from slimta.util.proxyproto import ProxyProtocolV1, ProxyProtocolV2, ProxyProtocol

class LoopDetected(Exception):
    pass

class FakeSocket(object):
    def __init__(self, data):
        self.data = data; self.pos = 0; self.eof_reads = 0
    def fileno(self):
        return -1
    def recv_into(self, buf, nbytes=0):
        n = nbytes or len(buf)
        chunk = self.data[self.pos:self.pos+n]
        buf[0:len(chunk)] = chunk
        self.pos += len(chunk)
        if not chunk:
            self.eof_reads += 1
            if self.eof_reads > 1000:
                raise LoopDetected()
        return len(chunk)

class Recorder(object):
    def __init__(self):
        super(Recorder, self).__init__(); self.calls = []
    def handle(self, sock, addr):
        self.calls.append(addr)

class V1(ProxyProtocolV1, Recorder): pass
class V2(ProxyProtocolV2, Recorder): pass
class Auto(ProxyProtocol, Recorder): pass

bad = 0
e = V1()
e.handle(FakeSocket(b'PROXY TCP4 1.2.3.4 5.6.7.8 100000 25\r\nEHLO\r\n'), None)
print('port 100000 ->', e.calls)
if e.calls != [(None, None)]:
    bad += 1
for cls, data in ((V1, b'PROXY TCP4 1.2.3.4 5.6'), (Auto, b'PROX'),
                  (V2, b'\r\n\r\n\x00\r\nQUIT\n\x21\x11\x00\x0c\x01\x02')):
    e = cls()
    try:
        e.handle(FakeSocket(data), None)
        print(cls.__name__, 'truncated ->', e.calls)
        if e.calls != [(None, None)]:
            bad += 1
    except LoopDetected:
        print(cls.__name__, 'truncated -> reader keeps calling recv_into() after EOF (infinite loop)')
        bad += 1
sys.exit(1 if bad else 0)
'''

normal = subprocess.call([sys.executable, '-c', CHILD])
print('--- normal interpreter: exit', normal)
optimized = subprocess.call([sys.executable, '-O', '-c', CHILD])
print('--- python -O: exit', optimized)
if normal != 0 or optimized != 0:
    print('VIOLATION (under -O)' if normal == 0 else 'VIOLATION')
    sys.exit(1)
print('OK')
