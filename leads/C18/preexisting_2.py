"""Pre-existing C18 deviation 2: v1 ports with leading zeros are accepted.

The PROXY protocol specification (section 2.1) says of the v1 port fields:
"a decimal integer in the range [0..65535] inclusive.  Leading zeroes are not
permitted."  ProxyProtocolV1.__get_pp_port only checks isdigit() and the
numeric range, so a header whose port is "0025" (e.g. the single-byte
corruption of "1025" -> "0025"), or even fifty zeros followed by "25", is
accepted and its addresses are returned instead of the invalid address.

Exits 1 when such a header is accepted (pristine behaviour), 0 when all of
them yield the invalid address (None, None).
"""

from __future__ import print_function

import os
import sys

sys.path.insert(0, os.getcwd())

from slimta.util.proxyproto import ProxyProtocol, ProxyProtocolV1  # noqa


class FakeSocket(object):
    def __init__(self, data):
        self.data = data
        self.pos = 0

    def fileno(self):
        return -1

    def recv_into(self, view, nbytes=0, flags=0):
        nbytes = nbytes or len(view)
        count = min(nbytes, len(self.data) - self.pos)
        view[0:count] = self.data[self.pos:self.pos + count]
        self.pos += count
        return count


class RecordingEdge(object):
    def __init__(self):
        self.calls = []

    def handle(self, sock, addr):
        self.calls.append(addr)


class V1Edge(ProxyProtocolV1, RecordingEdge):
    pass


class AutoEdge(ProxyProtocol, RecordingEdge):
    pass


HEADERS = [
    b'PROXY TCP4 192.0.2.7 10.0.0.2 0025 25\r\n',     # "1025" -> "0025"
    b'PROXY TCP4 192.0.2.7 10.0.0.2 40000 025\r\n',
    b'PROXY TCP6 2001:db8::7 ::1 00 0\r\n',
    b'PROXY TCP4 192.0.2.7 10.0.0.2 ' + b'0' * 50 + b'25 25\r\n',
]


def main():
    accepted = 0
    for edge_class in (V1Edge, AutoEdge):
        for header in HEADERS:
            edge = edge_class()
            edge.handle(FakeSocket(header + b'EHLO x\r\n'), ('198.51.100.1', 9))
            print('{0}: {1!r} -> {2!r}'.format(edge_class.__name__, header,
                                               edge.calls[0]))
            if edge.calls[0] != (None, None):
                accepted += 1
    if accepted:
        print('VIOLATION: {0} headers with zero-padded ports (malformed per '
              'the PROXY protocol spec) were accepted'.format(accepted))
        return 1
    print('OK: zero-padded ports are rejected')
    return 0


if __name__ == '__main__':
    sys.exit(main())
