"""Pre-existing (pristine tree): LmtpClient keeps the recipients of a
transaction whose DATA command was refused.  If the caller then starts a new
transaction with MAIL (no RSET in between) the client expects end-of-data
replies for the stale recipients too, pairs the replies with the wrong
recipients and finally reads past the last reply it is owed."""
import os
import sys
import warnings
warnings.filterwarnings('ignore')
sys.path.insert(0, os.getcwd())

from slimta.smtp.client import LmtpClient  # noqa: E402
from slimta.smtp import ConnectionLost  # noqa: E402


class FakeSocket(object):

    def __init__(self, segments):
        self.segments = list(segments)
        self.sent = b''
        self.over_reads = 0

    def fileno(self):
        return -1

    def getpeername(self):
        return ('fake', 24)

    def sendall(self, data):
        self.sent += data

    def recv(self, n):
        if not self.segments:
            self.over_reads += 1
            return b''
        return self.segments.pop(0)

    def close(self):
        pass


sock = FakeSocket([
    b'250 sender ok\r\n',            # MAIL  (transaction 1)
    b'250 rcpt a ok\r\n',            # RCPT a
    b'451 cannot take it now\r\n',   # DATA refused
    b'250 sender ok again\r\n',      # MAIL  (transaction 2, accepted)
    b'250 rcpt b ok\r\n',            # RCPT b
    b'354 go ahead\r\n',             # DATA
    b'250 delivered to b\r\n',       # the single per-recipient reply owed
    b'221 bye\r\n',                  # QUIT
])
client = LmtpClient(sock)
client.mailfrom('sender@example.com')
client.rcptto('a@example.com')
print('DATA #1 ->', client.data())
client.mailfrom('sender@example.com')
client.rcptto('b@example.com')
print('DATA #2 ->', client.data())

bad = False
try:
    results = client.send_data(b'Subject: x\r\n\r\nbody\r\n')
    print('send_data ->', results)
    if [addr for addr, _ in results] != ['b@example.com']:
        print('VIOLATION: end-of-data replies paired with recipients %r, the '
              'server accepted only b@example.com in this transaction'
              % [addr for addr, _ in results])
        bad = True
    quit_reply = client.quit()
    print('QUIT ->', quit_reply)
    if quit_reply.code != '221':
        bad = True
except ConnectionLost:
    print('VIOLATION: the client waited for a reply that it is not owed '
          '(read past the end of the reply stream)')
    bad = True
if sock.over_reads:
    print('VIOLATION: %d read(s) past the last reply' % sock.over_reads)
    bad = True
print('pristine behaviour violates C10' if bad else 'ok')
sys.exit(1 if bad else 0)
