"""Pre-existing C10 violation 2 (pristine code): an EHLO/LHLO reply whose
first (greeting) line is empty.

Extensions.parse_string() tests "if not header" instead of "header is None",
so with an empty greeting the *second* line is taken for the greeting: the
EHLO reply object ends up holding 'PIPELINING' as the server's message and
the PIPELINING extension itself is not registered, i.e. the client decides
"PIPELINING not advertised" for a server that advertised it.

Run from the repository root.  Exit 1 = violation present, 0 = fixed.
"""
import os
import sys

sys.path.insert(0, os.getcwd())

from slimta.smtp.client import Client  # noqa: E402


class FakeSocket(object):

    def __init__(self, data):
        self.data = [data]

    def fileno(self):
        return -1

    def getpeername(self):
        return ('fake', 25)

    def sendall(self, data):
        pass

    def recv(self, size):
        return self.data.pop(0)


def main():
    sock = FakeSocket(b'250-\r\n250-PIPELINING\r\n250 SIZE 1000\r\n')
    client = Client(sock, ('fake', 25))
    ehlo = client.ehlo('me')
    print('server said: 250-<empty> / 250-PIPELINING / 250 SIZE 1000')
    print('EHLO reply object: code=%r message=%r' % (ehlo.code, ehlo.message))
    print('PIPELINING in extensions: %r, SIZE in extensions: %r'
          % ('PIPELINING' in client.extensions, 'SIZE' in client.extensions))
    bad = False
    if ehlo.message != '':
        print('VIOLATION: the greeting held by the reply object is not the '
              "server's first line")
        bad = True
    if 'PIPELINING' not in client.extensions:
        print('VIOLATION: advertised PIPELINING was not recognised')
        bad = True
    return 1 if bad else 0


if __name__ == '__main__':
    sys.exit(main())
