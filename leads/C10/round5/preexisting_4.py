"""Pre-existing C10 issue 4 (pristine code): Reply.message loses parts of the
server's text when it looks like an enhanced status code.

 a) code class 1xx/3xx: the setter strips a leading "d.d.d " from the text
    into _esc, the getter only gives it back for 2xx/4xx/5xx -> the text
    "2.0.0 go" of a 354 reply is reduced to "go" (not recoverable through
    message, raw_message or enhanced_status_code).
 b) message_esc_pattern ends in \\s+, which also matches CRLF: a multi-line
    reply whose first line is just the status code loses its line structure,
    including whole empty lines ("2.0.0", "", "bye" -> "2.0.0 bye").

The reply objects are paired with the right commands, but they do not hold
what the server said.  Low severity, included for completeness.

Run from the repository root.  Exit 1 = violation present, 0 = fixed.
"""
import os
import sys

sys.path.insert(0, os.getcwd())

from slimta.smtp.client import Client  # noqa: E402


class FakeSocket(object):

    def __init__(self, *data):
        self.data = list(data)

    def fileno(self):
        return -1

    def getpeername(self):
        return ('fake', 25)

    def sendall(self, data):
        pass

    def recv(self, size):
        return self.data.pop(0)


def main():
    rc = 0
    client = Client(FakeSocket(b'354 2.0.0 go\r\n'), ('fake', 25))
    reply = client.data()
    print('server: 354 "2.0.0 go"  -> message=%r raw_message=%r esc=%r'
          % (reply.message, reply.raw_message, reply.enhanced_status_code))
    if '2.0.0' not in (reply.message or ''):
        print('VIOLATION (a): part of the server text is gone')
        rc = 1

    client = Client(FakeSocket(b'221-2.0.0\r\n221-\r\n221 bye\r\n'),
                    ('fake', 25))
    reply = client.quit()
    print('server: 221 "2.0.0" / "" / "bye" -> message=%r' % reply.message)
    if reply.message.count('\r\n') != 2:
        print('VIOLATION (b): three text lines were collapsed into one')
        rc = 1
    return rc


if __name__ == '__main__':
    sys.exit(main())
