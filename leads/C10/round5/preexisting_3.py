"""Pre-existing C10 issue 3 (pristine code): a reply line that consists of
the code only ("250<CRLF>") is rejected as BadReply.

RFC 5321 4.2: Reply-line = *( Reply-code "-" [ textstring ] CRLF )
                           Reply-code [ SP textstring ] CRLF
so a bare code is a well-formed final line.  IO.recv_reply()'s
reply_line_pattern insists on a separator character after the code, the line
falls through to line_pattern and BadReply is raised: the reply object of the
command is never populated although the server answered it correctly.
(Note: this is outside a domain restricted to ">= 1 text line per reply".)

Run from the repository root.  Exit 1 = violation present, 0 = fixed.
"""
import os
import sys

sys.path.insert(0, os.getcwd())

from slimta.smtp.client import Client  # noqa: E402
from slimta.smtp import BadReply  # noqa: E402


class FakeSocket(object):

    def __init__(self, *data):
        self.data = list(data)

    def fileno(self):
        return -1

    def getpeername(self):
        return ('fake', 25)

    def sendall(self, data):
        pass

    def recv(self, size):
        return self.data.pop(0)


def main():
    rc = 0
    for stream in (b'250\r\n', b'250-first\r\n250\r\n'):
        client = Client(FakeSocket(stream), ('fake', 25))
        try:
            reply = client.custom_command(b'NOOP')
        except BadReply as exc:
            print('VIOLATION: %r -> BadReply(%r)' % (stream, exc.data))
            rc = 1
        else:
            print('OK: %r -> %r' % (stream, reply))
    return rc


if __name__ == '__main__':
    sys.exit(main())
