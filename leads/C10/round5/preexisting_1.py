"""Pre-existing C10 violation 1 (pristine code): a command that fails to
encode leaves its Reply object in the reply queue although nothing was sent.

Client.rcptto()/mailfrom() append the Reply to reply_queue *before* building
the command.  An address that cannot be encoded (non-ASCII address, server
without SMTPUTF8) raises UnicodeEncodeError at that point: no RCPT goes out,
but the client now believes it is owed one more reply.  The next command's
reply is stored in the orphaned RCPT reply object and the client then reads
past the last reply it is owed (blocks until a timeout on a real socket).

Run from the repository root.  Exit 1 = violation present, 0 = fixed.
"""
import os
import sys

sys.path.insert(0, os.getcwd())

from slimta.smtp.client import Client  # noqa: E402


class OverRead(Exception):
    pass


class FakeSocket(object):

    def __init__(self):
        self.segments = []
        self.sent = b''

    def fileno(self):
        return -1

    def getpeername(self):
        return ('fake', 25)

    def sendall(self, data):
        self.sent += data

    def recv(self, size):
        if not self.segments:
            raise OverRead()
        return self.segments.pop(0)


def main():
    sock = FakeSocket()
    client = Client(sock, ('fake', 25))
    sock.segments.append(b'250-fake\r\n250 8BITMIME\r\n')   # no SMTPUTF8
    client.ehlo('me')
    sock.segments.append(b'250 sender ok\r\n')
    client.mailfrom('sender@example.com')
    try:
        client.rcptto(u'\xfcser@example.com')
        print('rcptto() did not raise')
    except UnicodeError as exc:
        print('rcptto() raised %s (nothing was sent for it)'
              % type(exc).__name__)
    print('replies the client still waits for: %d (commands awaiting an '
          'answer on the wire: 0)' % len(client.reply_queue))
    assert b'RCPT' not in sock.sent
    sock.segments.append(b'250 reset ok\r\n')
    try:
        rset = client.rset()
    except OverRead:
        print('VIOLATION: rset() consumed the RSET reply for the orphaned '
              'RCPT reply object and then read past the last reply owed')
        return 1
    if (rset.code, rset.raw_message) != ('250', 'reset ok'):
        print('VIOLATION: RSET reply object holds %r' % rset)
        return 1
    print('OK: RSET reply is %r' % rset)
    return 0


if __name__ == '__main__':
    sys.exit(main())
