"""Pre-existing (pristine tree): the Reply object filled by the client does
not hold the server's text when that text starts with something that looks
like an enhanced status code:
  * on a 1xx/3xx reply the token is removed and lost altogether,
  * on a multi-line reply whose first line is only the token, the line break
    is swallowed, so the caller sees one line fewer than the server sent."""
import os
import sys
import warnings
warnings.filterwarnings('ignore')
sys.path.insert(0, os.getcwd())

from slimta.smtp.client import Client  # noqa: E402


class FakeSocket(object):

    def __init__(self, segments):
        self.segments = list(segments)

    def fileno(self):
        return -1

    def getpeername(self):
        return ('fake', 25)

    def sendall(self, data):
        pass

    def recv(self, n):
        return self.segments.pop(0) if self.segments else b''

    def close(self):
        pass


bad = False

sock = FakeSocket([b'354 2.0.0 go ahead\r\n'])
reply = Client(sock).data()
print('server: "354 2.0.0 go ahead"  -> client:', repr(reply.code),
      repr(reply.message), 'esc =', repr(reply.enhanced_status_code))
if '2.0.0' not in str(reply):
    print('VIOLATION: the "2.0.0" the server sent is gone from the reply')
    bad = True

sock = FakeSocket([b'250-2.1.5\r\n250 recipient ok\r\n'])
reply = Client(sock).rcptto('a@example.com')
print('server: "250-2.1.5" / "250 recipient ok" -> client:', repr(reply.code),
      repr(reply.message))
if len(reply.message.split('\r\n')) != 2:
    print('VIOLATION: two text lines were sent, the reply holds %d'
          % len(reply.message.split('\r\n')))
    bad = True

print('pristine behaviour alters the reply text' if bad else 'ok')
sys.exit(1 if bad else 0)
