"""Pre-existing C19 violation: a later envelope receives an earlier one's reply.

slimta.smtp.client.Client.last_error is sticky for the whole connection, and
SmtpRelayClient._get_error_reply() returns it whenever its code is 421.  On a
re-used connection, if envelope 1 was answered with a 421 that did not end the
session (here: "421" on DATA, then RSET is accepted), and the connection is
lost while envelope 2 is being sent, then the attempt for envelope 2 fails with
the Reply object the server gave for envelope 1 (its text, its command).

Exits 1 when the violation is observed, 0 otherwise.
"""
import os
import sys
sys.path.insert(0, os.getcwd())
import warnings
warnings.simplefilter('ignore')
import logging

import gevent
from gevent import socket as gsocket

from slimta.relay.smtp.static import StaticSmtpRelay
from slimta.relay import RelayError
from slimta.envelope import Envelope

logging.disable(logging.CRITICAL)

connections = []


def serve(sock):
    f = sock.makefile('rb')
    mails = 0
    try:
        sock.sendall(b'220 fake ESMTP\r\n')
        while True:
            line = f.readline()
            if not line:
                break
            cmd = line.strip().upper()
            if cmd.startswith(b'EHLO'):
                sock.sendall(b'250-fake\r\n250 PIPELINING\r\n')
            elif cmd.startswith(b'MAIL'):
                mails += 1
                if mails > 1:
                    break      # connection dies during the second envelope
                sender = line.strip()[10:]
                sock.sendall(b'250 ok\r\n')
            elif cmd == b'DATA':
                sock.sendall(b'421 4.3.2 too busy to take the message from ' +
                             sender + b'\r\n')
            elif cmd == b'QUIT':
                sock.sendall(b'221 bye\r\n')
                break
            else:
                sock.sendall(b'250 ok\r\n')
    finally:
        sock.close()


def creator(address):
    a, b = gsocket.socketpair()
    connections.append(b)
    gevent.spawn(serve, b)
    return a


def attempt(relay, n):
    env = Envelope('sender{0}@example.com'.format(n),
                   ['rcpt{0}@example.com'.format(n)])
    env.parse(b'Subject: x\r\n\r\nbody\r\n')
    try:
        return relay.attempt(env, 0)
    except RelayError as exc:
        return exc


def main():
    relay = StaticSmtpRelay('mx.example.com', 25, pool_size=1,
                            socket_creator=creator, ehlo_as='demo',
                            idle_timeout=5.0, command_timeout=2.0)
    with gevent.Timeout(20):
        first = attempt(relay, 1)
        second = attempt(relay, 2)
    for client in list(relay.pool):
        client.kill(block=False)
    print('connections used: {0}'.format(len(connections)))
    print('attempt 1 -> {0!r}'.format(first))
    print('attempt 2 -> {0!r}'.format(second))
    reply1 = getattr(first, 'reply', None)
    reply2 = getattr(second, 'reply', None)
    if reply2 is not None and (reply2 is reply1 or
                               'sender1@example.com' in reply2.message):
        print('VIOLATION: the attempt for envelope 2 failed with the reply the '
              'server gave to envelope 1 ({0!r}, command {1!r})'.format(
                  str(reply2), reply2.command))
        return 1
    print('ok: envelope 2 got a result of its own')
    return 0


if __name__ == '__main__':
    sys.exit(main())
