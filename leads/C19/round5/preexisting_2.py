"""Pre-existing violation 2 (pristine code): a server-initiated 421 that
arrives in the same TCP segment as the reply to the previous message is
reported as the answer to the NEXT message.

SmtpRelayClient._check_server_timeout() relies on
slimta.smtp.client.Client.has_reply_waiting(), which only polls the socket's
file descriptor.  A "421 ... closing" line that was received together with the
final "250" of message 1 sits in IO.recv_buffer, the descriptor is not
readable, so the idle connection looks healthy.  The 421 is then consumed as
the reply to message 2's MAIL command: attempt 2 fails with a reply the server
gave before that envelope was even offered (it should have been handed to a
new connection, as happens when the 421 arrives in a segment of its own), and
the replies of the connection are shifted by one from then on (the real answer
to MAIL is taken for the answer to RSET, ...).

The server here keeps the socket open after the 421 ("421 without close").

Run from the repository root.  Exits 1 while the bug is present, 0 if fixed.
"""
import os
import sys

sys.path.insert(0, os.getcwd())

import gevent
from gevent import socket as gsocket

from slimta.envelope import Envelope
from slimta.relay.smtp.static import StaticSmtpRelay

servers = []


class Server(object):

    def __init__(self, sock, first):
        self.sock = sock
        self.first = first
        self.buf = b''
        self.commands = []
        self.messages = []

    def _readline(self):
        while b'\r\n' not in self.buf:
            data = self.sock.recv(4096)
            if not data:
                return None
            self.buf += data
        line, _, self.buf = self.buf.partition(b'\r\n')
        return line

    def run(self):
        try:
            self.sock.sendall(b'220 fake ESMTP\r\n')
            while True:
                line = self._readline()
                if line is None:
                    return
                self.commands.append(line)
                verb = line.split(b' ', 1)[0].upper()
                if verb == b'EHLO':
                    self.sock.sendall(b'250-fake\r\n250 8BITMIME\r\n')
                elif verb == b'DATA':
                    self.sock.sendall(b'354 Go ahead\r\n')
                    body = []
                    while True:
                        line = self._readline()
                        if line is None:
                            return
                        if line == b'.':
                            break
                        body.append(line)
                    self.messages.append(b'\r\n'.join(body))
                    if self.first and len(self.messages) == 1:
                        # final reply and the idle-timeout notice in ONE
                        # segment; the socket is left open
                        self.sock.sendall(b'250 2.0.0 Queued\r\n'
                                          b'421 4.4.2 idle timeout, closing'
                                          b'\r\n')
                    else:
                        self.sock.sendall(b'250 2.0.0 Queued\r\n')
                elif verb == b'QUIT':
                    self.sock.sendall(b'221 Bye\r\n')
                    return
                else:
                    self.sock.sendall(b'250 Ok\r\n')
        except (OSError, IOError):
            pass
        finally:
            self.sock.close()


def socket_creator(address):
    client_end, server_end = gsocket.socketpair()
    server = Server(server_end, first=not servers)
    servers.append(server)
    gevent.spawn(server.run)
    return client_end


def make_envelope(i):
    env = Envelope('sender%d@example.com' % i, ['rcpt%d@example.com' % i])
    env.parse(('From: sender%d@example.com\r\n\r\nmessage %d\r\n'
               % (i, i)).encode('ascii'))
    return env


def main():
    gevent.get_hub().exception_stream = None
    relay = StaticSmtpRelay('fake', 25, pool_size=1, ehlo_as='demo',
                            socket_creator=socket_creator,
                            idle_timeout=2.0, command_timeout=3.0)
    outcomes = []
    for i in (1, 2):
        g = gevent.spawn(relay.attempt, make_envelope(i), 0)
        g.join(10)
        if g.successful():
            outcomes.append(('ok', g.value))
        elif g.ready():
            outcomes.append(('error', g.exception))
        else:
            outcomes.append(('none', None))
        print('attempt %d: %s %r (connections so far: %d)'
              % (i, outcomes[-1][0], outcomes[-1][1], len(servers)))
        gevent.sleep(0.2)
    kind, value = outcomes[1]
    if kind == 'error' and 'idle timeout' in str(value):
        print('VIOLATION: attempt 2 was answered with the 421 that the '
              'server sent before message 2 was offered: %s' % (value, ))
        return 1
    if kind != 'ok':
        print('VIOLATION: attempt 2 got %s %r' % (kind, value))
        return 1
    print('no violation observed: message 2 was delivered (over %d '
          'connections)' % len(servers))
    return 0


if __name__ == '__main__':
    sys.exit(main())
