"""Pre-existing violation 1 (pristine code): HttpRelay with connection re-use.

HttpRelayClient._process_response() never reads (or closes) the HTTP response
body.  http.client therefore still considers the previous response "in
progress" when the next request is made on the kept-alive connection: the
second message is written to the server completely (the server accepts it),
but conn.getresponse() raises ResponseNotReady and the attempt is answered
with TransientRelayError('Request-sent').  The caller (the queue) will retry a
message that was in fact delivered -> duplicate, and the attempt did not get
the result of its own envelope.

Run from the repository root.  Exits 1 while the bug is present, 0 if fixed.
"""
import io
import os
import sys

sys.path.insert(0, os.getcwd())

import gevent
from gevent import socket as gsocket
from gevent.event import Event

from slimta.envelope import Envelope
from slimta.relay.http import HttpRelay

received = []      # (connection number, body) of every request the server got


class FakeHttpSocket(object):
    """In-memory socket with a keep-alive HTTP server that accepts all mail
    (answers like slimta's own WsgiEdge: 200, Content-Length: 0)."""

    count = 0

    def __init__(self):
        FakeHttpSocket.count += 1
        self.number = FakeHttpSocket.count
        self.inbuf = b''
        self.outbuf = b''
        self.ready = Event()

    def sendall(self, data):
        self.inbuf += bytes(data)
        while True:
            head, sep, rest = self.inbuf.partition(b'\r\n\r\n')
            if not sep:
                return
            length = 0
            for line in head.split(b'\r\n'):
                if line.lower().startswith(b'content-length:'):
                    length = int(line.split(b':')[1])
            if len(rest) < length:
                return
            received.append((self.number, rest[:length]))
            self.inbuf = rest[length:]
            self.outbuf += (b'HTTP/1.1 200 OK\r\n'
                            b'Content-Length: 0\r\n'
                            b'X-Smtp-Reply: 250; message="2.0.0 Ok"\r\n\r\n')
            self.ready.set()

    def makefile(self, mode, *args, **kwargs):
        sock = self

        class Raw(io.RawIOBase):
            def readable(self):
                return True

            def readinto(self, b):
                gevent.sleep(0.01)
                sock.ready.wait()
                n = min(len(b), len(sock.outbuf))
                b[:n] = sock.outbuf[:n]
                sock.outbuf = sock.outbuf[n:]
                if not sock.outbuf:
                    sock.ready.clear()
                return n
        return io.BufferedReader(Raw())

    def setsockopt(self, *args):
        pass

    def close(self):
        pass


def make_envelope(i):
    env = Envelope('sender%d@example.com' % i, ['rcpt%d@example.com' % i])
    env.parse(('From: sender%d@example.com\r\n\r\nmessage %d\r\n'
               % (i, i)).encode('ascii'))
    return env


def main():
    # slimta.http.HTTPConnection takes gevent.socket.create_connection when it
    # is constructed; no real network is used.
    gsocket.create_connection = lambda *a, **kw: FakeHttpSocket()
    gevent.get_hub().exception_stream = None

    relay = HttpRelay('http://fake:8025/messages', pool_size=1,
                      idle_timeout=2.0, timeout=5.0, ehlo_as='demo')
    bad = False
    for i in (1, 2, 3):
        g = gevent.spawn(relay.attempt, make_envelope(i), 0)
        g.join(10)
        marker = ('message %d' % i).encode('ascii')
        got = sum(1 for _, body in received if marker in body)
        if g.successful():
            outcome = 'ok: %s' % (g.value, )
        elif g.ready():
            outcome = 'raised %r' % (g.exception, )
        else:
            outcome = 'no result'
        print('attempt %d: %s; server received the message %d time(s); '
              'connections so far: %d'
              % (i, outcome, got, FakeHttpSocket.count))
        if got == 1 and not g.successful():
            bad = True
    if bad:
        print('VIOLATION: a message that the server accepted over the '
              're-used connection was reported as a failed attempt')
        return 1
    print('no violation observed')
    return 0


if __name__ == '__main__':
    sys.exit(main())
