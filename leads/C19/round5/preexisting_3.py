"""Pre-existing violation 3 (pristine code, literal reading of "no request is
left waiting while no client exists to serve it").

RelayPool._remove_client() only starts a replacement client when the pool has
become EMPTY.  With connection re-use disabled (idle_timeout=None, the
default) every client serves exactly one request and never polls again.  So
with pool_size=2 and three simultaneous attempts:

  * client 1 takes A, client 2 takes B, C is queued (pool full);
  * client 1 finishes and leaves; the pool still holds client 2, hence no
    replacement is started - although client 2 will never serve C and the
    pool is below its size;
  * C waits until client 2 is gone, however long that takes (here the server
    stalls B's connection for 3 s; with command/data timeouts disabled and a
    server that never answers, C would wait forever).

Run from the repository root.  Exits 1 while the behaviour is present, 0 if C
is served as soon as a pool slot is free.
"""
import os
import sys
import time

sys.path.insert(0, os.getcwd())

import gevent
from gevent.event import Event

from slimta.envelope import Envelope
from slimta.relay.smtp.static import StaticSmtpRelay

STALL = 3.0
opened = []     # (time, connection number)
start = time.time()


class FakeServerSocket(object):

    count = 0

    def __init__(self):
        FakeServerSocket.count += 1
        self.number = FakeServerSocket.count
        opened.append((time.time() - start, self.number))
        self.outbuf = b'220 fake ESMTP\r\n'
        self.inbuf = b''
        self.in_data = False
        self.ready = Event()
        self.ready.set()
        self.stall = 0.0

    def fileno(self):
        return -1

    def getpeername(self):
        return ('fake', 25)

    def _reply(self, data):
        self.outbuf += data
        self.ready.set()

    def sendall(self, data):
        self.inbuf += data
        while True:
            if self.in_data:
                end = self.inbuf.find(b'\r\n.\r\n')
                if end < 0:
                    return
                body, self.inbuf = self.inbuf[:end], self.inbuf[end+5:]
                self.in_data = False
                if b'message B' in body:
                    self.stall = STALL      # slow final reply for B
                self._reply(b'250 2.0.0 Queued\r\n')
                continue
            line, sep, rest = self.inbuf.partition(b'\r\n')
            if not sep:
                return
            self.inbuf = rest
            verb = line.split(b' ', 1)[0].upper()
            if verb == b'EHLO':
                self._reply(b'250-fake\r\n250 8BITMIME\r\n')
            elif verb == b'DATA':
                self.in_data = True
                self._reply(b'354 Go ahead\r\n')
            elif verb == b'QUIT':
                self._reply(b'221 Bye\r\n')
            else:
                self._reply(b'250 Ok\r\n')

    def recv(self, n):
        self.ready.wait()
        gevent.sleep(0.01 + self.stall)
        self.stall = 0.0
        data, self.outbuf = self.outbuf[:n], self.outbuf[n:]
        if not self.outbuf:
            self.ready.clear()
        return data

    def close(self):
        pass


def make_envelope(name):
    env = Envelope('sender@example.com', ['rcpt%s@example.com' % name])
    env.parse(('From: sender@example.com\r\n\r\nmessage %s\r\n'
               % name).encode('ascii'))
    return env


def main():
    relay = StaticSmtpRelay('fake', 25, pool_size=2, ehlo_as='demo',
                            socket_creator=lambda addr: FakeServerSocket(),
                            command_timeout=30.0)   # idle_timeout=None
    done = {}

    def attempt(name):
        relay.attempt(make_envelope(name), 0)
        done[name] = time.time() - start

    greenlets = [gevent.spawn(attempt, name) for name in 'ABC']
    gevent.sleep(1.0)
    # A finished long ago, B is stalled, C is still queued.
    snapshot = (len(relay.queue), len(relay.pool),
                [c.idle for c in relay.pool], sorted(done))
    print('t=1.0s: queued requests=%d, clients in pool=%d (pool_size=2), '
          'idle flags=%r, finished attempts=%r'
          % snapshot)
    gevent.joinall(greenlets, timeout=20)
    print('connections opened at: %s'
          % ', '.join('#%d@%.2fs' % (n, t) for t, n in opened))
    print('attempts finished at: %s'
          % ', '.join('%s@%.2fs' % (k, v) for k, v in sorted(done.items())))
    if snapshot[0] == 1 and snapshot[1] < 2 and not any(snapshot[2]):
        print('VIOLATION: request C was left waiting although the pool was '
              'below its size and its only client (busy with B, no '
              'connection re-use) would never serve it; it was served only '
              'after that client had gone (%.2fs)' % done.get('C', -1))
        return 1
    print('no violation observed')
    return 0


if __name__ == '__main__':
    sys.exit(main())
