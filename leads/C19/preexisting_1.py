"""Pre-existing C19 violation: tls_immediately handshake has no timeout.

SmtpRelayClient._handshake() calls self.client.encrypt(self.context) outside of
any Timeout when tls_immediately=True.  A server that accepts the TCP
connection but never answers the TLS ClientHello makes the client greenlet
block for ever: the attempt never receives a result although connect_timeout
and command_timeout are both finite, and with pool_size=1 every later attempt
is stranded behind it (the only pool slot is held by the hung client).

Exits 1 when the violation is observed, 0 otherwise.
"""
import os
import sys
sys.path.insert(0, os.getcwd())
import warnings
warnings.simplefilter('ignore')
import logging

import gevent
from gevent import socket as gsocket, ssl

from slimta.relay.smtp.static import StaticSmtpRelay
from slimta.envelope import Envelope

logging.disable(logging.CRITICAL)
gevent.get_hub().exception_stream = None

server_ends = []


def creator(address):
    a, b = gsocket.socketpair()
    server_ends.append(b)       # the "server" never reads nor writes
    return a


def main():
    # gevent.ssl.SSLContext wraps sockets cooperatively (create_default_context
    # would return a blocking stdlib context in a non-monkey-patched process)
    context = ssl.SSLContext(ssl.PROTOCOL_TLS_CLIENT)
    relay = StaticSmtpRelay('mx.example.com', 465, pool_size=1,
                            socket_creator=creator, ehlo_as='demo',
                            context=context, tls_immediately=True,
                            connect_timeout=0.2, command_timeout=0.2,
                            data_timeout=0.2)
    outcomes = {}

    def attempt(i):
        env = Envelope('s{0}@example.com'.format(i),
                       ['r{0}@example.com'.format(i)])
        env.parse(b'Subject: x\r\n\r\nbody\r\n')
        try:
            outcomes[i] = relay.attempt(env, 0)
        except Exception as exc:
            outcomes[i] = exc

    greenlets = [gevent.spawn(attempt, i) for i in range(2)]
    gevent.joinall(greenlets, timeout=5.0)
    stuck = [i for i, g in enumerate(greenlets) if not g.ready()]
    for i, value in sorted(outcomes.items()):
        print('attempt {0}: {1!r}'.format(i, value))
    print('connections opened: {0}; pool: {1}; queued: {2}'.format(
        len(server_ends), len(relay.pool), len(relay.queue)))
    if stuck:
        print('VIOLATION: attempts {0} still have no result after 5s although '
              'all client timeouts are 0.2s (TLS handshake of '
              'tls_immediately is not covered by any timeout)'.format(stuck))
        return 1
    print('ok: every attempt received a result')
    return 0


if __name__ == '__main__':
    sys.exit(main())
