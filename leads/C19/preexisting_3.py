"""Pre-existing C19 violation: closing a TLS connection has no timeout.

SmtpRelayClient._disconnect() protects QUIT with command_timeout but then calls
IO.close(), which for an encrypted socket runs SSLSocket.unwrap() -- a blocking
TLS shutdown that waits for the peer's close_notify -- outside of any Timeout.
A server that answers QUIT but keeps the connection open (or simply hangs at
that point) makes the client greenlet block for ever *after* it delivered its
result.  The dead-locked client keeps its slot in the pool, so with a bounded
pool later attempts are queued and never served: requests wait while no client
able to serve them exists.

Exits 1 when the violation is observed, 0 otherwise.
"""
import os
import sys
sys.path.insert(0, os.getcwd())
import warnings
warnings.simplefilter('ignore')
import datetime
import logging
import tempfile

import gevent
from gevent import socket as gsocket, ssl

from slimta.relay.smtp.static import StaticSmtpRelay
from slimta.envelope import Envelope

logging.disable(logging.CRITICAL)
gevent.get_hub().exception_stream = None


def make_cert(directory):
    from cryptography import x509
    from cryptography.x509.oid import NameOID
    from cryptography.hazmat.primitives import hashes, serialization
    from cryptography.hazmat.primitives.asymmetric import rsa
    key = rsa.generate_private_key(public_exponent=65537, key_size=2048)
    name = x509.Name([x509.NameAttribute(NameOID.COMMON_NAME, u'mx.example.com')])
    now = datetime.datetime(2020, 1, 1)
    cert = (x509.CertificateBuilder().subject_name(name).issuer_name(name)
            .public_key(key.public_key()).serial_number(1)
            .not_valid_before(now)
            .not_valid_after(now + datetime.timedelta(days=36500))
            .sign(key, hashes.SHA256()))
    path = os.path.join(directory, 'cert.pem')
    with open(path, 'wb') as f:
        f.write(key.private_bytes(serialization.Encoding.PEM,
                                  serialization.PrivateFormat.TraditionalOpenSSL,
                                  serialization.NoEncryption()))
        f.write(cert.public_bytes(serialization.Encoding.PEM))
    return path


class Server(object):

    def __init__(self, certfile):
        self.context = ssl.SSLContext(ssl.PROTOCOL_TLS_SERVER)
        self.context.load_cert_chain(certfile)
        self.opened = 0
        self.delivered = []
        self.keep = []

    def creator(self, address):
        a, b = gsocket.socketpair()
        self.opened += 1
        gevent.spawn(self.serve, b)
        return a

    def serve(self, raw):
        sock = self.context.wrap_socket(raw, server_side=True)
        f = sock.makefile('rb')
        sock.sendall(b'220 fake ESMTPS\r\n')
        sender = b''
        while True:
            line = f.readline()
            if not line:
                break
            cmd = line.strip().upper()
            if cmd.startswith(b'EHLO'):
                sock.sendall(b'250-fake\r\n250 PIPELINING\r\n')
            elif cmd.startswith(b'MAIL'):
                sender = line.strip()[10:]
                sock.sendall(b'250 ok\r\n')
            elif cmd == b'DATA':
                sock.sendall(b'354 go\r\n')
                while f.readline() not in (b'.\r\n', b''):
                    pass
                self.delivered.append(sender)
                sock.sendall(b'250 2.0.0 accepted ' + sender + b'\r\n')
            elif cmd == b'QUIT':
                sock.sendall(b'221 bye\r\n')
                # a stalled server: the connection is neither shut down nor
                # closed after the goodbye
                self.keep.append((sock, f))
                return
            else:
                sock.sendall(b'250 ok\r\n')


def main():
    tmp = tempfile.mkdtemp()
    server = Server(make_cert(tmp))
    context = ssl.SSLContext(ssl.PROTOCOL_TLS_CLIENT)
    context.check_hostname = False
    context.verify_mode = ssl.CERT_NONE
    relay = StaticSmtpRelay('mx.example.com', 465, pool_size=1,
                            socket_creator=server.creator, ehlo_as='demo',
                            context=context, tls_immediately=True,
                            connect_timeout=0.3, command_timeout=0.3,
                            data_timeout=0.3)
    outcomes = {}

    def attempt(i):
        env = Envelope('s{0}@example.com'.format(i),
                       ['r{0}@example.com'.format(i)])
        env.parse(b'Subject: x\r\n\r\nbody\r\n')
        try:
            outcomes[i] = relay.attempt(env, 0)
        except Exception as exc:
            outcomes[i] = exc

    greenlets = [gevent.spawn(attempt, i) for i in range(3)]
    gevent.joinall(greenlets, timeout=6.0)
    stuck = [i for i, g in enumerate(greenlets) if not g.ready()]
    for i, value in sorted(outcomes.items()):
        print('attempt {0}: {1!r}'.format(i, value))
    alive = [c for c in relay.pool if not c.dead]
    print('connections opened: {0}; delivered: {1}; queued: {2}; clients in '
          'pool: {3} (alive {4})'.format(server.opened, len(server.delivered),
                                         len(relay.queue), len(relay.pool),
                                         len(alive)))
    if stuck:
        print('VIOLATION: attempts {0} still have no result after 6s although '
              'all client timeouts are 0.3s: the only pool slot is held by a '
              'client blocked in the TLS shutdown of its finished connection'
              .format(stuck))
        return 1
    print('ok: every attempt received a result')
    return 0


if __name__ == '__main__':
    sys.exit(main())
