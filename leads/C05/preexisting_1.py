"""ADJACENT to C05 (outside its stated quantification): DataSender parts that
are cut in the MIDDLE of a line.

C05 only quantifies over part splits at line boundaries; for those the
pristine code round-trips correctly (see preexisting.md).  DataSender itself
however accepts arbitrary parts (and _calc_last_two() goes out of its way to
support a CRLF straddling two parts).  _process_part() treats the first byte
of EVERY part as the start of a line, so a part that starts with '.' in the
middle of a line gets a spurious extra dot which the reader does not remove.

Exits 1 if the round trip is not the identity for such a split, 0 otherwise.
"""
from __future__ import print_function

import os
import sys
import warnings

warnings.simplefilter('ignore')
sys.path.insert(0, os.getcwd())

from slimta.smtp.io import IO  # noqa: E402
from slimta.smtp.datareader import DataReader  # noqa: E402
from slimta.smtp.datasender import DataSender  # noqa: E402


class FakeSocket(object):

    def __init__(self, data):
        self.data = data

    def fileno(self):
        return -1

    def recv(self, size):
        ret, self.data = self.data[:size], self.data[size:]
        return ret


def round_trip(*parts):
    wire = b''.join(DataSender(*parts))
    io = IO(FakeSocket(wire))
    return wire, DataReader(io).recv()


def main():
    rc = 0
    for parts in [(b'www', b'.example.com\r\n'),
                  (b'version 1', b'.', b'2\r\n')]:
        msg = b''.join(parts)
        wire, got = round_trip(*parts)
        ok = (got == msg)
        print('parts %r -> wire %r -> reader %r : %s'
              % (parts, wire, got, 'ok' if ok else 'MISMATCH, expected %r' % msg))
        if not ok:
            rc = 1
    # Same bytes cut at line boundaries only are fine.
    wire, got = round_trip(b'www.example.com\r\n', b'.x\r\n')
    print('line-boundary split -> reader %r' % (got, ))
    return rc


if __name__ == '__main__':
    sys.exit(main())
