"""Pre-existing (pristine) behaviour, only with a size limit configured:
DataReader(max_size=N) accounts raw recv() results, not message bytes, so
whether a message is accepted depends on how the stream was cut into reads.

Run as: cd <repo root> && /venv/bin/python SEED/preexisting_1.py
Exits 1 while the outcome depends on the segmentation, 0 otherwise.
"""
import os
import sys
import warnings

warnings.simplefilter('ignore')
sys.path.insert(0, os.getcwd())

from slimta.smtp import MessageTooBig  # noqa: E402
from slimta.smtp.datasender import DataSender  # noqa: E402
from slimta.smtp.datareader import DataReader  # noqa: E402
from slimta.smtp.io import IO  # noqa: E402


class Sock(object):
    def __init__(self, segments):
        self.segments = list(segments)

    def fileno(self):
        return -1

    def recv(self, n):
        return self.segments.pop(0)


def outcome(prebuffer, segments, max_size):
    sock = Sock(segments)
    io = IO(sock)
    io.recv_buffer = prebuffer
    try:
        data = DataReader(io, max_size).recv()
    except MessageTooBig:
        return ('MessageTooBig', io.recv_buffer + b''.join(sock.segments))
    return (data, io.recv_buffer + b''.join(sock.segments))


def main():
    limit = 20
    small = b'hello\r\n'                 # 7 bytes, far below the limit
    big = b'x' * 60 + b'\r\n'            # 62 bytes, far above the limit
    nxt = b'MAIL FROM:<someone@example.com>\r\n'
    wire_small = b''.join(DataSender(small))
    wire_big = b''.join(DataSender(big))

    results = [
        ('small msg, cut after EOD     ', outcome(b'', [wire_small, nxt], limit)),
        ('small msg, one read with next', outcome(b'', [wire_small + nxt], limit)),
        ('big msg, arrives via recv()  ', outcome(b'', [wire_big], limit)),
        ('big msg, already buffered    ', outcome(wire_big, [], limit)),
    ]
    for name, res in results:
        print(name, '->', res)

    dependent = (results[0][1][0] != results[1][1][0] or
                 results[2][1][0] != results[3][1][0])
    if dependent:
        print('VIOLATION: same wire bytes, different result depending on '
              'how they were cut into reads / pre-buffered')
        sys.exit(1)
    print('OK: outcome independent of segmentation')
    sys.exit(0)


if __name__ == '__main__':
    main()
