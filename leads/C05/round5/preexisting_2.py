"""Pre-existing (pristine) behaviour, only with a size limit (SIZE extension)
configured: when DataReader raises MessageTooBig it stops reading in the
middle of the message.  The stream is NOT consumed up to the end-of-data
line, so the server goes back to the command parser and interprets the rest
of the message body as SMTP commands (a body line "MAIL FROM:<...>" is
executed).

Run as: cd <repo root> && /venv/bin/python SEED/preexisting_2.py
Exits 1 when body lines of the oversized message reach the command handlers.
"""
import os
import sys
import warnings

warnings.simplefilter('ignore')
sys.path.insert(0, os.getcwd())

from slimta.smtp import ConnectionLost, MessageTooBig  # noqa: E402
from slimta.smtp.server import Server  # noqa: E402
from slimta.smtp.datasender import DataSender  # noqa: E402


class Sock(object):
    def __init__(self, segments):
        self.segments = list(segments)
        self.sent = b''

    def fileno(self):
        return -1

    def getpeername(self):
        return ('127.0.0.1', 0)

    def sendall(self, data):
        self.sent += bytes(data)

    def recv(self, n):
        if not self.segments:
            return b''
        return self.segments.pop(0)

    def close(self):
        pass


class Handlers(object):
    def __init__(self):
        self.log = []

    def MAIL(self, reply, address, params):
        self.log.append(('MAIL', address))

    def RCPT(self, reply, address, params):
        self.log.append(('RCPT', address))

    def HAVE_DATA(self, reply, data, err):
        if isinstance(err, MessageTooBig):
            reply.code = '552'
            reply.message = '5.3.4 Message exceeded size limit'
            self.log.append(('DATA', 'too big'))
        else:
            self.log.append(('DATA', data))


def main():
    body = (b'Subject: big\r\n\r\n' + b'x' * 100 + b'\r\n' +
            b'MAIL FROM:<smuggled@example.com>\r\n' +
            b'RCPT TO:<victim@example.com>\r\n' +
            b'bye\r\n')
    wire = b''.join(DataSender(body))
    # The oversized message arrives in two reads; the limit is exceeded by
    # the first one.
    cut = wire.index(b'MAIL FROM')
    segments = [
        b'EHLO client\r\n',
        b'MAIL FROM:<real@example.com>\r\n',
        b'RCPT TO:<rcpt@example.com>\r\n',
        b'DATA\r\n',
        wire[:cut],
        wire[cut:],
        b'QUIT\r\n',
    ]
    sock = Sock(segments)
    handlers = Handlers()
    server = Server(sock, handlers)
    server.extensions.add('SIZE', 50)
    try:
        server.handle()
    except ConnectionLost:
        pass

    for entry in handlers.log:
        print('handler call:', entry)
    print('server replies:')
    for line in sock.sent.splitlines():
        print('   ', line)

    if ('MAIL', 'smuggled@example.com') in handlers.log:
        print('VIOLATION: after MessageTooBig the reader left the rest of '
              'the message on the stream and the server executed body lines '
              'as commands')
        sys.exit(1)
    print('OK: oversized message was consumed up to its end-of-data line')
    sys.exit(0)


if __name__ == '__main__':
    main()
