"""Pre-existing (pristine) behaviour, OUTSIDE the quantification of C05 (the
part boundary is inside a line, not at a line boundary): DataSender dot-stuffs
the first byte of every part, even when the part continues a line, so the
reader hands back an extra '.'.

Run as: cd <repo root> && /venv/bin/python SEED/preexisting_3.py
Exits 1 when a mid-line part boundary changes the content.
"""
import os
import sys
import warnings

warnings.simplefilter('ignore')
sys.path.insert(0, os.getcwd())

from slimta.smtp.datasender import DataSender  # noqa: E402
from slimta.smtp.datareader import DataReader  # noqa: E402
from slimta.smtp.io import IO  # noqa: E402


class Sock(object):
    def __init__(self, segments):
        self.segments = list(segments)

    def fileno(self):
        return -1

    def recv(self, n):
        return self.segments.pop(0)


def main():
    parts = [b'see example', b'.com\r\n']
    msg = b''.join(parts)
    wire = b''.join(DataSender(*parts))
    data = DataReader(IO(Sock([wire]))).recv()
    print('parts :', parts)
    print('wire  :', wire)
    print('reader:', data)
    if data != msg:
        print('VIOLATION (mid-line split): %r != %r' % (data, msg))
        sys.exit(1)
    print('OK')
    sys.exit(0)


if __name__ == '__main__':
    main()
