"""Pre-existing C01 violation 1: bounded store_pool + relay_pool deadlock.

Queue._dequeue runs inside a store_pool greenlet and blocks there until the
relay_pool has a free slot; Queue._attempt runs inside a relay_pool greenlet
and, after a transient failure, blocks there until the store_pool has a free
slot (to spawn _retry_later).  With both pools full the two wait for each
other for ever: no message is retried, delivered or bounced any more.

Exit status 1 = violation observed (pristine), 0 = not observed (fixed).
"""
import os
import sys
import warnings

sys.path.insert(0, os.getcwd())
warnings.simplefilter('ignore')

import gevent  # noqa: E402

from slimta.envelope import Envelope  # noqa: E402
from slimta.queue import Queue  # noqa: E402
from slimta.queue.dict import DictStorage  # noqa: E402
from slimta.relay import Relay, TransientRelayError  # noqa: E402


class OnceFailingRelay(Relay):
    """First attempt of every message fails transiently, the next works."""

    def __init__(self):
        super(OnceFailingRelay, self).__init__()
        self.log = []
        self.delivered = set()

    def attempt(self, envelope, attempts):
        self.log.append((envelope.recipients[0], attempts))
        gevent.sleep(0.05)
        if attempts < 1:
            raise TransientRelayError('try again later')
        self.delivered.update(envelope.recipients)


def main():
    store = DictStorage()
    relay = OnceFailingRelay()
    queue = Queue(store, relay, backoff=lambda env, n: 0 if n < 5 else None,
                  store_pool=1, relay_pool=1)
    queue.start()
    for rcpt in ('a@example.com', 'b@example.com'):
        env = Envelope('sender@example.com', [rcpt])
        env.parse(b'From: sender@example.com\r\n\r\nbody\r\n')
        queue.enqueue(env)
    gevent.sleep(5.0)
    print('relay attempts:', relay.log)
    print('delivered:', sorted(relay.delivered))
    print('still stored: {0}, store_pool free: {1}, relay_pool free: {2}'
          .format(len(store.env_db), queue.store_pool.free_count(),
                  queue.relay_pool.free_count()))
    print('store_pool holds:', [g._run.__name__ for g in queue.store_pool])
    print('relay_pool holds:', [g._run.__name__ for g in queue.relay_pool])
    if len(relay.delivered) < 2:
        print('VIOLATION: 5 s after a backoff of 0 s the messages are still '
              'stored but nothing retries them (pools deadlocked)')
        return 1
    print('ok: both messages were retried and delivered')
    return 0


if __name__ == '__main__':
    sys.exit(main())
