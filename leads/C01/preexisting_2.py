"""Pre-existing C01 violation 2: store_pool self-deadlock when retries run out.

After a whole-message transient failure Queue._attempt runs _retry_later
*inside* a store_pool greenlet.  When the backoff function returns None,
_retry_later calls self._remove(id), i.e. store_pool.spawn(...), while it is
itself occupying a slot.  With store_pool=1 (or N messages giving up at the
same time with store_pool=N) that spawn blocks for ever: the message is never
removed, the bounce can never be written (store.write also needs the pool),
and every later enqueue() blocks as well.

Exit status 1 = violation observed (pristine), 0 = not observed (fixed).
"""
import os
import sys
import warnings

sys.path.insert(0, os.getcwd())
warnings.simplefilter('ignore')

import gevent  # noqa: E402

from slimta.envelope import Envelope  # noqa: E402
from slimta.queue import Queue  # noqa: E402
from slimta.queue.dict import DictStorage  # noqa: E402
from slimta.relay import Relay, TransientRelayError  # noqa: E402


class FailingRelay(Relay):

    def __init__(self):
        super(FailingRelay, self).__init__()
        self.bounces = []

    def attempt(self, envelope, attempts):
        if not envelope.sender:
            self.bounces.append(envelope)
            return None
        raise TransientRelayError('mailbox busy')


def main():
    store = DictStorage()
    relay = FailingRelay()
    # Default backoff: never retry, i.e. bounce after the first failure.
    queue = Queue(store, relay, store_pool=1)
    queue.start()
    env = Envelope('sender@example.com', ['rcpt@example.com'])
    env.parse(b'From: sender@example.com\r\n\r\nbody\r\n')
    (_, msg_id), = queue.enqueue(env)
    gevent.sleep(3.0)
    stored = msg_id in store.env_db
    print('message still stored: {0}; bounces delivered: {1}; '
          'store_pool holds: {2}'.format(
              stored, len(relay.bounces),
              [g._run.__name__ for g in queue.store_pool]))
    if stored or not relay.bounces:
        print('VIOLATION: the backoff policy granted no retry, but the '
              'recipient was neither bounced nor is the message retried '
              '(_retry_later is blocked on its own store_pool)')
        return 1
    print('ok: message bounced and removed')
    return 0


if __name__ == '__main__':
    sys.exit(main())
