"""Pre-existing C01 violation 5: per-recipient results that do not settle every
recipient are read as 'everything delivered'.

Queue._handle_partial_relay only looks at the entries it recognises.  A
recipient that is missing from the returned mapping, that lies beyond the end
of a returned sequence, or whose value is neither None/Reply nor a
Permanent/TransientRelayError (e.g. some other exception object the relay
collected for that recipient) is put in none of delivered/permfails/tempfails.
If no *other* recipient failed transiently the message is removed from storage:
the unsettled recipient is neither delivered, retried nor bounced.

Exit status 1 = violation observed (pristine), 0 = not observed (fixed).
"""
import os
import sys
import warnings

sys.path.insert(0, os.getcwd())
warnings.simplefilter('ignore')

import gevent  # noqa: E402

from slimta.envelope import Envelope  # noqa: E402
from slimta.queue import Queue  # noqa: E402
from slimta.queue.dict import DictStorage  # noqa: E402
from slimta.relay import Relay  # noqa: E402

A, B = 'a@example.com', 'b@example.com'

CASES = [
    ('mapping without an entry for b@', lambda: {A: None}),
    ('sequence shorter than the recipient list', lambda: [None]),
    ('mapping with a non-relay exception for b@',
     lambda: {A: None, B: OSError(111, 'Connection refused')}),
]


class CannedRelay(Relay):

    def __init__(self, make_result):
        super(CannedRelay, self).__init__()
        self.make_result = make_result
        self.attempts = 0
        self.bounces = []

    def attempt(self, envelope, attempts):
        if not envelope.sender:
            self.bounces.append(envelope)
            return None
        self.attempts += 1
        return self.make_result()


def run_case(name, make_result):
    store = DictStorage()
    relay = CannedRelay(make_result)
    queue = Queue(store, relay, backoff=lambda env, n: 0.1 if n < 3 else None)
    queue.start()
    env = Envelope('sender@example.com', [A, B])
    env.parse(b'From: sender@example.com\r\n\r\nbody\r\n')
    (_, msg_id), = queue.enqueue(env)
    gevent.sleep(1.0)
    queue.kill()
    stored = msg_id in store.env_db
    bounced = any(B.encode('ascii') in b.flatten()[1] for b in relay.bounces)
    lost = not stored and not bounced
    print('{0}: attempts={1} stored={2} b@ bounced={3} -> {4}'.format(
        name, relay.attempts, stored, bounced,
        'b@ LOST' if lost else 'ok'))
    return lost


def main():
    lost = [name for name, make_result in CASES
            if run_case(name, make_result)]
    if lost:
        print('VIOLATION: b@ was never reported delivered, yet the message '
              'left the queue without retry or bounce in: {0}'.format(lost))
        return 1
    print('ok')
    return 0


if __name__ == '__main__':
    sys.exit(main())
