"""Pre-existing C01 violation 3: a relay that lets a gevent.Timeout escape.

gevent.Timeout derives from BaseException, not Exception.  Queue._attempt()
handles TransientRelayError, PermanentRelayError and ``Exception`` -- an
"unexpected relay exception" that happens to be a gevent.Timeout (the usual
result of ``with gevent.Timeout(n): ...`` inside a custom relay, or of a
Timeout armed by a library the relay calls) passes all three handlers.  The
attempt greenlet dies, nothing schedules a retry, and the id stays in
Queue.active_ids, so even a later announcement / flush() of the message is
ignored: the message sits in storage and is never tried again while the
process lives; it is not bounced either.

Exits 1 when the message is stuck, 0 when it is retried (and delivered by
the second attempt).
"""
import os
import sys
sys.path.insert(0, os.getcwd())

import gevent

from slimta.queue import Queue
from slimta.queue.dict import DictStorage
from slimta.relay import Relay
from slimta.envelope import Envelope


class SlowBackendRelay(Relay):
    def __init__(self):
        super(SlowBackendRelay, self).__init__()
        self.calls = 0
        self.delivered = []

    def attempt(self, envelope, attempts):
        self.calls += 1
        if self.calls == 1:
            with gevent.Timeout(0.05):      # first try: backend too slow
                gevent.sleep(1.0)
        self.delivered.append(list(envelope.recipients))


def main():
    store = DictStorage()
    relay = SlowBackendRelay()
    queue = Queue(store, relay, backoff=lambda env, n: 0.1)
    queue.start()
    env = Envelope('sender@example.org', ['rcpt@example.com'])
    env.parse(b'From: sender@example.org\r\n\r\nbody\r\n')
    (_, id), = queue.enqueue(env)
    gevent.sleep(1.0)
    queue.flush()
    gevent.sleep(0.5)
    print('relay attempts         :', relay.calls)
    print('delivered              :', relay.delivered)
    print('still in storage       :', id in store.env_db)
    print('on the retry timetable :', id in queue.queued_ids,
          ' marked active:', id in queue.active_ids)
    if relay.delivered and id not in store.env_db:
        print('OK: the message was retried and delivered')
        return 0
    print('VIOLATION: after the escaped gevent.Timeout the message is in '
          'storage but is never retried nor bounced')
    return 1


if __name__ == '__main__':
    code = main()
    sys.stdout.flush()
    os._exit(code)
