"""Pre-existing C01 violation 4: recipients a per-recipient result does not
mention are dropped.

Queue._handle_partial_relay() decides between "retry" and "remove the
message" only by looking at whether some recipient failed transiently, not
by checking that every recipient was settled.  If the mapping (or sequence)
returned by the relay does not cover a recipient -- a sequence shorter than
the recipient list, a mapping built only from the answers the relay actually
got, an empty mapping, or a value that is none of None/Reply/Permanent/
TransientRelayError -- that recipient is neither delivered nor failed, and
yet the message is removed from storage: the recipient is lost without a
bounce.  (If another recipient happens to fail transiently in the same
attempt, the very same uncovered recipient is kept and retried, which shows
the removal is an oversight rather than a contract.)

Exits 1 when an unsettled recipient is dropped, 0 otherwise.
"""
import os
import sys
sys.path.insert(0, os.getcwd())

import gevent

from slimta.queue import Queue
from slimta.queue.dict import DictStorage
from slimta.relay import Relay
from slimta.smtp.reply import Reply
from slimta.envelope import Envelope


class PartialAnswerRelay(Relay):
    """Got an answer for the first recipient only (e.g. the remote side
    stopped answering); reports what it knows."""

    def __init__(self, kind):
        super(PartialAnswerRelay, self).__init__()
        self.kind = kind
        self.delivered = []

    def attempt(self, envelope, attempts):
        first = envelope.recipients[0]
        self.delivered.append(first)
        if self.kind == 'mapping':
            return {first: Reply('250', '2.0.0 ok')}
        else:
            return [Reply('250', '2.0.0 ok')]


def scenario(kind):
    store = DictStorage()
    relay = PartialAnswerRelay(kind)
    bounces = []

    def bounce_factory(envelope, reply):
        bounces.append(list(envelope.recipients))
        return None

    queue = Queue(store, relay, backoff=lambda env, n: 3600.0,
                  bounce_factory=bounce_factory)
    env = Envelope('sender@example.org',
                   ['one@example.com', 'two@example.com'])
    env.parse(b'From: sender@example.org\r\n\r\nbody\r\n')
    (_, id), = queue.enqueue(env)
    gevent.sleep(0.3)
    in_store = id in store.env_db
    left = list(store.env_db[id].recipients) if in_store else []
    print('%-8s delivered=%r bounced=%r still stored=%r outstanding=%r'
          % (kind, relay.delivered, bounces, in_store, left))
    settled = set(relay.delivered) | set(sum(bounces, []))
    return 'two@example.com' in settled or 'two@example.com' in left


def main():
    ok = [scenario('mapping'), scenario('sequence')]
    if all(ok):
        print('OK: the unsettled recipient is kept')
        return 0
    print('VIOLATION: two@example.com was neither delivered nor bounced and '
          'is gone from storage')
    return 1


if __name__ == '__main__':
    code = main()
    sys.stdout.flush()
    os._exit(code)
