"""Pre-existing C01 violation 1: store pool / relay pool deadlock.

Queue(store_pool=1, relay_pool=1).  Message A is being attempted (it holds
the only relay-pool slot).  Message B becomes due: Queue._dequeue(B) runs in
the only store-pool slot and then blocks in _pool_spawn('relay', ...) while
still holding that slot.  When A's attempt finishes (success, failure, it
does not matter) Queue._attempt() needs the store pool (_remove /
_retry_later are spawned there) and blocks *inside the relay pool slot*.
Neither slot is ever released: A is never removed/retried/bounced, B is never
attempted, and nothing else the queue holds is ever retried again.

Exits 1 when the deadlock is observed, 0 when both messages reach their
final disposition.
"""
import os
import sys
sys.path.insert(0, os.getcwd())

import time
import gevent
from gevent.event import Event

from slimta.queue import Queue
from slimta.queue.dict import DictStorage
from slimta.relay import Relay
from slimta.envelope import Envelope


class GatedRelay(Relay):
    def __init__(self):
        super(GatedRelay, self).__init__()
        self.gate = Event()
        self.started = []
        self.delivered = []

    def attempt(self, envelope, attempts):
        self.started.append(envelope.recipients[0])
        if envelope.recipients[0] == 'a@example.com':
            self.gate.wait()          # a slow remote server
        self.delivered.append(envelope.recipients[0])


def make_env(rcpt):
    env = Envelope('sender@example.org', [rcpt])
    env.parse(b'From: sender@example.org\r\n\r\nbody\r\n')
    return env


def main():
    store = DictStorage()
    relay = GatedRelay()
    # B is already in storage and due (e.g. left over from an earlier run or
    # waiting for its retry time).
    id_b = store.write(make_env('b@example.com'), time.time() - 10)

    queue = Queue(store, relay, backoff=lambda env, n: 1.0,
                  store_pool=1, relay_pool=1)
    (_, id_a), = queue.enqueue(make_env('a@example.com'))
    gevent.sleep(0.05)
    assert relay.started == ['a@example.com']

    queue.start()          # loads B, dispatches it: _dequeue(B) waits for a
    gevent.sleep(0.2)      # relay slot while sitting in the store slot
    relay.gate.set()       # A's delivery completes now
    gevent.sleep(2.0)

    print('relay attempts started :', relay.started)
    print('relay deliveries        :', relay.delivered)
    print('still in storage        :',
          [('A' if i == id_a else 'B') for i in store.env_db])
    print('store pool free slots   :', queue.store_pool.free_count(),
          ' relay pool free slots:', queue.relay_pool.free_count())
    ok = (relay.delivered == ['a@example.com', 'b@example.com']
          and not store.env_db)
    if ok:
        print('OK: both messages delivered and removed')
        return 0
    print('VIOLATION: the queue is deadlocked; A was delivered but is never '
          'removed, B is never attempted')
    return 1


if __name__ == '__main__':
    code = main()
    sys.stdout.flush()
    os._exit(code)
