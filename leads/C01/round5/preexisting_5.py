"""Pre-existing C01 violation 5 (needs a storage fault): a bounce whose
store.write() fails with QueueError is silently dropped.

QueueStorage.write() is documented to raise QueueError when the message
cannot be stored.  Queue.enqueue() does not raise such an error, it returns
it in the result list so that the caller (an Edge) can answer 4xx and the
remote client tries again.  Queue._bounce() is also a caller of enqueue(),
but it throws the result list away.  By then the original message has
already been removed from storage (_perm_fail() removes first), so after one
failed write nobody knows about the failure any more: the sender is never
told, although the recipients "failed for good".

Exits 1 when no bounce ever reaches the sender, 0 otherwise.
"""
import os
import sys
sys.path.insert(0, os.getcwd())

import gevent

from slimta.queue import Queue, QueueError
from slimta.queue.dict import DictStorage
from slimta.relay import Relay, PermanentRelayError
from slimta.envelope import Envelope


class HiccupStorage(DictStorage):
    """The second write() fails once (disk full, redis failover, S3 503)."""

    def __init__(self):
        super(HiccupStorage, self).__init__()
        self.writes = 0

    def write(self, envelope, timestamp):
        self.writes += 1
        if self.writes == 2:
            raise QueueError('storage temporarily unavailable')
        return super(HiccupStorage, self).write(envelope, timestamp)


class RejectingRelay(Relay):
    def __init__(self):
        super(RejectingRelay, self).__init__()
        self.bounces = []

    def attempt(self, envelope, attempts):
        if envelope.sender == '':
            self.bounces.append(list(envelope.recipients))
            return None
        raise PermanentRelayError('no such user')


def main():
    store = HiccupStorage()
    relay = RejectingRelay()
    queue = Queue(store, relay, backoff=lambda env, n: 0.1)
    queue.start()
    env = Envelope('sender@example.org', ['nobody@example.com'])
    env.parse(b'From: sender@example.org\r\n\r\nbody\r\n')
    (_, id), = queue.enqueue(env)
    gevent.sleep(2.0)
    print('store.write() calls         :', store.writes)
    print('original still in storage   :', id in store.env_db)
    print('messages in storage         :', len(store.env_db))
    print('bounces delivered to sender :', relay.bounces)
    if relay.bounces == [['sender@example.org']] or id in store.env_db:
        print('OK: the failure is (or can still be) reported to the sender')
        return 0
    print('VIOLATION: nobody@example.com failed for good, the message is '
          'gone from storage and sender@example.org was never told')
    return 1


if __name__ == '__main__':
    code = main()
    sys.stdout.flush()
    os._exit(code)
