"""Pre-existing C01 violation 2: the cloud (S3) backend cannot re-load its
messages, so mail left in storage is never retried after a restart.

slimta.cloudstorage.aws.SimpleStorageService.list_messages() does

    timestamp, attempts = self.get_message_meta(id)

but get_message_meta() returns a *dict* with 1..3 keys.  For a message that
was never attempted the dict has one key -> ValueError, Queue._load_all()
dies and nothing is loaded.  For a message with one failed attempt the dict
has two keys -> the *key names* are unpacked and ('timestamp', id) is put on
the timetable; comparing time.time() with the string 'timestamp' then kills
the Queue greenlet itself.

boto is not importable in this environment (and there is no network), so
the two boto classes the module imports are replaced by minimal in-memory
stand-ins; the fake bucket is deliberately lenient (metadata persists,
get_key() accepts a key object or a name) so that only slimta's own logic is
exercised.

Exits 1 when a stored message is not delivered after a restart, 0 otherwise.
"""
import os
import sys
import types
sys.path.insert(0, os.getcwd())

# --- minimal stand-ins for boto -------------------------------------------
boto = types.ModuleType('boto')
boto_s3 = types.ModuleType('boto.s3')
boto_s3_key = types.ModuleType('boto.s3.key')
boto_sqs = types.ModuleType('boto.sqs')
boto_sqs_message = types.ModuleType('boto.sqs.message')


class Key(object):
    def __init__(self, bucket):
        self.bucket = bucket
        self.key = None
        self.metadata = {}
        self.contents = None

    def set_metadata(self, name, value):
        self.metadata[name] = value

    def get_metadata(self, name):
        return self.metadata.get(name)

    def set_contents_from_string(self, data):
        self.contents = data
        self.bucket.objects[self.key] = self

    def get_contents_as_string(self):
        return self.contents

    def delete(self):
        self.bucket.objects.pop(self.key, None)


class Message(object):
    def set_body(self, body):
        self.body = body

    def get_body(self):
        return self.body


boto_s3_key.Key = Key
boto_sqs_message.Message = Message
sys.modules.update({'boto': boto, 'boto.s3': boto_s3,
                    'boto.s3.key': boto_s3_key, 'boto.sqs': boto_sqs,
                    'boto.sqs.message': boto_sqs_message})


class FakeBucket(object):
    def __init__(self):
        self.objects = {}

    def get_key(self, name):
        if isinstance(name, Key):
            name = name.key
        return self.objects.get(name)

    def list(self, prefix=''):
        return [k for n, k in sorted(self.objects.items())
                if n.startswith(prefix)]
# ---------------------------------------------------------------------------

import gevent

from slimta.queue import Queue
from slimta.cloudstorage import CloudStorage
from slimta.cloudstorage.aws import SimpleStorageService
from slimta.relay import Relay, TransientRelayError
from slimta.envelope import Envelope


class RecordingRelay(Relay):
    def __init__(self, fail=False):
        super(RecordingRelay, self).__init__()
        self.fail = fail
        self.delivered = []

    def attempt(self, envelope, attempts):
        if self.fail:
            raise TransientRelayError('try later')
        self.delivered.append(list(envelope.recipients))


def make_env(rcpt):
    env = Envelope('sender@example.org', [rcpt])
    env.parse(b'From: sender@example.org\r\n\r\nbody\r\n')
    return env


def scenario(label, first_attempt_fails):
    bucket = FakeBucket()
    store = CloudStorage(SimpleStorageService(bucket))

    # First life of the process: the message is accepted...
    if first_attempt_fails:
        q1 = Queue(store, RecordingRelay(fail=True),
                   backoff=lambda env, n: 0.0)
    else:
        q1 = Queue(store)          # reception only, no relay in this process
    (_, id), = q1.enqueue(make_env('rcpt@example.com'))
    gevent.sleep(0.1)
    assert not isinstance(id, Exception), id
    assert bucket.get_key(id) is not None

    # ...second life: a queue with a working relay is started on the same
    # storage and must pick the message up.
    relay = RecordingRelay()
    q2 = Queue(store, relay, backoff=lambda env, n: 0.0)
    q2.start()
    gevent.sleep(1.0)
    delivered = relay.delivered == [['rcpt@example.com']]
    print('%s: delivered after restart: %s; queue greenlet alive: %s; '
          'still in bucket: %s'
          % (label, delivered, not q2.dead, bucket.get_key(id) is not None))
    if q2.exception:
        print('   queue greenlet died with: %r' % (q2.exception,))
    return delivered


def main():
    ok1 = scenario('never attempted message ', False)
    ok2 = scenario('message with 1 failed attempt', True)
    if ok1 and ok2:
        print('OK: stored messages are loaded and delivered after a restart')
        return 0
    print('VIOLATION: messages in S3 storage are never loaded again '
          '(SimpleStorageService.list_messages unpacks a dict)')
    return 1


if __name__ == '__main__':
    code = main()
    sys.stdout.flush()
    os._exit(code)
