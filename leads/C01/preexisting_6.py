"""Pre-existing C01 violation 6: a failure Reply without message text.

RelayError accepts any Reply, e.g. PermanentRelayError('rejected',
Reply('550')) whose .message is None.
 (a) permanent failure: Queue._perm_fail removes the message and spawns
     _bounce; Bounce.__init__ raises AttributeError ('NoneType' object has no
     attribute 'encode') while rendering the reply, so no bounce is ever
     queued: the sender is never told.
 (b) transient failure and the backoff function finally returns None:
     `reply.message += ' (Too many retries)'` in Queue._retry_later raises
     TypeError before the bounce and the removal: the message stays in storage
     with its id stuck in active_ids -- never retried, never bounced.

Exit status 1 = violation observed (pristine), 0 = not observed (fixed).
"""
import os
import sys
import warnings

sys.path.insert(0, os.getcwd())
warnings.simplefilter('ignore')

import gevent  # noqa: E402

from slimta.envelope import Envelope  # noqa: E402
from slimta.queue import Queue  # noqa: E402
from slimta.queue.dict import DictStorage  # noqa: E402
from slimta.relay import Relay, PermanentRelayError, \
    TransientRelayError  # noqa: E402
from slimta.smtp.reply import Reply  # noqa: E402


class FailingRelay(Relay):

    def __init__(self, exc_class, code):
        super(FailingRelay, self).__init__()
        self.exc_class = exc_class
        self.code = code
        self.attempts = 0
        self.bounces = []

    def attempt(self, envelope, attempts):
        if not envelope.sender:
            self.bounces.append(envelope)
            return None
        self.attempts += 1
        raise self.exc_class('rejected', Reply(self.code))


def run_case(name, exc_class, code):
    store = DictStorage()
    relay = FailingRelay(exc_class, code)
    queue = Queue(store, relay, backoff=lambda env, n: 0.05 if n < 3 else None)
    queue.start()
    env = Envelope('sender@example.com', ['rcpt@example.com'])
    env.parse(b'From: sender@example.com\r\n\r\nbody\r\n')
    stderr, sys.stderr = sys.stderr, open(os.devnull, 'w')
    try:
        (_, msg_id), = queue.enqueue(env)
        gevent.sleep(1.5)
    finally:
        sys.stderr = stderr
    queue.kill()
    stored = msg_id in store.env_db
    bad = not relay.bounces
    print('{0}: attempts={1} still stored={2} active_ids={3} bounces={4} '
          '-> {5}'.format(name, relay.attempts, stored, len(queue.active_ids),
                          len(relay.bounces), 'NOT BOUNCED' if bad else 'ok'))
    return bad


def main():
    bad = [run_case('(a) permanent, Reply("550")', PermanentRelayError, '550'),
           run_case('(b) transient, Reply("450"), retries exhausted',
                    TransientRelayError, '450')]
    if any(bad):
        print('VIOLATION: the recipient failed for good but the sender never '
              'gets a bounce (and in (b) the message is stuck in storage)')
        return 1
    print('ok')
    return 0


if __name__ == '__main__':
    sys.exit(main())
