"""Pre-existing C01 violation 3: the announcement of a freshly written message
overtakes Queue.enqueue().

Same setting as SEED/2/demo.py (RedisStorage on an in-memory stand-in for the
redis server, a relay that settles a@, b@, c@ over three attempts), but here
the reply to the write pipeline (HMSET + RPUSH) takes a little longer to reach
enqueue() than the BLPOP reply takes to reach the queue's wait() listener.

enqueue() marks the id active only after store.write() has returned and does
not look at queued_ids, so the announcement is accepted into the timetable
and the message is attempted by enqueue() all the same.  _dequeue() then
fetches the envelope (slow reply) and checks active_ids only afterwards; the
first attempt has meanwhile finished with a partial result, so the stale,
complete envelope is dispatched once more and the positions it reports are
merged behind those of the first attempt: c@ (which only ever failed
transiently) is struck off the stored message, and the message is removed
with c@ neither delivered nor bounced (a@ is delivered twice).

Exit status 1 = violation observed (pristine), 0 = not observed (fixed).
"""
import os
import sys
import fnmatch
import warnings
from collections import defaultdict

sys.path.insert(0, os.getcwd())
warnings.simplefilter('ignore')

import gevent  # noqa: E402
from gevent.queue import Queue as GQueue  # noqa: E402

from slimta.envelope import Envelope  # noqa: E402
from slimta.queue import Queue  # noqa: E402
from slimta.redisstorage import RedisStorage  # noqa: E402
from slimta.relay import Relay, TransientRelayError  # noqa: E402


ANNOUNCE_LATENCY = 0.01   # BLPOP reply reaching the listener
WRITE_REPLY_LATENCY = 0.05  # pipeline reply reaching enqueue()
RELAY_TIME = 0.15         # duration of one delivery attempt
GET_LATENCY = 0.6         # HMGET reply (the pickled envelope) reaching us
BACKOFF = 1.0


def _b(value):
    if isinstance(value, bytes):
        return value
    return str(value).encode('ascii')


class FakePipeline(object):

    def __init__(self, server):
        self.server = server
        self.calls = []

    def __getattr__(self, name):
        def queue_call(*args, **kwargs):
            self.calls.append((name, args, kwargs))
            return self
        return queue_call

    def execute(self):
        calls, self.calls = self.calls, []
        replies = [getattr(self.server, name)(*args, **kwargs)
                   for name, args, kwargs in calls]
        gevent.sleep(WRITE_REPLY_LATENCY)   # the reply is in flight
        return replies


class FakeRedis(object):
    """The handful of redis commands RedisStorage uses, with bytes replies
    like redis-py, executed atomically like the single-threaded server."""

    def __init__(self):
        self.hashes = {}
        self.lists = defaultdict(GQueue)

    def hsetnx(self, key, field, value):
        h = self.hashes.setdefault(key, {})
        if field in h:
            return 0
        h[field] = _b(value)
        return 1

    def hset(self, key, field, value):
        self.hashes.setdefault(key, {})[field] = _b(value)
        return 1

    def hmset(self, key, mapping):
        for field, value in mapping.items():
            self.hset(key, field, value)
        return True

    def hget(self, key, field):
        return self.hashes.get(key, {}).get(field)

    def hmget(self, key, *fields):
        h = self.hashes.get(key, {})
        reply = [h.get(field) for field in fields]
        gevent.sleep(GET_LATENCY)       # the (large) reply is in flight
        return reply

    def hincrby(self, key, field, amount):
        h = self.hashes.setdefault(key, {})
        new = int(h.get(field, b'0')) + amount
        h[field] = _b(new)
        return new

    def delete(self, key):
        return 1 if self.hashes.pop(key, None) is not None else 0

    def keys(self, pattern):
        return [k.encode('ascii') for k in self.hashes
                if fnmatch.fnmatchcase(k, pattern)]

    def rpush(self, key, value):
        self.lists[key].put(value)
        return 1

    def blpop(self, keys, timeout=0):
        value = self.lists[keys[0]].get()
        gevent.sleep(ANNOUNCE_LATENCY)  # the reply is in flight
        return (keys[0].encode('ascii'), value)

    def pipeline(self):
        return FakePipeline(self)


class ScriptedRelay(Relay):

    needed_tries = {'a@example.com': 1, 'b@example.com': 2,
                    'c@example.com': 3}

    def __init__(self):
        super(ScriptedRelay, self).__init__()
        self.tries = defaultdict(int)
        self.delivered = defaultdict(int)
        self.bounces = []
        self.attempt_log = []

    def attempt(self, envelope, attempts):
        if not envelope.sender:
            self.bounces.append(envelope)
            return None
        self.attempt_log.append((attempts, list(envelope.recipients)))
        gevent.sleep(RELAY_TIME)
        results = {}
        for rcpt in envelope.recipients:
            self.tries[rcpt] += 1
            if self.tries[rcpt] >= self.needed_tries[rcpt]:
                self.delivered[rcpt] += 1
                results[rcpt] = None
            else:
                results[rcpt] = TransientRelayError('try again later')
        return results


def main():
    rcpts = ['a@example.com', 'b@example.com', 'c@example.com']
    env = Envelope('sender@example.com', list(rcpts))
    env.parse(b'From: sender@example.com\r\nSubject: demo\r\n\r\nbody\r\n')

    store = RedisStorage(prefix='slimta:')
    server = store.redis = FakeRedis()
    relay = ScriptedRelay()

    def backoff(envelope, attempts):
        return BACKOFF if attempts < 8 else None

    queue = Queue(store, relay, backoff=backoff)
    queue.start()
    gevent.sleep(0.1)
    results = queue.enqueue(env)
    msg_id = results[0][1]
    assert isinstance(msg_id, str), results
    key = 'slimta:' + msg_id

    with gevent.Timeout(40.0, False):
        while key in server.hashes:
            gevent.sleep(0.05)
    gevent.sleep(0.3)
    still_stored = key in server.hashes
    outstanding = []
    if still_stored:
        outstanding = store.get(msg_id)[0].recipients
    queue.kill()

    print('relay attempts (attempts, recipients):')
    for entry in relay.attempt_log:
        print('   ', entry)
    problems = []
    for rcpt in rcpts:
        bounced = any(rcpt.encode('ascii') in b.flatten()[1]
                      for b in relay.bounces)
        print('{0}: delivered x{1}, bounced={2}, still_queued={3}'.format(
            rcpt, relay.delivered[rcpt], bounced, rcpt in outstanding))
        if not (relay.delivered[rcpt] or bounced or rcpt in outstanding):
            problems.append(rcpt)

    if problems:
        print('VIOLATION: {0} accepted by the queue but never delivered, '
              'never bounced and no longer in storage (message stored: {1})'
              .format(problems, still_stored))
        return 1
    print('ok: every recipient reached a final disposition')
    return 0


if __name__ == '__main__':
    sys.exit(main())
