"""Pre-existing C01 violation 4: a relay that lets a gevent.Timeout escape.

gevent.Timeout derives from BaseException, not Exception.  A custom relay
that guards its I/O with `with gevent.Timeout(n): ...` and does not catch it
(RelayPool-based relays convert it, a hand-written one need not) makes
Queue._attempt die without passing through any of its except clauses: the
message stays in storage, but its id stays in active_ids for ever, so it is
never put on the timetable again -- no retry, no bounce, until the process is
restarted.

Exit status 1 = violation observed (pristine), 0 = not observed (fixed).
"""
import os
import sys
import warnings

sys.path.insert(0, os.getcwd())
warnings.simplefilter('ignore')

import gevent  # noqa: E402

from slimta.envelope import Envelope  # noqa: E402
from slimta.queue import Queue  # noqa: E402
from slimta.queue.dict import DictStorage  # noqa: E402
from slimta.relay import Relay  # noqa: E402


class SlowOnceRelay(Relay):

    def __init__(self):
        super(SlowOnceRelay, self).__init__()
        self.log = []
        self.delivered = []
        self.bounces = []

    def attempt(self, envelope, attempts):
        if not envelope.sender:
            self.bounces.append(envelope)
            return None
        self.log.append(attempts)
        with gevent.Timeout(0.1):
            if attempts == 0:
                gevent.sleep(5.0)       # remote end hangs on the first try
        self.delivered.extend(envelope.recipients)


def main():
    store = DictStorage()
    relay = SlowOnceRelay()
    queue = Queue(store, relay, backoff=lambda env, n: 0.1 if n < 5 else None)
    queue.start()
    env = Envelope('sender@example.com', ['rcpt@example.com'])
    env.parse(b'From: sender@example.com\r\n\r\nbody\r\n')
    stderr, sys.stderr = sys.stderr, open(os.devnull, 'w')
    try:
        (_, msg_id), = queue.enqueue(env)
        gevent.sleep(3.0)
    finally:
        sys.stderr = stderr
    print('attempts seen by the relay: {0}; delivered: {1}; bounces: {2}; '
          'still stored: {3}; active_ids: {4}; timetable: {5}'.format(
              relay.log, relay.delivered, len(relay.bounces),
              msg_id in store.env_db, len(queue.active_ids), queue.queued))
    if not relay.delivered and not relay.bounces:
        print('VIOLATION: the message sits in storage but is never retried '
              'nor bounced (its id is stuck in active_ids)')
        return 1
    print('ok: the message was retried')
    return 0


if __name__ == '__main__':
    sys.exit(main())
