"""Pre-existing violation 1 (SMTP relay): an envelope address with a non-ASCII
character, relayed to a server that does not offer SMTPUTF8, makes the relay
attempt end with UnicodeEncodeError instead of a result or a relay error.

Run as:  cd <repo root> && /venv/bin/python SEED/preexisting_1.py
Exits 1 when the pristine code violates property C11, 0 once it is fixed.
"""
import logging
import os
import sys
import warnings

warnings.simplefilter('ignore')
logging.disable(logging.CRITICAL)
sys.path.insert(0, os.getcwd())
sys.stderr = open(os.devnull, 'w')   # gevent prints tracebacks of dying greenlets

from gevent import Timeout  # noqa
from slimta.envelope import Envelope  # noqa
from slimta.relay import (RelayError, PermanentRelayError,  # noqa
                          TransientRelayError)
from slimta.smtp.reply import Reply  # noqa
from slimta.relay.smtp.static import StaticSmtpRelay  # noqa

class ScriptedSocket(object):
    """In-memory socket whose peer is a scripted SMTP server.

    ``script`` maps a stage name to the bytes the server answers with.  Stages:
    banner, EHLO, HELO, MAIL, RCPT:<n> (n-th RCPT of the transaction), DATA,
    EOD (end of message data), RSET, QUIT.  A stage name may be suffixed with
    ``#<k>`` to address the k-th transaction on the connection.  Only a 354
    reply to DATA puts the server into message-data mode.
    """

    DEFAULTS = {'banner': b'220 fake ESMTP\r\n',
                'EHLO': b'250-fake\r\n250 8BITMIME\r\n',
                'HELO': b'250 fake\r\n',
                'MAIL': b'250 2.1.0 Ok\r\n',
                'RCPT': b'250 2.1.5 Ok\r\n',
                'DATA': b'354 go ahead\r\n',
                'EOD': b'250 2.0.0 queued\r\n',
                'RSET': b'250 2.0.0 Ok\r\n',
                'QUIT': b'221 2.0.0 Bye\r\n',
                'UNKNOWN': b'500 5.5.2 command unrecognized\r\n'}

    def __init__(self, script, log):
        self.script = script
        self.log = log
        self.inbuf = b''
        self.outbuf = b''
        self.in_data = False
        self.txn = -1
        self.rcpt_i = 0
        self._say('banner')

    def _say(self, stage):
        base = stage.split(':')[0]
        for key in ('%s#%d' % (stage, self.txn), stage, base):
            if key in self.script:
                reply = self.script[key]
                break
        else:
            reply = self.DEFAULTS[base]
        self.log.append((stage, reply))
        self.outbuf += reply
        return reply

    def fileno(self):
        return -1

    def getpeername(self):
        return ('fake', 25)

    def close(self):
        pass

    def sendall(self, data):
        self.inbuf += data
        while True:
            if self.in_data:
                if self.inbuf.startswith(b'.\r\n'):
                    end = 3
                else:
                    idx = self.inbuf.find(b'\r\n.\r\n')
                    if idx == -1:
                        return
                    end = idx + 5
                self.inbuf = self.inbuf[end:]
                self.in_data = False
                self._say('EOD')
                continue
            idx = self.inbuf.find(b'\r\n')
            if idx == -1:
                return
            line, self.inbuf = self.inbuf[:idx], self.inbuf[idx+2:]
            verb = line.split(b' ')[0].split(b':')[0].upper()
            if verb in (b'EHLO', b'LHLO'):
                self._say('EHLO')
            elif verb == b'HELO':
                self._say('HELO')
            elif verb == b'MAIL':
                self.txn += 1
                self.rcpt_i = 0
                self._say('MAIL')
            elif verb == b'RCPT':
                self._say('RCPT:%d' % self.rcpt_i)
                self.rcpt_i += 1
            elif verb == b'DATA':
                if self._say('DATA').startswith(b'354'):
                    self.in_data = True
            elif verb == b'RSET':
                self._say('RSET')
            elif verb == b'QUIT':
                self._say('QUIT')
            else:
                self._say('UNKNOWN')

    def recv(self, n):
        if not self.outbuf:
            raise AssertionError('client reads although nothing was sent')
        data, self.outbuf = self.outbuf[:n], self.outbuf[n:]
        return data


def classify(value):
    if value is None or isinstance(value, Reply):
        return 'delivered'
    if isinstance(value, PermanentRelayError):
        return 'permanent'
    if isinstance(value, TransientRelayError):
        return 'transient'
    return 'other exception: ' + type(value).__name__


def outcome(ret, rcpts):
    if isinstance(ret, dict):
        return dict((r, classify(ret.get(r, KeyError(r)))) for r in rcpts)
    return dict((r, classify(ret)) for r in rcpts)


def smtp_attempt(relay, sender, rcpts, body=b'From: sender@example.com\r\n\r\ntest\r\n'):
    env = Envelope(sender, list(rcpts))
    env.parse(body)
    try:
        with Timeout(10):
            return relay.attempt(env, 0)
    except BaseException as exc:
        return exc


def main():
    bad = 0
    for what, sender, rcpts in (
            ('non-ASCII recipient', 'sender@example.com', [u'r\xe9cipient@example.com']),
            ('non-ASCII sender', u's\xe9nder@example.com', ['rcpt@example.com']),
            ('2nd of two recipients non-ASCII', 'sender@example.com', ['rcpt@example.com', u'r\xe9cipient@example.com'])):
        for pipelining in (False, True):
            ehlo = b'250-fake\r\n250-8BITMIME\r\n250 PIPELINING\r\n' if pipelining else b'250-fake\r\n250 8BITMIME\r\n'
            log = []
            relay = StaticSmtpRelay('fake', 25, ehlo_as='me', socket_creator=lambda addr: ScriptedSocket({'EHLO': ehlo}, log))
            ret = smtp_attempt(relay, sender, rcpts)
            out = outcome(ret, rcpts)
            ok = all(v in ('permanent', 'transient') for v in out.values()) or isinstance(ret, dict)
            ok = ok and not any(v.startswith('other') for v in out.values())
            print('%-34s pipelining=%-5s -> %s%s' % (what, pipelining, sorted(set(out.values())), '' if ok else '   <-- not a relay error'))
            if not ok:
                bad += 1
    if bad:
        print('VIOLATION: the attempt ended with an exception that is not a relay error')
        return 1
    print('no violation')
    return 0


if __name__ == '__main__':
    sys.exit(main())
