"""Pre-existing violation 4 (pipe relay): when the delivery program cannot be
started at all (missing / not executable) the attempt ends with the raw OSError
(FileNotFoundError, PermissionError) instead of a relay error, in both
per-recipient modes and for the maildrop / dovecot-lda variants.  (Strictly
this is not an "exit status" of the program, so it is at the edge of what the
property quantifies over.)

Run as:  cd <repo root> && /venv/bin/python SEED/preexisting_4.py
Exits 1 when the pristine code violates property C11, 0 once it is fixed.
"""
import logging
import os
import sys
import warnings

warnings.simplefilter('ignore')
logging.disable(logging.CRITICAL)
sys.path.insert(0, os.getcwd())
sys.stderr = open(os.devnull, 'w')   # gevent prints tracebacks of dying greenlets

from gevent import Timeout  # noqa
from slimta.envelope import Envelope  # noqa
from slimta.relay import (RelayError, PermanentRelayError,  # noqa
                          TransientRelayError)
from slimta.smtp.reply import Reply  # noqa


def make_envelope(rcpts):
    env = Envelope('sender@example.com', list(rcpts))
    env.parse(b'From: sender@example.com\r\n\r\ntest\r\n')
    return env


def attempt(relay, rcpts):
    try:
        with Timeout(10):
            return relay.attempt(make_envelope(rcpts), 0)
    except BaseException as exc:
        return exc
from slimta.relay.pipe import PipeRelay, MaildropRelay, DovecotLdaRelay  # noqa


class WholeEnvelopePipeRelay(PipeRelay):
    per_recipient = False


def main():
    bad = 0
    rcpts = ['one@example.com', 'two@example.com']
    relays = [('PipeRelay, missing program', PipeRelay(['/nonexistent/deliver', '{recipient}'])),
              ('PipeRelay (whole envelope), missing', WholeEnvelopePipeRelay(['/nonexistent/deliver'])),
              ('PipeRelay, not executable', PipeRelay(['/etc/hostname', '{recipient}'])),
              ('MaildropRelay, missing program', MaildropRelay('/nonexistent/maildrop')),
              ('DovecotLdaRelay, missing program', DovecotLdaRelay('/nonexistent/dovecot-lda'))]
    for title, relay in relays:
        ret = attempt(relay, rcpts)
        ok = not isinstance(ret, BaseException) or isinstance(ret, RelayError)
        if isinstance(ret, dict):
            ok = all(isinstance(v, RelayError) for v in ret.values())
        print('%-38s -> %s %r%s' % (title, type(ret).__name__, ret, '' if ok else '   <-- not a relay error'))
        if not ok:
            bad += 1
    if bad:
        print('VIOLATION: the attempt ended with an exception that is not a relay error')
        return 1
    print('no violation')
    return 0


if __name__ == '__main__':
    sys.exit(main())
