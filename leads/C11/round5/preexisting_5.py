"""Pre-existing violation 5 (MX relay): the resolver answers with an MX host name
that cannot be IDNA-encoded - an empty label ("." as published for a null MX,
"mx..example.com") or a label longer than 63 characters.  Connecting raises
UnicodeError (not a socket.error), which SmtpRelayClient._run() hands to the
caller unchanged: the attempt ends with UnicodeError instead of a relay error.
No network is used: the error is raised before any lookup or connect.

Run as:  cd <repo root> && /venv/bin/python SEED/preexisting_5.py
Exits 1 when the pristine code violates property C11, 0 once it is fixed.
"""
import logging
import os
import sys
import warnings

warnings.simplefilter('ignore')
logging.disable(logging.CRITICAL)
sys.path.insert(0, os.getcwd())
sys.stderr = open(os.devnull, 'w')   # gevent prints tracebacks of dying greenlets

from gevent import Timeout  # noqa
from slimta.envelope import Envelope  # noqa
from slimta.relay import (RelayError, PermanentRelayError,  # noqa
                          TransientRelayError)
from slimta.smtp.reply import Reply  # noqa


def make_envelope(rcpts):
    env = Envelope('sender@example.com', list(rcpts))
    env.parse(b'From: sender@example.com\r\n\r\ntest\r\n')
    return env


def attempt(relay, rcpts):
    try:
        with Timeout(10):
            return relay.attempt(make_envelope(rcpts), 0)
    except BaseException as exc:
        return exc
from slimta.relay.smtp.mx import MxSmtpRelay  # noqa
from slimta.util.dns import DNSResolver, DNSError  # noqa
from pycares.errno import ARES_ENOTFOUND  # noqa


class Rdata(object):
    def __init__(self, host, priority=10, ttl=300):
        self.host, self.priority, self.ttl = host, priority, ttl


class Answer(object):
    def __init__(self, value):
        self.value = value

    def get(self):
        if isinstance(self.value, int):
            raise DNSError(self.value)
        return self.value


def main():
    bad = 0
    rcpts = ['rcpt@example.com']
    for host in ('.', 'mx..example.com', 'x' * 64 + '.example.com'):
        DNSResolver.query = staticmethod(
            lambda name, qtype, host=host: Answer([Rdata(host)] if qtype == 'MX' else ARES_ENOTFOUND))
        relay = MxSmtpRelay(connect_timeout=3.0)
        ret = attempt(relay, rcpts)
        ok = not isinstance(ret, BaseException) or isinstance(ret, RelayError)
        shown = host if len(host) < 30 else host[:10] + '...' + host[-14:]
        print('MX host %-30r -> %s %r%s' % (shown, type(ret).__name__, ret, '' if ok else '   <-- not a relay error'))
        if not ok:
            bad += 1
    if bad:
        print('VIOLATION: the attempt ended with an exception that is not a relay error')
        return 1
    print('no violation')
    return 0


if __name__ == '__main__':
    sys.exit(main())
