"""Pre-existing violation 6 (SMTP relay, connection reuse; needs two server
anomalies, so of low practical likelihood): after the first message the server
sends one surplus reply line in the same segment as its end-of-data reply.  The
line stays in the client's receive buffer (has_reply_waiting() only looks at
the socket), so on the re-used connection every reply is read one command
late.  Because a 2xx reply to DATA is taken as "go ahead", a server that
answers the second DATA with 250 (and never enters data mode, never sees an
end-of-data) gets its DATA reply reported as the acceptance of the message.

Run as:  cd <repo root> && /venv/bin/python SEED/preexisting_6.py
Exits 1 when the pristine code violates property C11, 0 once it is fixed.
"""
import logging
import os
import sys
import warnings

warnings.simplefilter('ignore')
logging.disable(logging.CRITICAL)
sys.path.insert(0, os.getcwd())
sys.stderr = open(os.devnull, 'w')   # gevent prints tracebacks of dying greenlets

from gevent import Timeout  # noqa
from slimta.envelope import Envelope  # noqa
from slimta.relay import (RelayError, PermanentRelayError,  # noqa
                          TransientRelayError)
from slimta.smtp.reply import Reply  # noqa
from slimta.relay.smtp.static import StaticSmtpRelay  # noqa

class ScriptedSocket(object):
    """In-memory socket whose peer is a scripted SMTP server.

    ``script`` maps a stage name to the bytes the server answers with.  Stages:
    banner, EHLO, HELO, MAIL, RCPT:<n> (n-th RCPT of the transaction), DATA,
    EOD (end of message data), RSET, QUIT.  A stage name may be suffixed with
    ``#<k>`` to address the k-th transaction on the connection.  Only a 354
    reply to DATA puts the server into message-data mode.
    """

    DEFAULTS = {'banner': b'220 fake ESMTP\r\n',
                'EHLO': b'250-fake\r\n250 8BITMIME\r\n',
                'HELO': b'250 fake\r\n',
                'MAIL': b'250 2.1.0 Ok\r\n',
                'RCPT': b'250 2.1.5 Ok\r\n',
                'DATA': b'354 go ahead\r\n',
                'EOD': b'250 2.0.0 queued\r\n',
                'RSET': b'250 2.0.0 Ok\r\n',
                'QUIT': b'221 2.0.0 Bye\r\n',
                'UNKNOWN': b'500 5.5.2 command unrecognized\r\n'}

    def __init__(self, script, log):
        self.script = script
        self.log = log
        self.inbuf = b''
        self.outbuf = b''
        self.in_data = False
        self.txn = -1
        self.rcpt_i = 0
        self._say('banner')

    def _say(self, stage):
        base = stage.split(':')[0]
        for key in ('%s#%d' % (stage, self.txn), stage, base):
            if key in self.script:
                reply = self.script[key]
                break
        else:
            reply = self.DEFAULTS[base]
        self.log.append((stage, reply))
        self.outbuf += reply
        return reply

    def fileno(self):
        return -1

    def getpeername(self):
        return ('fake', 25)

    def close(self):
        pass

    def sendall(self, data):
        self.inbuf += data
        while True:
            if self.in_data:
                if self.inbuf.startswith(b'.\r\n'):
                    end = 3
                else:
                    idx = self.inbuf.find(b'\r\n.\r\n')
                    if idx == -1:
                        return
                    end = idx + 5
                self.inbuf = self.inbuf[end:]
                self.in_data = False
                self._say('EOD')
                continue
            idx = self.inbuf.find(b'\r\n')
            if idx == -1:
                return
            line, self.inbuf = self.inbuf[:idx], self.inbuf[idx+2:]
            verb = line.split(b' ')[0].split(b':')[0].upper()
            if verb in (b'EHLO', b'LHLO'):
                self._say('EHLO')
            elif verb == b'HELO':
                self._say('HELO')
            elif verb == b'MAIL':
                self.txn += 1
                self.rcpt_i = 0
                self._say('MAIL')
            elif verb == b'RCPT':
                self._say('RCPT:%d' % self.rcpt_i)
                self.rcpt_i += 1
            elif verb == b'DATA':
                if self._say('DATA').startswith(b'354'):
                    self.in_data = True
            elif verb == b'RSET':
                self._say('RSET')
            elif verb == b'QUIT':
                self._say('QUIT')
            else:
                self._say('UNKNOWN')

    def recv(self, n):
        if not self.outbuf:
            raise AssertionError('client reads although nothing was sent')
        data, self.outbuf = self.outbuf[:n], self.outbuf[n:]
        return data


def classify(value):
    if value is None or isinstance(value, Reply):
        return 'delivered'
    if isinstance(value, PermanentRelayError):
        return 'permanent'
    if isinstance(value, TransientRelayError):
        return 'transient'
    return 'other exception: ' + type(value).__name__


def outcome(ret, rcpts):
    if isinstance(ret, dict):
        return dict((r, classify(ret.get(r, KeyError(r)))) for r in rcpts)
    return dict((r, classify(ret)) for r in rcpts)


def smtp_attempt(relay, sender, rcpts, body=b'From: sender@example.com\r\n\r\ntest\r\n'):
    env = Envelope(sender, list(rcpts))
    env.parse(body)
    try:
        with Timeout(10):
            return relay.attempt(env, 0)
    except BaseException as exc:
        return exc


def main():
    log = []
    script = {'EOD#0': b'250 2.0.0 queued\r\n250 2.0.0 surplus line\r\n',
              'DATA#1': b'250 2.0.0 I do not do DATA today\r\n'}
    socks = []

    def creator(addr):
        socks.append(ScriptedSocket(script, log))
        return socks[-1]
    relay = StaticSmtpRelay('fake', 25, ehlo_as='me', socket_creator=creator, idle_timeout=5.0)
    rcpts = ['rcpt@example.com']
    first = smtp_attempt(relay, 'sender@example.com', rcpts)
    second = smtp_attempt(relay, 'sender@example.com', rcpts)
    print('first message :', outcome(first, rcpts), repr(first))
    print('second message:', outcome(second, rcpts), repr(second))
    print('connections used:', len(socks))
    eods = [reply for stage, reply in log if stage == 'EOD']
    print('end-of-data replies the server gave:', eods)
    delivered = sum(1 for ret in (first, second) if outcome(ret, rcpts)['rcpt@example.com'] == 'delivered')
    accepted = sum(1 for reply in eods if reply.startswith(b'2'))
    if delivered > accepted:
        print('VIOLATION: %d messages reported delivered, the server accepted only %d' % (delivered, accepted))
        return 1
    print('no violation')
    return 0


if __name__ == '__main__':
    sys.exit(main())
