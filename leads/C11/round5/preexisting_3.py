"""Pre-existing violation 3 (HTTP relay): an HTTP 2xx response that carries an
X-Smtp-Reply header with a 4xx/5xx code is returned from attempt() as a
*successful* result - the failure Reply object itself.  The queue treats any
returned Reply as "delivered".

Run as:  cd <repo root> && /venv/bin/python SEED/preexisting_3.py
Exits 1 when the pristine code violates property C11, 0 once it is fixed.
"""
import logging
import os
import sys
import warnings

warnings.simplefilter('ignore')
logging.disable(logging.CRITICAL)
sys.path.insert(0, os.getcwd())
sys.stderr = open(os.devnull, 'w')   # gevent prints tracebacks of dying greenlets

from gevent import Timeout  # noqa
from slimta.envelope import Envelope  # noqa
from slimta.relay import (RelayError, PermanentRelayError,  # noqa
                          TransientRelayError)
from slimta.smtp.reply import Reply  # noqa


def make_envelope(rcpts):
    env = Envelope('sender@example.com', list(rcpts))
    env.parse(b'From: sender@example.com\r\n\r\ntest\r\n')
    return env


def attempt(relay, rcpts):
    try:
        with Timeout(10):
            return relay.attempt(make_envelope(rcpts), 0)
    except BaseException as exc:
        return exc
from gevent.server import StreamServer  # noqa
from slimta.relay.http import HttpRelay  # noqa


def serve_once(response):
    def handle(sock, addr):
        fobj = sock.makefile('rb')
        length = 0
        fobj.readline()
        while True:
            line = fobj.readline()
            if line in (b'\r\n', b''):
                break
            if line.lower().startswith(b'content-length:'):
                length = int(line.split(b':')[1])
        fobj.read(length)
        sock.sendall(response)
        sock.close()
    server = StreamServer(('127.0.0.1', 0), handle)
    server.start()
    return server


def main():
    bad = 0
    rcpts = ['rcpt@example.com']
    for status in (b'200 OK', b'204 No Content'):
        for code, text in ((b'250', b'2.6.0 accepted'), (b'550', b'5.7.1 rejected'), (b'451', b'4.3.0 try later')):
            response = (b'HTTP/1.1 ' + status + b'\r\nContent-Length: 0\r\nX-Smtp-Reply: ' + code +
                        b'; message="' + text + b'"\r\n\r\n')
            server = serve_once(response)
            relay = HttpRelay('http://127.0.0.1:%d/' % server.server_port, timeout=5.0)
            ret = attempt(relay, rcpts)
            server.stop()
            returned_as_success = not isinstance(ret, BaseException)
            failure_reply = isinstance(ret, Reply) and not ret.code.startswith('2')
            flag = returned_as_success and failure_reply
            print('HTTP %-14s X-Smtp-Reply %s -> %s %r%s' % (
                status.decode(), code.decode(), 'returned' if returned_as_success else 'raised', ret,
                '   <-- failure reply returned as success' if flag else ''))
            if flag:
                bad += 1
    if bad:
        print('VIOLATION: a 4xx/5xx reply of the next hop is reported as a successful delivery')
        return 1
    print('no violation')
    return 0


if __name__ == '__main__':
    sys.exit(main())
