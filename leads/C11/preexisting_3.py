"""Pre-existing C11 violation: the AUTH line of the EHLO reply can crash the
attempt with KeyError / AssertionError.

Client.auth() feeds every advertised mechanism name to pysasl's
SASLAuth.named(), which raises KeyError for any name it does not implement
(e.g. OAUTHBEARER, GSSAPI, NTLM, or the legacy 'AUTH=PLAIN' spelling), and it
asserts that the AUTH keyword has a parameter.  Neither exception is an
SmtpError, so the relay attempt ends with that exception type.

Run as:  cd <repo root> && /venv/bin/python SEED/preexisting_3.py
Exits 1 while the (pristine) library violates property C11, 0 once fixed.
"""

import logging
import os
import sys
import warnings

warnings.simplefilter('ignore')
logging.disable(logging.CRITICAL)
sys.path.insert(0, os.getcwd())

import gevent  # noqa: E402
from gevent.hub import get_hub  # noqa: E402

from slimta.envelope import Envelope  # noqa: E402
from slimta.relay import (PermanentRelayError,  # noqa: E402
                          TransientRelayError)

# the relay greenlet re-raises unexpected exceptions; keep stderr readable
get_hub().handle_error = lambda *a, **kw: None

DROP = object()


class ScriptedServer(object):
    """In-memory socket look-alike playing a scripted SMTP/LMTP server.
    ``script`` maps a stage (banner, EHLO, LHLO, AUTH, MAIL, RCPT, DATA, EOD,
    RSET, QUIT) to the list of replies used for successive occurrences of
    that stage (the last one sticks); DROP closes the connection."""

    defaults = {'banner': b'220 ready\r\n', 'EHLO': b'250 hi\r\n',
                'LHLO': b'250 hi\r\n', 'AUTH': b'235 2.7.0 ok\r\n',
                'MAIL': b'250 2.1.0 ok\r\n', 'RCPT': b'250 2.1.5 ok\r\n',
                'DATA': b'354 go ahead\r\n', 'EOD': b'250 2.0.0 queued\r\n',
                'RSET': b'250 ok\r\n', 'QUIT': b'221 bye\r\n'}

    def __init__(self, script):
        self.script = dict((k, list(v)) for k, v in script.items())
        self.outbuf = b''
        self.inbuf = b''
        self.in_data = False
        self.in_auth = False
        self.dropped = False
        self._emit('banner')

    def _emit(self, stage):
        replies = self.script.get(stage)
        if replies:
            reply = replies.pop(0) if len(replies) > 1 else replies[0]
        else:
            reply = self.defaults.get(stage, b'500 5.5.2 what?\r\n')
        if reply is DROP:
            self.dropped = True
        elif not self.dropped:
            self.outbuf += reply
        return reply

    def fileno(self):
        return -1

    def getpeername(self):
        return ('scripted', 25)

    def close(self):
        pass

    def sendall(self, data):
        if self.dropped:
            return
        self.inbuf += data
        while True:
            if self.in_data:
                if self.inbuf.startswith(b'.\r\n'):
                    end, skip = 0, 3
                else:
                    end, skip = self.inbuf.find(b'\r\n.\r\n'), 5
                if end < 0:
                    return
                self.inbuf = self.inbuf[end+skip:]
                self.in_data = False
                self._emit('EOD')
                continue
            end = self.inbuf.find(b'\r\n')
            if end < 0:
                return
            line, self.inbuf = self.inbuf[:end], self.inbuf[end+2:]
            if self.in_auth:
                verb = 'AUTH'      # continuation line of an AUTH exchange
            else:
                verb = line.split(b' ', 1)[0].split(b':', 1)[0].upper()
                verb = verb.decode('ascii', 'replace')
            if verb == 'HELO':
                verb = 'EHLO'
            reply = self._emit(verb)
            if reply is DROP:
                return
            if verb == 'DATA' and reply.startswith(b'354'):
                self.in_data = True
            self.in_auth = (verb == 'AUTH' and reply.startswith(b'334'))

    def recv(self, size):
        gevent.sleep(0)
        if self.outbuf:
            data, self.outbuf = self.outbuf[:size], self.outbuf[size:]
            return data
        if self.dropped:
            return b''
        raise AssertionError('client reads but the script has nothing to say')


def envelope(rcpts):
    env = Envelope('sender@example.org', list(rcpts))
    env.parse(b'From: sender@example.org\r\nSubject: x\r\n\r\nhello\r\n')
    return env


def kind(val):
    if isinstance(val, PermanentRelayError):
        return 'permanent'
    if isinstance(val, TransientRelayError):
        return 'transient'
    if isinstance(val, BaseException):
        return 'OTHER:' + type(val).__name__
    return 'delivered'


def attempt(relay, env):
    """-> 'delivered' / 'permanent' / 'transient' / 'OTHER:<type>' for the
    whole envelope, or a dict of those per recipient."""
    try:
        ret = relay.attempt(env, 0)
    except BaseException as exc:
        return kind(exc)
    if isinstance(ret, dict):
        return dict((rcpt, kind(val)) for rcpt, val in ret.items())
    return 'delivered'


def smtp_relay(script, cls=None, **kwargs):
    from slimta.relay.smtp.static import StaticSmtpRelay
    server = ScriptedServer(script)
    return (cls or StaticSmtpRelay)(
        'scripted', 25, socket_creator=lambda address: server,
        ehlo_as='demo', **kwargs)


def main():
    A = 'a@example.com'
    bad = []
    cases = [
        ('sanity: "AUTH PLAIN LOGIN"', b'250-hi\r\n250 AUTH PLAIN LOGIN\r\n',
         ('delivered',)),
        ('sanity: no AUTH extension at all', b'250 hi\r\n', ('permanent',)),
        ('EHLO advertises "AUTH PLAIN LOGIN OAUTHBEARER"',
         b'250-hi\r\n250 AUTH PLAIN LOGIN OAUTHBEARER\r\n',
         ('delivered', 'transient', 'permanent')),
        ('EHLO advertises "AUTH GSSAPI NTLM"',
         b'250-hi\r\n250 AUTH GSSAPI NTLM\r\n', ('transient', 'permanent')),
        ('EHLO advertises legacy "AUTH=PLAIN LOGIN"',
         b'250-hi\r\n250 AUTH=PLAIN LOGIN\r\n',
         ('delivered', 'transient', 'permanent')),
        ('EHLO advertises a bare "AUTH" keyword', b'250-hi\r\n250 AUTH\r\n',
         ('transient', 'permanent')),
    ]
    for label, ehlo, acceptable in cases:
        relay = smtp_relay({'EHLO': [ehlo]}, credentials=('user', 'secret'))
        got = attempt(relay, envelope([A]))
        if isinstance(got, dict):
            got = got[A]
        ok = got in acceptable
        print('{0} {1}: {2!r}'.format('ok  ' if ok else 'BAD ', label, got))
        if not ok:
            bad.append(label)
    if bad:
        print('VIOLATION: the AUTH line of the EHLO reply makes the attempt '
              'end with a non-relay exception type (KeyError / '
              'AssertionError)')
        return 1
    print('no violation')
    return 0


if __name__ == '__main__':
    sys.exit(main())
