"""Pre-existing C11 violation: PipeRelay and non-UTF-8 program output.

PipeRelay.raise_error() decodes the failing program's stdout/stderr with a
strict error_msg.decode('utf-8').  For output that is not valid UTF-8 this
raises UnicodeDecodeError, which _exec_process() does not catch (it only
catches the two relay error classes), so attempt() ends with
UnicodeDecodeError in both per-recipient modes.  (MaildropRelay and
DovecotLdaRelay decode with errors='replace' and are not affected.)

Run as:  cd <repo root> && /venv/bin/python SEED/preexisting_4.py
Exits 1 while the (pristine) library violates property C11, 0 once fixed.
"""

import logging
import os
import sys
import warnings

warnings.simplefilter('ignore')
logging.disable(logging.CRITICAL)
sys.path.insert(0, os.getcwd())

from slimta.envelope import Envelope  # noqa: E402
from slimta.relay import (PermanentRelayError,  # noqa: E402
                          TransientRelayError)
from slimta.relay.pipe import PipeRelay  # noqa: E402


class WholeMessagePipeRelay(PipeRelay):
    per_recipient = False


def envelope(rcpts):
    env = Envelope('sender@example.org', list(rcpts))
    env.parse(b'From: sender@example.org\r\nSubject: x\r\n\r\nhello\r\n')
    return env


def kind(val):
    if isinstance(val, PermanentRelayError):
        return 'permanent'
    if isinstance(val, TransientRelayError):
        return 'transient'
    if isinstance(val, BaseException):
        return 'OTHER:' + type(val).__name__
    return 'delivered'


def attempt(relay, env):
    try:
        ret = relay.attempt(env, 0)
    except BaseException as exc:
        return kind(exc)
    if isinstance(ret, dict):
        return dict((rcpt, kind(val)) for rcpt, val in ret.items())
    return 'delivered'


def program(code):
    """A delivery program: python one-liner that first swallows stdin."""
    return [sys.executable, '-c', 'import sys; sys.stdin.read(); ' + code]


def main():
    A = 'a@example.com'
    bad = []
    outputs = [
        ('sanity: exit 1, stdout "mailbox busy"',
         'print("mailbox busy"); sys.exit(1)', ('transient',)),
        ('sanity: exit 1, stdout "5.2.2 over quota"',
         'print("5.2.2 over quota"); sys.exit(1)', ('permanent',)),
        ('exit 1, Latin-1 text on stdout',
         'sys.stdout.buffer.write(b"bo\\xeete pleine\\n"); sys.exit(1)',
         ('transient', 'permanent')),
        ('exit 1, binary junk on stderr',
         'sys.stderr.buffer.write(b"\\xff\\xfe\\x00core"); sys.exit(1)',
         ('transient', 'permanent')),
    ]
    for cls in (PipeRelay, WholeMessagePipeRelay):
        for label, code, acceptable in outputs:
            got = attempt(cls(program(code)), envelope([A]))
            if isinstance(got, dict):
                got = got[A]
            ok = got in acceptable
            print('{0} per_recipient={1} {2}: {3!r}'.format(
                'ok  ' if ok else 'BAD ', cls.per_recipient, label, got))
            if not ok:
                bad.append(label)
    if bad:
        print('VIOLATION: non-UTF-8 output of a failing delivery program '
              'makes PipeRelay.attempt() raise UnicodeDecodeError instead of '
              'reporting a relay error')
        return 1
    print('no violation')
    return 0


if __name__ == '__main__':
    sys.exit(main())
