"""Pre-existing C11 violation (interpretation-dependent): HTTP relay returns a
failure reply as a success.

HttpRelayClient._process_response() looks only at the HTTP status: for any 2xx
status it does result.set(smtp_reply), even when the X-Smtp-Reply header of
that response carries a 4xx/5xx SMTP reply.  relay.attempt() then RETURNS
Reply('550', ...) - a failure reply handed back as though it were a success
(the queue treats every returned value as 'delivered').

Run as:  cd <repo root> && /venv/bin/python SEED/preexisting_6.py
Exits 1 while the (pristine) library violates property C11, 0 once fixed.
"""

import logging
import os
import sys
import warnings

warnings.simplefilter('ignore')
logging.disable(logging.CRITICAL)
sys.path.insert(0, os.getcwd())

from gevent.hub import get_hub  # noqa: E402

import slimta.relay.http as http_relay  # noqa: E402
from slimta.envelope import Envelope  # noqa: E402
from slimta.relay import (PermanentRelayError,  # noqa: E402
                          TransientRelayError)
from slimta.smtp.reply import Reply  # noqa: E402

get_hub().handle_error = lambda *a, **kw: None


class FakeResponse(object):
    def __init__(self, status, reason, smtp_reply):
        self.status, self.reason, self.smtp_reply = status, reason, smtp_reply

    def getheader(self, name, default=None):
        if name.lower() == 'x-smtp-reply' and self.smtp_reply is not None:
            return self.smtp_reply
        return default

    def getheaders(self):
        if self.smtp_reply is None:
            return []
        return [('X-Smtp-Reply', self.smtp_reply)]


class FakeConnection(object):
    def __init__(self, response):
        self.response = response

    def putrequest(self, *args):
        pass

    def putheader(self, *args):
        pass

    def endheaders(self, *args):
        pass

    def send(self, *args):
        pass

    def close(self):
        pass

    def getresponse(self):
        return self.response


def attempt(status, reason, smtp_reply):
    http_relay.get_connection = \
        lambda url, context: FakeConnection(
            FakeResponse(status, reason, smtp_reply))
    relay = http_relay.HttpRelay('http://next-hop.invalid/deliver',
                                 ehlo_as='demo')
    env = Envelope('sender@example.org', ['a@example.com'])
    env.parse(b'From: sender@example.org\r\n\r\nhello\r\n')
    try:
        ret = relay.attempt(env, 0)
    except PermanentRelayError:
        return 'permanent'
    except TransientRelayError:
        return 'transient'
    except BaseException as exc:
        return 'OTHER:' + type(exc).__name__
    if isinstance(ret, Reply) and ret.code[0] != '2':
        return 'returned-as-success:' + str(ret)
    return 'delivered'


def main():
    bad = []
    cases = [
        (200, 'OK', None, ('delivered',)),
        (200, 'OK', '250; message="2.6.0 queued"', ('delivered',)),
        (500, 'Internal Server Error', '550; message="5.1.1 no such user"',
         ('permanent',)),
        (503, 'Service Unavailable', '450; message="4.2.0 busy"',
         ('transient',)),
        (200, 'OK', '550; message="5.1.1 no such user"',
         ('permanent',)),
        (200, 'OK', '451; message="4.3.0 try again later"',
         ('transient',)),
        (202, 'Accepted', '554; message="5.7.1 rejected as spam"',
         ('permanent',)),
    ]
    for status, reason, hdr, acceptable in cases:
        got = attempt(status, reason, hdr)
        ok = got in acceptable
        print('{0} HTTP {1} X-Smtp-Reply={2!r}: {3}'.format(
            'ok  ' if ok else 'BAD ', status, hdr, got))
        if not ok:
            bad.append(status)
    if bad:
        print('VIOLATION: a 4xx/5xx SMTP reply delivered in a 2xx HTTP '
              'response is returned from attempt() as a successful result')
        return 1
    print('no violation')
    return 0


if __name__ == '__main__':
    sys.exit(main())
