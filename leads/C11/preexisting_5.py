"""Pre-existing C11 violation: all recipients refused with different classes.

SmtpRelayClient._check_replies() raises SmtpRelayError.factory(rcpttos[0])
for the whole envelope when no recipient was accepted.  With RCPT A -> 550 and
RCPT B -> 450 recipient B (a 4xx outcome: 'try again later') is reported as a
PERMANENT failure and will be bounced; in the opposite order the 5xx recipient
is reported as transient.

Run as:  cd <repo root> && /venv/bin/python SEED/preexisting_5.py
Exits 1 while the (pristine) library violates property C11, 0 once fixed.
"""

import logging
import os
import sys
import warnings

warnings.simplefilter('ignore')
logging.disable(logging.CRITICAL)
sys.path.insert(0, os.getcwd())

import gevent  # noqa: E402
from gevent.hub import get_hub  # noqa: E402

from slimta.envelope import Envelope  # noqa: E402
from slimta.relay import (PermanentRelayError,  # noqa: E402
                          TransientRelayError)

# the relay greenlet re-raises unexpected exceptions; keep stderr readable
get_hub().handle_error = lambda *a, **kw: None

DROP = object()


class ScriptedServer(object):
    """In-memory socket look-alike playing a scripted SMTP/LMTP server.
    ``script`` maps a stage (banner, EHLO, LHLO, AUTH, MAIL, RCPT, DATA, EOD,
    RSET, QUIT) to the list of replies used for successive occurrences of
    that stage (the last one sticks); DROP closes the connection."""

    defaults = {'banner': b'220 ready\r\n', 'EHLO': b'250 hi\r\n',
                'LHLO': b'250 hi\r\n', 'AUTH': b'235 2.7.0 ok\r\n',
                'MAIL': b'250 2.1.0 ok\r\n', 'RCPT': b'250 2.1.5 ok\r\n',
                'DATA': b'354 go ahead\r\n', 'EOD': b'250 2.0.0 queued\r\n',
                'RSET': b'250 ok\r\n', 'QUIT': b'221 bye\r\n'}

    def __init__(self, script):
        self.script = dict((k, list(v)) for k, v in script.items())
        self.outbuf = b''
        self.inbuf = b''
        self.in_data = False
        self.in_auth = False
        self.dropped = False
        self._emit('banner')

    def _emit(self, stage):
        replies = self.script.get(stage)
        if replies:
            reply = replies.pop(0) if len(replies) > 1 else replies[0]
        else:
            reply = self.defaults.get(stage, b'500 5.5.2 what?\r\n')
        if reply is DROP:
            self.dropped = True
        elif not self.dropped:
            self.outbuf += reply
        return reply

    def fileno(self):
        return -1

    def getpeername(self):
        return ('scripted', 25)

    def close(self):
        pass

    def sendall(self, data):
        if self.dropped:
            return
        self.inbuf += data
        while True:
            if self.in_data:
                if self.inbuf.startswith(b'.\r\n'):
                    end, skip = 0, 3
                else:
                    end, skip = self.inbuf.find(b'\r\n.\r\n'), 5
                if end < 0:
                    return
                self.inbuf = self.inbuf[end+skip:]
                self.in_data = False
                self._emit('EOD')
                continue
            end = self.inbuf.find(b'\r\n')
            if end < 0:
                return
            line, self.inbuf = self.inbuf[:end], self.inbuf[end+2:]
            if self.in_auth:
                verb = 'AUTH'      # continuation line of an AUTH exchange
            else:
                verb = line.split(b' ', 1)[0].split(b':', 1)[0].upper()
                verb = verb.decode('ascii', 'replace')
            if verb == 'HELO':
                verb = 'EHLO'
            reply = self._emit(verb)
            if reply is DROP:
                return
            if verb == 'DATA' and reply.startswith(b'354'):
                self.in_data = True
            self.in_auth = (verb == 'AUTH' and reply.startswith(b'334'))

    def recv(self, size):
        gevent.sleep(0)
        if self.outbuf:
            data, self.outbuf = self.outbuf[:size], self.outbuf[size:]
            return data
        if self.dropped:
            return b''
        raise AssertionError('client reads but the script has nothing to say')


def envelope(rcpts):
    env = Envelope('sender@example.org', list(rcpts))
    env.parse(b'From: sender@example.org\r\nSubject: x\r\n\r\nhello\r\n')
    return env


def kind(val):
    if isinstance(val, PermanentRelayError):
        return 'permanent'
    if isinstance(val, TransientRelayError):
        return 'transient'
    if isinstance(val, BaseException):
        return 'OTHER:' + type(val).__name__
    return 'delivered'


def attempt(relay, env):
    """-> 'delivered' / 'permanent' / 'transient' / 'OTHER:<type>' for the
    whole envelope, or a dict of those per recipient."""
    try:
        ret = relay.attempt(env, 0)
    except BaseException as exc:
        return kind(exc)
    if isinstance(ret, dict):
        return dict((rcpt, kind(val)) for rcpt, val in ret.items())
    return 'delivered'


def smtp_relay(script, cls=None, **kwargs):
    from slimta.relay.smtp.static import StaticSmtpRelay
    server = ScriptedServer(script)
    return (cls or StaticSmtpRelay)(
        'scripted', 25, socket_creator=lambda address: server,
        ehlo_as='demo', **kwargs)


def main():
    A, B = 'a@example.com', 'b@example.com'
    bad = []
    for pipelining in (False, True):
        ehlo = b'250-hi\r\n250 PIPELINING\r\n' if pipelining else b'250 hi\r\n'
        for first, second in ((b'550 5.1.1 no such user\r\n',
                               b'450 4.2.0 mailbox busy, try later\r\n'),
                              (b'450 4.2.0 mailbox busy, try later\r\n',
                               b'550 5.1.1 no such user\r\n')):
            relay = smtp_relay({'EHLO': [ehlo], 'RCPT': [first, second],
                                'DATA': [b'554 5.5.1 no valid recipients\r\n']
                                })
            got = attempt(relay, envelope([A, B]))
            if not isinstance(got, dict):
                got = {A: got, B: got}
            want = {A: 'permanent' if first[:1] == b'5' else 'transient',
                    B: 'permanent' if second[:1] == b'5' else 'transient'}
            ok = (got == want)
            print('{0} PIPELINING={1} RCPT A -> {2}, RCPT B -> {3}: reported '
                  '{4!r}, expected {5!r}'.format(
                      'ok  ' if ok else 'BAD ', pipelining,
                      first[:3].decode(), second[:3].decode(), got, want))
            if not ok:
                bad.append((pipelining, first[:3]))
    if bad:
        print('VIOLATION: when every recipient is refused, the class of the '
              'FIRST RCPT reply is reported for all recipients (a 4xx '
              'recipient becomes a permanent failure, or a 5xx one a '
              'transient failure)')
        return 1
    print('no violation')
    return 0


if __name__ == '__main__':
    sys.exit(main())
