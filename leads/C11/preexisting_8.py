"""Pre-existing C11 violation (borderline): the delivery program cannot start.

PipeRelay._exec_process() lets the OSError of subprocess.Popen() (missing
program, not executable, ...) propagate; attempt() therefore ends with
FileNotFoundError / PermissionError rather than a (transient) relay error.
Borderline because it is a fault of the local set-up rather than a reply of
the delivery program, but the attempt does end with 'another exception
type'.

Run as:  cd <repo root> && /venv/bin/python SEED/preexisting_8.py
Exits 1 while the (pristine) library violates property C11, 0 once fixed.
"""

import logging
import os
import sys
import warnings

warnings.simplefilter('ignore')
logging.disable(logging.CRITICAL)
sys.path.insert(0, os.getcwd())

from slimta.envelope import Envelope  # noqa: E402
from slimta.relay import (PermanentRelayError,  # noqa: E402
                          TransientRelayError)
from slimta.relay.pipe import PipeRelay  # noqa: E402


class WholeMessagePipeRelay(PipeRelay):
    per_recipient = False


def envelope(rcpts):
    env = Envelope('sender@example.org', list(rcpts))
    env.parse(b'From: sender@example.org\r\nSubject: x\r\n\r\nhello\r\n')
    return env


def kind(val):
    if isinstance(val, PermanentRelayError):
        return 'permanent'
    if isinstance(val, TransientRelayError):
        return 'transient'
    if isinstance(val, BaseException):
        return 'OTHER:' + type(val).__name__
    return 'delivered'


def attempt(relay, env):
    try:
        ret = relay.attempt(env, 0)
    except BaseException as exc:
        return kind(exc)
    if isinstance(ret, dict):
        return dict((rcpt, kind(val)) for rcpt, val in ret.items())
    return 'delivered'


def program(code):
    """A delivery program: python one-liner that first swallows stdin."""
    return [sys.executable, '-c', 'import sys; sys.stdin.read(); ' + code]


def main():
    A = 'a@example.com'
    bad = []
    here = os.path.dirname(os.path.abspath(__file__))
    cases = [
        ('program path does not exist', ['/nonexistent/bin/deliver', '{recipient}']),
        ('program file is not executable', [os.path.abspath(__file__)]),
        ('program path is a directory', [here]),
    ]
    for cls in (PipeRelay, WholeMessagePipeRelay):
        for label, args in cases:
            got = attempt(cls(args), envelope([A]))
            if isinstance(got, dict):
                got = got[A]
            ok = got in ('transient', 'permanent')
            print('{0} per_recipient={1} {2}: {3!r}'.format(
                'ok  ' if ok else 'BAD ', cls.per_recipient, label, got))
            if not ok:
                bad.append(label)
    if bad:
        print('VIOLATION: failure to start the delivery program escapes '
              'from PipeRelay.attempt() as an OSError subclass instead of a '
              'relay error')
        return 1
    print('no violation')
    return 0


if __name__ == '__main__':
    sys.exit(main())
