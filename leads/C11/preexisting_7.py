"""Pre-existing C11 violation (minor, boundary): bare '5.X.X' program output.

PipeRelay.raise_error() documents that output beginning with a 5.X.X enhanced
status code is a permanent failure.  It first rstrip()s the output and then
matches PipeRelay._permanent_error_pattern, which REQUIRES a whitespace
character after the code.  When the program prints only the code ('5.1.1')
the trailing newline has just been stripped, the pattern cannot match and the
5xx-class outcome is reported as a TransientRelayError (450), i.e. retried
until it expires.

Run as:  cd <repo root> && /venv/bin/python SEED/preexisting_7.py
Exits 1 while the (pristine) library violates property C11, 0 once fixed.
"""

import logging
import os
import sys
import warnings

warnings.simplefilter('ignore')
logging.disable(logging.CRITICAL)
sys.path.insert(0, os.getcwd())

from slimta.envelope import Envelope  # noqa: E402
from slimta.relay import (PermanentRelayError,  # noqa: E402
                          TransientRelayError)
from slimta.relay.pipe import PipeRelay  # noqa: E402


class WholeMessagePipeRelay(PipeRelay):
    per_recipient = False


def envelope(rcpts):
    env = Envelope('sender@example.org', list(rcpts))
    env.parse(b'From: sender@example.org\r\nSubject: x\r\n\r\nhello\r\n')
    return env


def kind(val):
    if isinstance(val, PermanentRelayError):
        return 'permanent'
    if isinstance(val, TransientRelayError):
        return 'transient'
    if isinstance(val, BaseException):
        return 'OTHER:' + type(val).__name__
    return 'delivered'


def attempt(relay, env):
    try:
        ret = relay.attempt(env, 0)
    except BaseException as exc:
        return kind(exc)
    if isinstance(ret, dict):
        return dict((rcpt, kind(val)) for rcpt, val in ret.items())
    return 'delivered'


def program(code):
    """A delivery program: python one-liner that first swallows stdin."""
    return [sys.executable, '-c', 'import sys; sys.stdin.read(); ' + code]


def main():
    A = 'a@example.com'
    bad = []
    outputs = [
        ('sanity: stdout "5.1.1 no such user"', '5.1.1 no such user',
         'permanent'),
        ('sanity: stdout "4.2.2 over quota"', '4.2.2 over quota',
         'transient'),
        ('stdout is just the status code "5.1.1"', '5.1.1', 'permanent'),
        ('stdout is "5.1.1" followed by blanks/newlines', '5.1.1   \\n\\n',
         'permanent'),
    ]
    for cls in (PipeRelay, WholeMessagePipeRelay):
        for label, text, want in outputs:
            code = 'sys.stdout.write("{0}\\n"); sys.exit(1)'.format(text)
            got = attempt(cls(program(code)), envelope([A]))
            if isinstance(got, dict):
                got = got[A]
            ok = (got == want)
            print('{0} per_recipient={1} {2}: {3!r} (expected {4!r})'.format(
                'ok  ' if ok else 'BAD ', cls.per_recipient, label, got,
                want))
            if not ok:
                bad.append(label)
    if bad:
        print('VIOLATION: program output that consists of a bare 5.X.X '
              'status code is reported as a transient failure')
        return 1
    print('no violation')
    return 0


if __name__ == '__main__':
    sys.exit(main())
