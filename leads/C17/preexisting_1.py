"""Pre-existing: a reply written with newline_first=True (the library's own
pre-defined `timed_out` reply) cannot be parsed back by IO.recv_reply()."""
import os
import sys
sys.path.insert(0, os.getcwd())

from slimta.smtp import BadReply
from slimta.smtp.io import IO
from slimta.smtp.reply import Reply, timed_out


class FakeSocket(object):
    def __init__(self, segments):
        self.segments = list(segments)

    def recv(self, n):
        return self.segments.pop(0) if self.segments else b''

    def getpeername(self):
        return ('test', 25)

    def fileno(self):
        return -1


out = IO(None)
timed_out.send(out)                       # what the server writes on timeout
Reply('250', '2.0.0 next').send(out)      # a (hypothetical) successor
data = out.send_buffer.getvalue()
print('wire: {0!r}'.format(data))

io = IO(FakeSocket([data]))
try:
    code, text = io.recv_reply()
except BadReply as exc:
    print('recv_reply() raised BadReply({0!r}); buffer now {1!r}'
          .format(exc.data if hasattr(exc, 'data') else exc.args,
                  io.recv_buffer))
    print('VIOLATION: the reply {0!r} written by Reply.send() is not parsed '
          'back; the client sees a bad reply instead of the 421'
          .format(str(timed_out)))
    sys.exit(1)
print('parsed back: {0} {1!r}'.format(code, text))
ok = (code, text) == (timed_out.code, timed_out.message)
sys.exit(0 if ok else 1)
