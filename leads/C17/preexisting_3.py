"""Pre-existing (Reply level): for 1xx/3xx codes an ESC-looking prefix is
stripped by the message setter but never put back by the getter, so text is
lost, and stripping happens again on the receiving Reply: sender and receiver
disagree about the text although IO.send_reply/recv_reply carry it intact."""
import os
import sys
sys.path.insert(0, os.getcwd())

from slimta.smtp.io import IO
from slimta.smtp.reply import Reply


class FakeSocket(object):
    def __init__(self, segments):
        self.segments = list(segments)

    def recv(self, n):
        return self.segments.pop(0) if self.segments else b''

    def getpeername(self):
        return ('test', 25)

    def fileno(self):
        return -1


bad = 0
for code, text in (('354', '2.0.0 2.0.0 go ahead'),
                   ('334', '5.1.1 4.2.2 x'),
                   ('354', '2.0.0 go ahead')):
    sent = Reply(code, text)
    out = IO(None)
    sent.send(out)
    data = out.send_buffer.getvalue()
    raw = IO(FakeSocket([data])).recv_reply()
    got = Reply()
    got.recv(IO(FakeSocket([data]), address=('test', 25)))
    print('Reply({0!r}, {1!r}): sender.message={2!r} wire={3!r} '
          'recv_reply()={4!r} receiver.message={5!r}'
          .format(code, text, sent.message, data, raw, got.message))
    if sent.message != text:
        print('  text given to the Reply is silently shortened')
    if (got.code, got.message) != (sent.code, sent.message):
        print('  VIOLATION: receiver text differs from sender text')
        bad += 1
sys.exit(1 if bad else 0)
