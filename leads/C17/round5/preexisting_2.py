"""Pre-existing C17 violation 2 (framing, arguably by design): a reply that
the library writes with newline_first=True (the pre-defined `timed_out`
reply that the server sends when a client is idle) is not parsed back by the
library's own IO.recv_reply(): the leading CRLF is an empty line, which
raises BadReply(b'') and the 421 is only seen by a second read.

Run from the repository root: /venv/bin/python SEED/preexisting_2.py
Exit status 1 = the violation is present, 0 = fixed.
"""
import os
import sys

sys.path.insert(0, os.getcwd())

from slimta.smtp.io import IO  # noqa: E402
from slimta.smtp.reply import Reply, timed_out  # noqa: E402
from slimta.smtp import BadReply  # noqa: E402


class FakeSocket(object):

    def __init__(self, chunks=()):
        self.sent = b''
        self.chunks = list(chunks)

    def fileno(self):
        return -1

    def getpeername(self):
        return ('test', 0)

    def sendall(self, data):
        self.sent += data

    def recv(self, n):
        return self.chunks.pop(0) if self.chunks else b''


def main():
    out = IO(FakeSocket(), address=('test', 0))
    timed_out.send(out, flush=True)
    data = out.socket.sent
    print('library wrote: %r' % data)

    inp = IO(FakeSocket([data]), address=('test', 0))
    parsed = Reply()
    try:
        parsed.recv(inp)
    except BadReply as exc:
        print('library parsed it back as: BadReply(%r); left in buffer: %r'
              % (exc.data, inp.recv_buffer))
        print('VIOLATION: the reply written by the library (421 %s) is '
              'reported as a bad reply' % timed_out.message)
        return 1
    print('library parsed it back as: %r' % parsed)
    if (parsed.code, parsed.message) != (timed_out.code, timed_out.message):
        print('VIOLATION: different code/text')
        return 1
    print('no violation')
    return 0


if __name__ == '__main__':
    sys.exit(main())
