"""Pre-existing C17 near-violation 3 (outside the quantified code domain
200..599, included for completeness): Reply accepts codes that are not three
ASCII digits -- '250\\n' (the `$` of code_pattern matches before a trailing
newline) and '2<U+0665><U+0660>' (str `\\d` matches any Unicode digit).  Such a reply
is then written as a line the library's own parser rejects, or cannot be
written at all.

Run from the repository root: /venv/bin/python SEED/preexisting_3.py
Exit status 1 = the violation is present, 0 = fixed (ValueError on set).
"""
import os
import sys

sys.path.insert(0, os.getcwd())

from slimta.smtp.io import IO  # noqa: E402
from slimta.smtp.reply import Reply  # noqa: E402
from slimta.smtp import BadReply  # noqa: E402


class FakeSocket(object):

    def __init__(self, chunks=()):
        self.sent = b''
        self.chunks = list(chunks)

    def fileno(self):
        return -1

    def getpeername(self):
        return ('test', 0)

    def sendall(self, data):
        self.sent += data

    def recv(self, n):
        return self.chunks.pop(0) if self.chunks else b''


def main():
    violations = 0
    for code in ('250\n', u'2\u0665\u0660'):
        try:
            reply = Reply(code, 'Ok')
        except ValueError as exc:
            print('%r: rejected with %r (good)' % (code, exc))
            continue
        out = IO(FakeSocket(), address=('test', 0))
        try:
            reply.send(out, flush=True)
        except UnicodeEncodeError as exc:
            print('%r: accepted as a reply code, but send() raised %r'
                  % (code, exc))
            violations += 1
            continue
        data = out.socket.sent
        inp = IO(FakeSocket([data]), address=('test', 0))
        try:
            got = inp.recv_reply()
        except BadReply as exc:
            got = 'BadReply(%r)' % (exc.data, )
        print('%r: accepted as a reply code, wire %r, parsed back as %s'
              % (code, data, got))
        violations += 1
    if violations:
        print('VIOLATION: %d codes that are not three ASCII digits accepted'
              % violations)
        return 1
    print('no violation')
    return 0


if __name__ == '__main__':
    sys.exit(main())
