"""Pre-existing C17 violation 1: a 3xx reply (no enhanced status code class)
whose text starts with TWO enhanced-status-looking prefixes does not survive
Reply.send() -> wire -> Reply.recv(): the second prefix is lost.

Run from the repository root: /venv/bin/python SEED/preexisting_1.py
Exit status 1 = the violation is present, 0 = fixed.
"""
import os
import sys

sys.path.insert(0, os.getcwd())

from slimta.smtp.io import IO  # noqa: E402
from slimta.smtp.reply import Reply  # noqa: E402


class FakeSocket(object):

    def __init__(self, chunks=()):
        self.sent = b''
        self.chunks = list(chunks)

    def fileno(self):
        return -1

    def getpeername(self):
        return ('test', 0)

    def sendall(self, data):
        self.sent += data

    def recv(self, n):
        return self.chunks.pop(0) if self.chunks else b''


def round_trip(reply):
    out = IO(FakeSocket(), address=('test', 0))
    reply.send(out, flush=True)
    data = out.socket.sent
    inp = IO(FakeSocket([data]), address=('test', 0))
    parsed = Reply()
    parsed.recv(inp)
    return data, parsed


def main():
    violations = 0
    for code in ('354', '334', '300', '250', '450', '550'):
        original = Reply(code, '2.1.0 2.2.0 go ahead')
        data, parsed = round_trip(original)
        same = (parsed.code, parsed.message) == (original.code,
                                                 original.message)
        print('%s: written reply %r, wire %r, parsed back %r -> %s'
              % (code, original, data, parsed,
                 'same' if same else 'DIFFERENT'))
        if not same:
            violations += 1
    if violations:
        print('VIOLATION: %d replies did not come back with the same text'
              % violations)
        return 1
    print('no violation')
    return 0


if __name__ == '__main__':
    sys.exit(main())
