"""Pre-existing: Reply.code validation uses '$', which also matches before a
trailing newline, so '250\\n' is accepted as a "three digit" code and produces
a wire form the library itself rejects."""
import os
import sys
sys.path.insert(0, os.getcwd())

from slimta.smtp import BadReply
from slimta.smtp.io import IO
from slimta.smtp.reply import Reply


class FakeSocket(object):
    def __init__(self, segments):
        self.segments = list(segments)

    def recv(self, n):
        return self.segments.pop(0) if self.segments else b''

    def getpeername(self):
        return ('test', 25)

    def fileno(self):
        return -1


try:
    r = Reply('250\n', 'Ok')
except ValueError:
    print('code rejected: fine')
    sys.exit(0)
print('Reply accepted code {0!r}'.format(r.code))
out = IO(None)
r.send(out)
data = out.send_buffer.getvalue()
print('wire: {0!r}'.format(data))
try:
    got = IO(FakeSocket([data])).recv_reply()
    print('parsed back: {0!r}'.format(got))
    sys.exit(0 if got == (r.code, r.message) else 1)
except BadReply as exc:
    print('recv_reply() raised BadReply{0!r}'.format(exc.args))
    print('VIOLATION: an accepted code yields a reply the library cannot '
          'parse back')
    sys.exit(1)
