"""Borderline (Reply level): the ESC prefix pattern ends in \\s+, which also
swallows line breaks.  A text whose FIRST LINE IS EMPTY (it does not "begin
with white space" in the sense of a leading blank/tab, the line is just empty)
therefore loses that line when the receiving Reply re-parses the ESC:
r2.message = r1.message is not idempotent."""
import os
import sys
sys.path.insert(0, os.getcwd())

from slimta.smtp.io import IO
from slimta.smtp.reply import Reply


class FakeSocket(object):
    def __init__(self, segments):
        self.segments = list(segments)

    def recv(self, n):
        return self.segments.pop(0) if self.segments else b''

    def getpeername(self):
        return ('test', 25)

    def fileno(self):
        return -1


sent = Reply('250', '\r\nsecond line')
out = IO(None)
sent.send(out)
data = out.send_buffer.getvalue()
raw = IO(FakeSocket([data])).recv_reply()
got = Reply()
got.recv(IO(FakeSocket([data]), address=('test', 25)))
print('sender.message   = {0!r}'.format(sent.message))
print('wire             = {0!r}'.format(data))
print('recv_reply()     = {0!r}'.format(raw))
print('receiver.message = {0!r}'.format(got.message))
if got.message != sent.message:
    print('VIOLATION: the empty first line is lost at Reply level')
    sys.exit(1)
sys.exit(0)
