"""Pre-existing C09 violation 2: the SIZE limit is only applied to bytes that
DataReader reads from the socket itself; message bytes that were pipelined
behind the DATA command (already in IO.recv_buffer) are never counted.  The
same oversize message is accepted in one burst and rejected otherwise.
"""
import os
import sys
import warnings

warnings.filterwarnings('ignore')
sys.path.insert(0, os.getcwd())

from slimta.smtp.server import Server  # noqa: E402
from slimta.smtp import ConnectionLost  # noqa: E402


class FakeSocket(object):

    def __init__(self, chunks):
        self.chunks = list(chunks)
        self.sent = b''

    def fileno(self):
        return -1

    def getpeername(self):
        return ('127.0.0.1', 12345)

    def recv(self, n):
        if not self.chunks:
            return b''
        chunk = self.chunks.pop(0)
        assert 0 < len(chunk) <= n
        return chunk

    def sendall(self, data):
        self.sent += data

    def close(self):
        pass


class Handlers(object):

    def __init__(self):
        self.calls = []

    def BANNER_(self, reply):
        self.calls.append(('BANNER',))

    def EHLO(self, reply, ehlo_as):
        self.calls.append(('EHLO', ehlo_as))

    def MAIL(self, reply, address, params):
        self.calls.append(('MAIL', address, sorted(params.items())))

    def RCPT(self, reply, address, params):
        self.calls.append(('RCPT', address, sorted(params.items())))

    def DATA(self, reply):
        self.calls.append(('DATA',))

    def HAVE_DATA(self, reply, data, err):
        self.calls.append(('HAVE_DATA', data, type(err).__name__))
        if err is not None:
            # what slimta.edge.smtp.SmtpSession does for MessageTooBig
            reply.code = '552'
            reply.message = '5.3.4 Message exceeded size limit'

    def RSET(self, reply):
        self.calls.append(('RSET',))

    def NOOP(self, reply):
        self.calls.append(('NOOP',))

    def QUIT(self, reply):
        self.calls.append(('QUIT',))

    def CLOSE(self):
        self.calls.append(('CLOSE',))


def run(chunks, max_size):
    sock = FakeSocket(chunks)
    handlers = Handlers()
    server = Server(sock, handlers, ('127.0.0.1', 12345))
    server.extensions.add('SIZE', max_size)
    try:
        server.handle()
        end = 'closed'
    except ConnectionLost:
        end = 'connection lost'
    return sock.sent, handlers.calls, end




def show(name, result):
    sent, calls, end = result
    print('--- %s (%s)' % (name, end))
    print('  replies  : %r' % ([l for l in sent.split(b'\r\n') if l][6:],))
    print('  callbacks: %r' % (calls[2:],))


MAX_SIZE = 50
PRE = (b'EHLO client.example\r\n'
       b'MAIL FROM:<a@example.com>\r\n'
       b'RCPT TO:<b@example.com>\r\n'
       b'DATA\r\n')
BODY = b'this line is thirty bytes long\r\n' * 10      # 320 bytes > 50
STREAM = PRE + BODY + b'.\r\n' + b'QUIT\r\n'


def accepted(result):
    return [c for c in result[1] if c[0] == 'HAVE_DATA' and c[1] is not None]


def main():
    burst = run([STREAM], MAX_SIZE)
    two = run([PRE, STREAM[len(PRE):]], MAX_SIZE)
    show('one pipelined burst', burst)
    show('commands, then body in a second segment', two)
    bad = False
    if accepted(burst):
        bad = True
        print('VIOLATION: a %d byte message was accepted in one burst although '
              'SIZE is %d' % (len(BODY), MAX_SIZE))
    if accepted(two):
        bad = True
        print('VIOLATION: oversize message accepted when sent separately')
    if burst[0].count(b'552 ') != two[0].count(b'552 '):
        bad = True
        print('VIOLATION: the 552 rejection depends on the segmentation')
    if bad:
        return 1
    print('OK: the oversize message is rejected regardless of segmentation')
    return 0


if __name__ == '__main__':
    sys.exit(main())
