"""Pre-existing C09 violation 1: after a message exceeds the SIZE limit the
rest of its content is executed as SMTP commands (and what is executed depends
on where the recv() boundaries fall).
"""
import os
import sys
import warnings

warnings.filterwarnings('ignore')
sys.path.insert(0, os.getcwd())

from slimta.smtp.server import Server  # noqa: E402
from slimta.smtp import ConnectionLost  # noqa: E402


class FakeSocket(object):

    def __init__(self, chunks):
        self.chunks = list(chunks)
        self.sent = b''

    def fileno(self):
        return -1

    def getpeername(self):
        return ('127.0.0.1', 12345)

    def recv(self, n):
        if not self.chunks:
            return b''
        chunk = self.chunks.pop(0)
        assert 0 < len(chunk) <= n
        return chunk

    def sendall(self, data):
        self.sent += data

    def close(self):
        pass


class Handlers(object):

    def __init__(self):
        self.calls = []

    def BANNER_(self, reply):
        self.calls.append(('BANNER',))

    def EHLO(self, reply, ehlo_as):
        self.calls.append(('EHLO', ehlo_as))

    def MAIL(self, reply, address, params):
        self.calls.append(('MAIL', address, sorted(params.items())))

    def RCPT(self, reply, address, params):
        self.calls.append(('RCPT', address, sorted(params.items())))

    def DATA(self, reply):
        self.calls.append(('DATA',))

    def HAVE_DATA(self, reply, data, err):
        self.calls.append(('HAVE_DATA', data, type(err).__name__))
        if err is not None:
            # what slimta.edge.smtp.SmtpSession does for MessageTooBig
            reply.code = '552'
            reply.message = '5.3.4 Message exceeded size limit'

    def RSET(self, reply):
        self.calls.append(('RSET',))

    def NOOP(self, reply):
        self.calls.append(('NOOP',))

    def QUIT(self, reply):
        self.calls.append(('QUIT',))

    def CLOSE(self):
        self.calls.append(('CLOSE',))


def run(chunks, max_size):
    sock = FakeSocket(chunks)
    handlers = Handlers()
    server = Server(sock, handlers, ('127.0.0.1', 12345))
    server.extensions.add('SIZE', max_size)
    try:
        server.handle()
        end = 'closed'
    except ConnectionLost:
        end = 'connection lost'
    return sock.sent, handlers.calls, end




def show(name, result):
    sent, calls, end = result
    print('--- %s (%s)' % (name, end))
    print('  replies  : %r' % ([l for l in sent.split(b'\r\n') if l][6:],))
    print('  callbacks: %r' % (calls[2:],))


MAX_SIZE = 50
PRE = (b'EHLO client.example\r\n'
       b'MAIL FROM:<a@example.com>\r\n'
       b'RCPT TO:<b@example.com>\r\n'
       b'DATA\r\n')
# 5 x 30 = 150 bytes of content, well over the 50 byte limit; the content
# contains lines that look like commands
BODY = b'0123456789abcdef\r\nRSET\r\nNOOP\r\n' * 5
STREAM = PRE + BODY + b'.\r\n' + b'QUIT\r\n'


def main():
    by_line = run(STREAM.splitlines(True), MAX_SIZE)
    by_byte = run([STREAM[i:i+1] for i in range(len(STREAM))], MAX_SIZE)
    by_16 = run([STREAM[i:i+16] for i in range(0, len(STREAM), 16)], MAX_SIZE)
    show('command by command / line by line', by_line)
    show('byte by byte', by_byte)
    show('16-byte segments', by_16)

    bad = False
    for name, result in (('line by line', by_line), ('byte by byte', by_byte),
                         ('16-byte segments', by_16)):
        executed = [c[0] for c in result[1] if c[0] in ('RSET', 'NOOP')]
        if executed:
            bad = True
            print('VIOLATION (%s): %d content lines were executed as '
                  'commands: %r' % (name, len(executed), executed))
        if b'500 ' in result[0]:
            bad = True
            print('VIOLATION (%s): content lines were answered with '
                  '"500 command unrecognized"' % name)
    if not (by_line == by_byte == by_16):
        bad = True
        print('VIOLATION: replies/callbacks differ between segmentations')
    if bad:
        return 1
    print('OK: the oversize message was rejected and its content skipped')
    return 0


if __name__ == '__main__':
    sys.exit(main())
