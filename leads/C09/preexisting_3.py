"""Pre-existing C09 violation 3: DataReader counts every byte of a recv()
result against the SIZE limit, including pipelined commands that FOLLOW the
end-of-data marker in the same segment.  A 6 byte message is rejected as too
big and the pipelined commands after it are thrown away.
"""
import os
import sys
import warnings

warnings.filterwarnings('ignore')
sys.path.insert(0, os.getcwd())

from slimta.smtp.server import Server  # noqa: E402
from slimta.smtp import ConnectionLost  # noqa: E402


class FakeSocket(object):

    def __init__(self, chunks):
        self.chunks = list(chunks)
        self.sent = b''

    def fileno(self):
        return -1

    def getpeername(self):
        return ('127.0.0.1', 12345)

    def recv(self, n):
        if not self.chunks:
            return b''
        chunk = self.chunks.pop(0)
        assert 0 < len(chunk) <= n
        return chunk

    def sendall(self, data):
        self.sent += data

    def close(self):
        pass


class Handlers(object):

    def __init__(self):
        self.calls = []

    def BANNER_(self, reply):
        self.calls.append(('BANNER',))

    def EHLO(self, reply, ehlo_as):
        self.calls.append(('EHLO', ehlo_as))

    def MAIL(self, reply, address, params):
        self.calls.append(('MAIL', address, sorted(params.items())))

    def RCPT(self, reply, address, params):
        self.calls.append(('RCPT', address, sorted(params.items())))

    def DATA(self, reply):
        self.calls.append(('DATA',))

    def HAVE_DATA(self, reply, data, err):
        self.calls.append(('HAVE_DATA', data, type(err).__name__))
        if err is not None:
            # what slimta.edge.smtp.SmtpSession does for MessageTooBig
            reply.code = '552'
            reply.message = '5.3.4 Message exceeded size limit'

    def RSET(self, reply):
        self.calls.append(('RSET',))

    def NOOP(self, reply):
        self.calls.append(('NOOP',))

    def QUIT(self, reply):
        self.calls.append(('QUIT',))

    def CLOSE(self):
        self.calls.append(('CLOSE',))


def run(chunks, max_size):
    sock = FakeSocket(chunks)
    handlers = Handlers()
    server = Server(sock, handlers, ('127.0.0.1', 12345))
    server.extensions.add('SIZE', max_size)
    try:
        server.handle()
        end = 'closed'
    except ConnectionLost:
        end = 'connection lost'
    return sock.sent, handlers.calls, end




def show(name, result):
    sent, calls, end = result
    print('--- %s (%s)' % (name, end))
    print('  replies  : %r' % ([l for l in sent.split(b'\r\n') if l][6:],))
    print('  callbacks: %r' % (calls[2:],))


MAX_SIZE = 100
PRE = (b'EHLO client.example\r\n'
       b'MAIL FROM:<a@example.com>\r\n'
       b'RCPT TO:<b@example.com>\r\n'
       b'DATA\r\n')
REST = (b'tiny\r\n.\r\n'
        b'MAIL FROM:<sender-two@example.com>\r\n'
        b'RCPT TO:<recipient-two@example.com>\r\n'
        b'DATA\r\n'
        b'second message\r\n.\r\n'
        b'NOOP\r\n'
        b'QUIT\r\n')
STREAM = PRE + REST


def main():
    by_line = run(STREAM.splitlines(True), MAX_SIZE)
    burst = run([STREAM], MAX_SIZE)
    two = run([PRE, REST], MAX_SIZE)
    show('command by command', by_line)
    show('one pipelined burst', burst)
    show('DATA command, then everything else in a second segment', two)
    bad = False
    for name, result in (('command by command', by_line), ('burst', burst),
                         ('two segments', two)):
        bodies = [c[1] for c in result[1] if c[0] == 'HAVE_DATA']
        if bodies != [b'tiny\r\n', b'second message\r\n']:
            bad = True
            print('VIOLATION (%s): messages delivered: %r (both are far below '
                  'SIZE %d)' % (name, bodies, MAX_SIZE))
        if ('QUIT',) not in result[1]:
            bad = True
            print('VIOLATION (%s): pipelined commands after the message were '
                  'swallowed; session ended with %r' % (name, result[2]))
    if not (by_line == burst == two):
        bad = True
        print('VIOLATION: replies/callbacks differ between segmentations')
    if bad:
        return 1
    print('OK: both small messages accepted regardless of segmentation')
    return 0


if __name__ == '__main__':
    sys.exit(main())
