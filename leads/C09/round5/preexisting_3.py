"""Pre-existing C09 violation 3: DataReader.recv_piece() adds the length of
the whole recv() result to the message size *before* looking for the
end-of-data marker, so commands pipelined behind a message that is well under
the SIZE limit count against the limit. The message is then refused with 552
and the whole piece - including the commands that followed the message - is
thrown away (commands swallowed)."""
import os
import sys
import warnings
warnings.simplefilter('ignore')
sys.path.insert(0, os.getcwd())

from slimta.smtp.server import Server          # noqa: E402
from slimta.smtp import ConnectionLost, MessageTooBig   # noqa: E402


class FakeSocket(object):
    def __init__(self, chunks):
        self.chunks = list(chunks)
        self.out = b''

    def fileno(self):
        return -1

    def getpeername(self):
        return ('127.0.0.1', 0)

    def recv(self, n):
        if not self.chunks:
            return b''
        chunk = self.chunks.pop(0)
        if len(chunk) > n:
            self.chunks.insert(0, chunk[n:])
            chunk = chunk[:n]
        return chunk

    def sendall(self, data):
        self.out += data

    def close(self):
        pass


class Handlers(object):
    """Behaves like slimta.edge.smtp.SmtpSession for over-size messages."""
    def __init__(self):
        self.calls = []

    def MAIL(self, reply, address, params):
        self.calls.append(('MAIL', address))

    def RCPT(self, reply, address, params):
        self.calls.append(('RCPT', address))

    def RSET(self, reply):
        self.calls.append(('RSET',))

    def NOOP(self, reply):
        self.calls.append(('NOOP',))

    def HAVE_DATA(self, reply, data, err):
        self.calls.append(('HAVE_DATA', data, type(err).__name__))
        if isinstance(err, MessageTooBig):
            reply.code = '552'
            reply.message = '5.3.4 Message exceeded size limit'

    def QUIT(self, reply):
        self.calls.append(('QUIT',))


def run(chunks, max_size):
    sock = FakeSocket(chunks)
    h = Handlers()
    server = Server(sock, h, ('127.0.0.1', 0))
    server.extensions.add('SIZE', max_size)     # what SmtpEdge(max_size=) does
    try:
        server.handle()
        end = 'closed'
    except ConnectionLost:
        end = 'connection lost'
    return sock.out, h.calls, end


def show(name, res):
    print('--- ' + name)
    print('  replies:')
    for line in res[0].split(b'\r\n'):
        if line and not line.startswith(b'250-') and b'SIZE' not in line:
            print('     ', line.decode())
    print('  callbacks:')
    for c in res[1]:
        print('     ', c)
    print('  end:', res[2])


def compare(variants, max_size, forbidden=()):
    results = [(name, run(chunks, max_size)) for name, chunks in variants]
    for name, res in results:
        show(name, res)
    same = all(res == results[0][1] for _, res in results)
    print()
    for name, res in results:
        for call in res[1]:
            if call in forbidden:
                print('VIOLATION: %s: message content was executed as a '
                      'command: %r' % (name, call))
                same = False
    if same:
        print('OK: identical replies and callbacks for all segmentations')
        return 0
    print('VIOLATION: replies / callbacks depend on the segmentation')
    return 1

MAX = 100
PRE = b'EHLO c\r\nMAIL FROM:<a@example.com>\r\nRCPT TO:<b@example.com>\r\n'
MESSAGE = b'Subject: small\r\n\r\n' + b'x' * 30 + b'\r\n.\r\n'
FOLLOWING = (b'MAIL FROM:<second@example.com>\r\n'
             b'RCPT TO:<other@example.com>\r\nRSET\r\nNOOP\r\nQUIT\r\n')
assert len(MESSAGE) < MAX - 20 and len(MESSAGE + FOLLOWING) > MAX

variants = [
    ('message and following commands in separate reads',
     [PRE, b'DATA\r\n', MESSAGE, FOLLOWING]),
    ('message and following commands in one read',
     [PRE, b'DATA\r\n', MESSAGE + FOLLOWING]),
]
sys.exit(compare(variants, MAX))
