"""Pre-existing C03 violation (pristine tree): a relay that answers with a
per-position *sequence* of results for an envelope that lists one address
twice.

Queue._attempt() turns the sequence into a dict keyed by address, so for a
duplicated address only the LAST result survives.  With results
[250, 450, 450] for ['dup@', 'other@', 'dup@'] the accepted first copy of
dup@ is forgotten: nothing is recorded as delivered and the next attempt is
made for all three positions again, i.e. it includes a recipient the relay
already reported as delivered.

Exits 1 when the violation is observed, 0 otherwise.
"""
import os
import sys
import warnings

warnings.filterwarnings('ignore')
sys.path.insert(0, os.getcwd())

import gevent  # noqa: E402

from slimta.queue import Queue  # noqa: E402
from slimta.queue.dict import DictStorage  # noqa: E402
from slimta.relay import Relay, TransientRelayError  # noqa: E402
from slimta.envelope import Envelope  # noqa: E402
from slimta.smtp.reply import Reply  # noqa: E402


class SeqRelay(Relay):

    def __init__(self):
        super(SeqRelay, self).__init__()
        self.attempts = []

    def attempt(self, envelope, attempts):
        self.attempts.append(list(envelope.recipients))
        if len(self.attempts) == 1:
            later = TransientRelayError('later', Reply('450', '4.2.0 later'))
            return [Reply('250', '2.0.0 ok'), later, later]
        return [Reply('250', '2.0.0 ok') for _ in envelope.recipients]


def main():
    relay = SeqRelay()
    queue = Queue(DictStorage(), relay, backoff=lambda env, n: 0,
                  bounce_factory=lambda env, reply: None)
    queue.start()
    env = Envelope('sender@example.com',
                   ['dup@example.com', 'other@example.com',
                    'dup@example.com'])
    env.parse(b'Subject: x\r\n\r\nbody\r\n')
    queue.enqueue(env)
    gevent.sleep(0.2)
    queue.kill()
    print('relay attempts:', relay.attempts)
    if len(relay.attempts) < 2:
        print('unexpected: no second attempt')
        return 2
    second = relay.attempts[1]
    if second.count('dup@example.com') > 1 or len(second) > 2:
        print('VIOLATION: position 0 (dup@, answered 250 in attempt 1) is '
              'part of attempt 2 again; expected attempt 2 to be '
              "['other@example.com', 'dup@example.com']")
        return 1
    print('ok: the accepted copy was not attempted again')
    return 0


if __name__ == '__main__':
    sys.exit(main())
