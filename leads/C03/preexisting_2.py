"""Pre-existing C03 violation 2: a fetch for dispatch (Queue._dequeue) that is
in flight while the first attempt of the same message finishes uses the stale
envelope it fetched, so the recipients that attempt just settled are attempted
again (and the backoff is skipped).

The timetable entry comes from the storage's own wait() announcement of the
message this process has just written (RedisStorage.write() pushes it,
RedisStorage.wait() pops it): it can be scheduled before enqueue() has marked
the message active.

Run as:  cd <repo root> && /venv/bin/python SEED/preexisting_2.py
Exits 1 when a settled recipient is attempted again, 0 otherwise.

No redis server is needed: the client object of RedisStorage is replaced by an
in-memory stand-in.  The only timing assumptions are (i) the reply to HMGET
(which carries the whole pickled message) takes 50 ms to arrive, (ii) the
reply to the write pipeline takes 5 ms, (iii) the relay answers in 10 ms.
"""
from __future__ import print_function

import os
import sys
import fnmatch

sys.path.insert(0, os.getcwd())

import gevent
from gevent.queue import Queue as GQueue

from slimta.queue import Queue
from slimta.redisstorage import RedisStorage
from slimta.relay import Relay, TransientRelayError
from slimta.envelope import Envelope

HMGET_REPLY_LATENCY = 0.05
WRITE_REPLY_LATENCY = 0.005
RELAY_TIME = 0.01


def _b(value):
    if isinstance(value, bytes):
        return value
    if isinstance(value, float):
        return repr(value).encode('ascii')
    return str(value).encode('ascii')


class FakePipeline(object):

    def __init__(self, client):
        self.client = client
        self.ops = []

    def hmset(self, key, mapping):
        self.ops.append(lambda: self.client.hmset(key, mapping))

    def rpush(self, key, value):
        self.ops.append(lambda: self.client.rpush(key, value))

    def execute(self):
        ops, self.ops = self.ops, []
        ret = [op() for op in ops]       # executed by the server ...
        gevent.sleep(WRITE_REPLY_LATENCY)  # ... reply travels back
        return ret


class FakeRedis(object):

    def __init__(self):
        self.hashes = {}
        self.lists = {}

    def _list(self, key):
        return self.lists.setdefault(key, GQueue())

    def hsetnx(self, key, field, value):
        h = self.hashes.setdefault(key, {})
        if field in h:
            return 0
        h[field] = _b(value)
        return 1

    def hset(self, key, field, value):
        h = self.hashes.setdefault(key, {})
        new = field not in h
        h[field] = _b(value)
        return 1 if new else 0

    def hmset(self, key, mapping):
        for field, value in mapping.items():
            self.hset(key, field, value)
        return True

    def hincrby(self, key, field, amount=1):
        h = self.hashes.setdefault(key, {})
        new = int(h.get(field, b'0')) + amount
        h[field] = _b(new)
        return new

    def hget(self, key, field):
        return self.hashes.get(key, {}).get(field)

    def hmget(self, key, *fields):
        h = self.hashes.get(key, {})
        ret = [h.get(field) for field in fields]   # executed by the server
        gevent.sleep(HMGET_REPLY_LATENCY)          # big reply travels back
        return ret

    def keys(self, pattern):
        return [k.encode('ascii') for k in list(self.hashes)
                if fnmatch.fnmatchcase(k, pattern)]

    def delete(self, key):
        return 1 if self.hashes.pop(key, None) is not None else 0

    def rpush(self, key, value):
        self._list(key).put(_b(value))
        return 1

    def blpop(self, keys, timeout=0):
        key = keys[0]
        value = self._list(key).get()
        return (key.encode('ascii'), value)

    def pipeline(self):
        return FakePipeline(self)


class ScriptedRelay(Relay):

    def __init__(self):
        super(ScriptedRelay, self).__init__()
        self.attempts = []

    def attempt(self, envelope, attempts):
        rcpts = list(envelope.recipients)
        self.attempts.append(rcpts)
        gevent.sleep(RELAY_TIME)
        if len(self.attempts) == 1:
            return {'a@example.com': None,
                    'b@example.com': TransientRelayError('try later')}
        return dict((rcpt, None) for rcpt in rcpts)


def main():
    storage = RedisStorage(prefix='demo:')
    storage.redis = FakeRedis()
    relay = ScriptedRelay()
    # A long backoff: the second attempt should not even happen within the
    # observation window.
    queue = Queue(storage, relay, backoff=lambda env, n: 3600)
    queue.start()
    gevent.sleep(0.01)
    env = Envelope('sender@example.com', ['a@example.com', 'b@example.com'])
    env.parse(b'Subject: demo\r\n\r\nbody\r\n')
    queue.enqueue(env)
    gevent.sleep(0.5)
    queue.kill()
    print('attempts seen by the relay:', relay.attempts)
    if len(relay.attempts) > 1 and 'a@example.com' in relay.attempts[1]:
        print('VIOLATION: a@example.com was delivered in attempt #1 and is '
              'attempted again in attempt #2 (stale envelope fetched by '
              '_dequeue while attempt #1 was finishing)')
        sys.exit(1)
    print('OK: settled recipient not attempted again')
    sys.exit(0)


if __name__ == '__main__':
    main()
