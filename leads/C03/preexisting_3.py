"""Pre-existing C03 violation 3 (corner case): per-recipient results given as a
SEQUENCE for an envelope that lists one address twice.

Queue._attempt turns the sequence into a dict keyed by address, so the result
of the last copy of an address overwrites the result of the first copy.  With
recipients [a, b, a] and results [success, 4xx, 4xx] the success reported for
position 0 is lost and all three positions are attempted again.

Run as:  cd <repo root> && /venv/bin/python SEED/preexisting_3.py
Exits 1 when the position reported as delivered is attempted again.
"""
from __future__ import print_function

import os
import sys

sys.path.insert(0, os.getcwd())

import gevent

from slimta.queue import Queue
from slimta.queue.dict import DictStorage
from slimta.relay import Relay, TransientRelayError
from slimta.envelope import Envelope


class SequenceRelay(Relay):

    def __init__(self):
        super(SequenceRelay, self).__init__()
        self.attempts = []

    def attempt(self, envelope, attempts):
        rcpts = list(envelope.recipients)
        self.attempts.append(rcpts)
        if len(self.attempts) == 1:
            # one result per position
            return [None,
                    TransientRelayError('try later'),
                    TransientRelayError('try later')]
        return [None] * len(rcpts)


def main():
    store = DictStorage()
    relay = SequenceRelay()
    queue = Queue(store, relay, backoff=lambda env, n: 0)
    queue.start()
    env = Envelope('sender@example.com',
                   ['a@example.com', 'b@example.com', 'a@example.com'])
    env.parse(b'Subject: demo\r\n\r\nbody\r\n')
    queue.enqueue(env)
    gevent.sleep(0.5)
    queue.kill()
    print('attempts seen by the relay:', relay.attempts)
    if len(relay.attempts) < 2:
        print('INCONCLUSIVE: the retry never happened')
        sys.exit(2)
    if len(relay.attempts[1]) != 2:
        print('VIOLATION: position 0 (a@example.com) was reported delivered '
              'in attempt #1, yet attempt #2 has %d recipients instead of the '
              '2 unsettled ones' % len(relay.attempts[1]))
        sys.exit(1)
    print('OK: only the two unsettled positions were attempted again')
    sys.exit(0)


if __name__ == '__main__':
    main()
