"""Pre-existing C03 violation 4: a message that this process has just written is
announced by the storage's wait() channel and can be dispatched -- and its
first attempt completely finished, bookkeeping included -- before
Queue.enqueue() gets to it.  enqueue() then only checks active_ids (the message
is no longer active) and starts "the first attempt" with the envelope it holds
in memory, which still lists every recipient.

enqueue() waits for the writes of ALL envelopes produced by the queue policies
(and _pool_imap performs them one after the other) before it spawns any
attempt, so with a splitting policy such as RecipientDomainSplit the window is
as long as the remaining writes take.

Run as:  cd <repo root> && /venv/bin/python SEED/preexisting_4.py
Exits 1 when a settled recipient is attempted again, 0 otherwise.

No redis server is needed: the client object of RedisStorage is replaced by an
in-memory stand-in.  Timing assumptions: the reply of the write pipeline takes
30 ms to arrive, every other redis command is immediate, the relay answers in
5 ms.
"""
from __future__ import print_function

import os
import sys
import fnmatch

sys.path.insert(0, os.getcwd())

import gevent
from gevent.queue import Queue as GQueue

from slimta.queue import Queue
from slimta.redisstorage import RedisStorage
from slimta.relay import Relay, TransientRelayError
from slimta.policy.split import RecipientDomainSplit
from slimta.envelope import Envelope

HMGET_REPLY_LATENCY = 0.0
WRITE_REPLY_LATENCY = 0.03
RELAY_TIME = 0.005


def _b(value):
    if isinstance(value, bytes):
        return value
    if isinstance(value, float):
        return repr(value).encode('ascii')
    return str(value).encode('ascii')


class FakePipeline(object):

    def __init__(self, client):
        self.client = client
        self.ops = []

    def hmset(self, key, mapping):
        self.ops.append(lambda: self.client.hmset(key, mapping))

    def rpush(self, key, value):
        self.ops.append(lambda: self.client.rpush(key, value))

    def execute(self):
        ops, self.ops = self.ops, []
        ret = [op() for op in ops]       # executed by the server ...
        gevent.sleep(WRITE_REPLY_LATENCY)  # ... reply travels back
        return ret


class FakeRedis(object):

    def __init__(self):
        self.hashes = {}
        self.lists = {}

    def _list(self, key):
        return self.lists.setdefault(key, GQueue())

    def hsetnx(self, key, field, value):
        h = self.hashes.setdefault(key, {})
        if field in h:
            return 0
        h[field] = _b(value)
        return 1

    def hset(self, key, field, value):
        h = self.hashes.setdefault(key, {})
        new = field not in h
        h[field] = _b(value)
        return 1 if new else 0

    def hmset(self, key, mapping):
        for field, value in mapping.items():
            self.hset(key, field, value)
        return True

    def hincrby(self, key, field, amount=1):
        h = self.hashes.setdefault(key, {})
        new = int(h.get(field, b'0')) + amount
        h[field] = _b(new)
        return new

    def hget(self, key, field):
        return self.hashes.get(key, {}).get(field)

    def hmget(self, key, *fields):
        h = self.hashes.get(key, {})
        ret = [h.get(field) for field in fields]   # executed by the server
        gevent.sleep(HMGET_REPLY_LATENCY)          # big reply travels back
        return ret

    def keys(self, pattern):
        return [k.encode('ascii') for k in list(self.hashes)
                if fnmatch.fnmatchcase(k, pattern)]

    def delete(self, key):
        return 1 if self.hashes.pop(key, None) is not None else 0

    def rpush(self, key, value):
        self._list(key).put(_b(value))
        return 1

    def blpop(self, keys, timeout=0):
        key = keys[0]
        value = self._list(key).get()
        return (key.encode('ascii'), value)

    def pipeline(self):
        return FakePipeline(self)


class ScriptedRelay(Relay):

    def __init__(self):
        super(ScriptedRelay, self).__init__()
        self.attempts = []
        self.settled = set()
        self.violations = []

    def attempt(self, envelope, attempts):
        rcpts = list(envelope.recipients)
        self.attempts.append(rcpts)
        again = sorted(self.settled & set(rcpts))
        if again:
            self.violations.append('attempt #%d %r contains %r, settled '
                                   'earlier' % (len(self.attempts), rcpts,
                                                again))
        gevent.sleep(RELAY_TIME)
        results = {}
        for rcpt in rcpts:
            if rcpt.startswith('slow') and rcpt not in self.settled \
                    and not getattr(self, 'slow_seen', False):
                self.slow_seen = True
                results[rcpt] = TransientRelayError('try later')
            else:
                results[rcpt] = None
                self.settled.add(rcpt)
        return results


def main():
    storage = RedisStorage(prefix='demo:')
    storage.redis = FakeRedis()
    relay = ScriptedRelay()
    queue = Queue(storage, relay, backoff=lambda env, n: 3600)
    queue.add_policy(RecipientDomainSplit())
    queue.start()
    gevent.sleep(0.01)
    # Two domains -> two envelopes -> two consecutive writes.
    env = Envelope('sender@example.com',
                   ['ok@one.example', 'slow@one.example', 'x@two.example'])
    env.parse(b'Subject: demo\r\n\r\nbody\r\n')
    queue.enqueue(env)
    gevent.sleep(0.5)
    queue.kill()
    print('attempts seen by the relay:', relay.attempts)
    if relay.violations:
        for v in relay.violations:
            print('VIOLATION:', v)
        sys.exit(1)
    print('OK: no settled recipient attempted again')
    sys.exit(0)


if __name__ == '__main__':
    main()
