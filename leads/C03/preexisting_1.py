"""Pre-existing C03 violation 1: DictStorage on top of shelve (the persistence
option its own docstring recommends) forgets the settled recipients.

Run as:  cd <repo root> && /venv/bin/python SEED/preexisting_1.py
Exits 1 when a settled recipient is attempted again, 0 otherwise.
"""
from __future__ import print_function

import os
import sys
import shelve
import shutil
import tempfile

sys.path.insert(0, os.getcwd())

import gevent

from slimta.queue import Queue
from slimta.queue.dict import DictStorage
from slimta.relay import Relay, TransientRelayError
from slimta.envelope import Envelope


class ScriptedRelay(Relay):

    def __init__(self):
        super(ScriptedRelay, self).__init__()
        self.attempts = []

    def attempt(self, envelope, attempts):
        rcpts = list(envelope.recipients)
        self.attempts.append(rcpts)
        if len(self.attempts) == 1:
            # first round: a is delivered, b must be retried
            return {'a@example.com': None,
                    'b@example.com': TransientRelayError('try later')}
        return dict((rcpt, None) for rcpt in rcpts)


def main():
    tmp = tempfile.mkdtemp()
    try:
        env_db = shelve.open(os.path.join(tmp, 'envelope'))
        meta_db = shelve.open(os.path.join(tmp, 'meta'))
        store = DictStorage(env_db, meta_db)
        relay = ScriptedRelay()
        queue = Queue(store, relay, backoff=lambda env, n: 0)
        queue.start()
        env = Envelope('sender@example.com',
                       ['a@example.com', 'b@example.com'])
        env.parse(b'Subject: demo\r\n\r\nbody\r\n')
        queue.enqueue(env)
        gevent.sleep(0.5)
        queue.kill()
        env_db.close()
        meta_db.close()
    finally:
        shutil.rmtree(tmp)
    print('attempts seen by the relay:', relay.attempts)
    if len(relay.attempts) < 2:
        print('INCONCLUSIVE: the retry never happened')
        sys.exit(2)
    if 'a@example.com' in relay.attempts[1]:
        print('VIOLATION: a@example.com was delivered in attempt #1 and is '
              'attempted again in attempt #2 (shelve-backed DictStorage)')
        sys.exit(1)
    print('OK: settled recipient not attempted again')
    sys.exit(0)


if __name__ == '__main__':
    main()
