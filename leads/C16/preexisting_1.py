"""Pre-existing violation of C16 in the pristine tree (worktree w4-c16).

QueuePolicy.apply() is documented as: "Optionally return *or generate* an
iterable of Envelope objects to replace the given envelope going forward.
Returning None or an empty list will keep using envelope."

Queue._run_policies() does

    ret = policy.apply(current)
    if ret:                       # a generator object is always truthy
        results.remove(current)
        results.extend(ret)       # consumes the generator
        for env in ret:           # ... so this loop never runs
            recurse(env, i+1)

so for a policy written as a generator (exactly what the docstring invites):

  A. the policies that come later in the chain (Forward, header additions,
     further splits) are never applied to the envelopes it produced, and
  B. when it generates nothing ("keep using envelope"), the input envelope is
     removed from the results and nothing at all is written to storage: every
     recipient of the message is lost.

The generator policy below is a straight re-statement of the built-in
RecipientSplit using ``yield``; with the list-returning built-in the very same
chains behave correctly (checked as a control).

Exits 1 when the violation is present, 0 if it were fixed.
"""

import os
import sys
import warnings

warnings.simplefilter('ignore')
sys.path.insert(0, os.getcwd())

from slimta.envelope import Envelope
from slimta.queue import Queue
from slimta.queue.dict import DictStorage
from slimta.policy import QueuePolicy
from slimta.policy.forward import Forward
from slimta.policy.split import RecipientSplit
from slimta.policy.headers import AddReceivedHeader

BODY = b'body\r\n'


class YieldingRecipientSplit(QueuePolicy):
    """RecipientSplit written as a generator, as the apply() doc allows."""

    def apply(self, envelope):
        if len(envelope.recipients) <= 1:
            return              # generates nothing: "keep using envelope"
        for rcpt in envelope.recipients:
            yield envelope.copy([rcpt])


def make_env(rcpts):
    env = Envelope('sender@example.com', list(rcpts))
    env.parse(b'From: sender@example.com\r\n\r\n' + BODY)
    env.timestamp = 1234567890.0
    env.receiver = 'mx.example.net'
    return env


def run(split_policy, rcpts):
    store = DictStorage()
    queue = Queue(store)
    fwd = Forward()
    fwd.add_mapping(r'@old\.example$', '@new.example')
    queue.add_policy(split_policy)
    queue.add_policy(fwd)
    queue.add_policy(AddReceivedHeader())
    queue.enqueue(make_env(rcpts))
    stored = list(store.env_db.values())
    rcpts_out = sorted(r for e in stored for r in e.recipients)
    received_first = all(e.headers.keys()[:1] == ['Received'] for e in stored)
    return rcpts_out, received_first


def main():
    bad = False
    two = ['a@old.example', 'b@other.example']
    one = ['a@old.example']
    want_two = ['a@new.example', 'b@other.example']
    want_one = ['a@new.example']

    for label, policy_cls in (('built-in RecipientSplit (control)',
                               RecipientSplit),
                              ('generator-style split policy',
                               YieldingRecipientSplit)):
        got2, recv2 = run(policy_cls(), two)
        got1, recv1 = run(policy_cls(), one)
        print(label)
        print('  2 rcpts: stored %r (expected %r), Received first: %s'
              % (got2, want_two, recv2))
        print('  1 rcpt : stored %r (expected %r), Received first: %s'
              % (got1, want_one, recv1))
        if got2 != want_two or not recv2 or got1 != want_one or not recv1:
            print('  -> VIOLATION')
            bad = True
    if bad:
        print('FAIL: Queue._run_policies consumes a generated result twice')
        return 1
    print('PASS')
    return 0


if __name__ == '__main__':
    sys.exit(main())
