"""Pre-existing C02 violation 3: both edges copy the reply carried by the
failure (QueueError.reply / RelayError.reply) to the client verbatim, without
checking that it is a 4xx/5xx reply.  A failure whose reply has a 2xx code is
therefore reported to the client as success.  This is reachable with shipped
code: HttpRelay turns a non-2xx HTTP response whose X-Smtp-Reply header says
"250; ..." into SmtpRelayError.factory(Reply(250)) (a TransientRelayError),
and anything that is not 5xx becomes a transient failure in
SmtpRelayError.factory().

Run as:  cd <repo root> && /venv/bin/python SEED/preexisting_3.py
"""
import os
import sys

sys.path.insert(0, os.getcwd())
sys.stderr = open(os.devnull, "w")

import gevent
from gevent import socket as gsocket
from io import BytesIO
from base64 import b64encode

from slimta.edge.smtp import SmtpEdge, SmtpValidators
from slimta.edge.wsgi import WsgiEdge
from slimta.queue import Queue, QueueError
from slimta.queue.dict import DictStorage
from slimta.queue.proxy import ProxyQueue
from slimta.policy import QueuePolicy
from slimta.relay import Relay, TransientRelayError
from slimta.smtp.reply import Reply

MESSAGE = b"From: a@example.com\r\nSubject: hi\r\n\r\nbody\r\n"


def smtp_session(queue, rcpts, validator_class=None):
    """One SMTP transaction over a socket pair; returns (rcpt replies,
    reply to the end of DATA)."""
    edge = SmtpEdge(None, queue, validator_class=validator_class,
                    hostname="edge.example.com")
    server_sock, client_sock = gsocket.socketpair()
    server = gevent.spawn(edge.handle, server_sock, ("127.0.0.1", 1234))
    f = client_sock.makefile("rwb", 0)

    def read_reply():
        while True:
            line = f.readline()
            if not line:
                return ""
            if line[3:4] != b"-":
                return line.decode("ascii").rstrip()

    def cmd(line):
        f.write(line + b"\r\n")
        return read_reply()

    final = ""
    rcpt_replies = []
    with gevent.Timeout(20):
        read_reply()
        cmd(b"EHLO client.example.com")
        cmd(b"MAIL FROM:<sender@example.com>")
        for rcpt in rcpts:
            rcpt_replies.append(
                cmd(b"RCPT TO:<" + rcpt.encode("ascii") + b">"))
        assert cmd(b"DATA")[:3] == "354"
        f.write(MESSAGE + b".\r\n")
        final = read_reply()
    client_sock.close()
    server.join(timeout=5)
    return rcpt_replies, final


def wsgi_request(queue, rcpts):
    edge = WsgiEdge(queue, hostname="edge.example.com")
    environ = {
        "REQUEST_METHOD": "POST", "PATH_INFO": "/",
        "CONTENT_TYPE": "message/rfc822",
        "CONTENT_LENGTH": str(len(MESSAGE)),
        "REMOTE_ADDR": "127.0.0.1", "wsgi.input": BytesIO(MESSAGE),
        "wsgi.url_scheme": "http", "HTTP_X_EHLO": "client.example.com",
        "HTTP_X_ENVELOPE_SENDER":
            b64encode(b"sender@example.com").decode("ascii"),
        "HTTP_X_ENVELOPE_RECIPIENT":
            ", ".join(b64encode(r.encode("ascii")).decode("ascii")
                      for r in rcpts),
    }
    seen = []
    with gevent.Timeout(20):
        edge(environ, lambda status, headers, *a: seen.append(status))
    return seen[0] if seen else ""


def stored_rcpts(store):
    ret = []
    for env in store.env_db.values():
        ret.extend(env.recipients)
    return sorted(ret)

from slimta.relay.smtp import SmtpRelayError


class FailingRelay(Relay):
    """What HttpRelay does for `HTTP/1.1 502 Bad Gateway` +
    `X-Smtp-Reply: 250; message="2.0.0 Ok"` from a confused upstream."""

    def attempt(self, envelope, attempts):
        raise SmtpRelayError.factory(Reply('250', '2.0.0 Ok'))


class FailingStorage(DictStorage):

    def write(self, envelope, timestamp):
        err = QueueError('write refused')
        err.reply = Reply('250', '2.0.0 Ok')
        raise err


def main():
    bad = []
    rcpts = ['one@example.com']
    _, final = smtp_session(ProxyQueue(FailingRelay()), rcpts)
    status = wsgi_request(ProxyQueue(FailingRelay()), rcpts)
    print('ProxyQueue, relay raised a RelayError: smtp {0!r}, wsgi {1!r}'
          .format(final, status))
    if final[:1] == '2':
        bad.append('smtp/proxy')
    if status[:1] == '2':
        bad.append('wsgi/proxy')

    store = FailingStorage()
    _, final = smtp_session(Queue(store), rcpts)
    store2 = FailingStorage()
    status = wsgi_request(Queue(store2), rcpts)
    print('Queue, write raised a QueueError: smtp {0!r}, wsgi {1!r}, '
          'stored {2}'.format(final, status,
                              stored_rcpts(store) + stored_rcpts(store2)))
    if final[:1] == '2':
        bad.append('smtp/queue')
    if status[:1] == '2':
        bad.append('wsgi/queue')
    if bad:
        print('VIOLATION: a failed write/relay was answered with 2xx:', bad)
        return 1
    print('ok')
    return 0


if __name__ == '__main__':
    sys.exit(main())
