"""Pre-existing C02 violation 1: a queue policy written as a generator (which
QueuePolicy.apply() documents as allowed: "return or generate an iterable")
that happens to yield nothing makes Queue._run_policies() drop the envelope.
Nothing is written to storage, enqueue() returns [], and both edges answer
2xx.

Run as:  cd <repo root> && /venv/bin/python SEED/preexisting_1.py
"""
import os
import sys

sys.path.insert(0, os.getcwd())
sys.stderr = open(os.devnull, "w")

import gevent
from gevent import socket as gsocket
from io import BytesIO
from base64 import b64encode

from slimta.edge.smtp import SmtpEdge, SmtpValidators
from slimta.edge.wsgi import WsgiEdge
from slimta.queue import Queue, QueueError
from slimta.queue.dict import DictStorage
from slimta.queue.proxy import ProxyQueue
from slimta.policy import QueuePolicy
from slimta.relay import Relay, TransientRelayError
from slimta.smtp.reply import Reply

MESSAGE = b"From: a@example.com\r\nSubject: hi\r\n\r\nbody\r\n"


def smtp_session(queue, rcpts, validator_class=None):
    """One SMTP transaction over a socket pair; returns (rcpt replies,
    reply to the end of DATA)."""
    edge = SmtpEdge(None, queue, validator_class=validator_class,
                    hostname="edge.example.com")
    server_sock, client_sock = gsocket.socketpair()
    server = gevent.spawn(edge.handle, server_sock, ("127.0.0.1", 1234))
    f = client_sock.makefile("rwb", 0)

    def read_reply():
        while True:
            line = f.readline()
            if not line:
                return ""
            if line[3:4] != b"-":
                return line.decode("ascii").rstrip()

    def cmd(line):
        f.write(line + b"\r\n")
        return read_reply()

    final = ""
    rcpt_replies = []
    with gevent.Timeout(20):
        read_reply()
        cmd(b"EHLO client.example.com")
        cmd(b"MAIL FROM:<sender@example.com>")
        for rcpt in rcpts:
            rcpt_replies.append(
                cmd(b"RCPT TO:<" + rcpt.encode("ascii") + b">"))
        assert cmd(b"DATA")[:3] == "354"
        f.write(MESSAGE + b".\r\n")
        final = read_reply()
    client_sock.close()
    server.join(timeout=5)
    return rcpt_replies, final


def wsgi_request(queue, rcpts):
    edge = WsgiEdge(queue, hostname="edge.example.com")
    environ = {
        "REQUEST_METHOD": "POST", "PATH_INFO": "/",
        "CONTENT_TYPE": "message/rfc822",
        "CONTENT_LENGTH": str(len(MESSAGE)),
        "REMOTE_ADDR": "127.0.0.1", "wsgi.input": BytesIO(MESSAGE),
        "wsgi.url_scheme": "http", "HTTP_X_EHLO": "client.example.com",
        "HTTP_X_ENVELOPE_SENDER":
            b64encode(b"sender@example.com").decode("ascii"),
        "HTTP_X_ENVELOPE_RECIPIENT":
            ", ".join(b64encode(r.encode("ascii")).decode("ascii")
                      for r in rcpts),
    }
    seen = []
    with gevent.Timeout(20):
        edge(environ, lambda status, headers, *a: seen.append(status))
    return seen[0] if seen else ""


def stored_rcpts(store):
    ret = []
    for env in store.env_db.values():
        ret.extend(env.recipients)
    return sorted(ret)


class SplitWhenSeveral(QueuePolicy):
    """One envelope per recipient - but only when there is more than one
    recipient; otherwise the envelope is meant to be kept as it is."""

    def apply(self, envelope):
        if len(envelope.recipients) > 1:
            for rcpt in envelope.recipients:
                yield envelope.copy([rcpt])


def main():
    bad = []
    for rcpts in (['one@example.com', 'two@example.com'],
                  ['one@example.com']):
        store = DictStorage()
        queue = Queue(store)
        queue.add_policy(SplitWhenSeveral())
        _, final = smtp_session(queue, rcpts)
        print('smtp, {0} rcpt(s): reply {1!r}, stored {2}'.format(
            len(rcpts), final, stored_rcpts(store)))
        if final[:1] == '2' and stored_rcpts(store) != sorted(rcpts):
            bad.append('smtp/{0}'.format(len(rcpts)))

        store = DictStorage()
        queue = Queue(store)
        queue.add_policy(SplitWhenSeveral())
        status = wsgi_request(queue, rcpts)
        print('wsgi, {0} rcpt(s): status {1!r}, stored {2}'.format(
            len(rcpts), status, stored_rcpts(store)))
        if status[:1] == '2' and stored_rcpts(store) != sorted(rcpts):
            bad.append('wsgi/{0}'.format(len(rcpts)))
    if bad:
        print('VIOLATION: acknowledged although nothing was stored:', bad)
        return 1
    print('ok')
    return 0


if __name__ == '__main__':
    sys.exit(main())
