import os
import sys
sys.path.insert(0, os.getcwd())

"""Helpers shared by the C02 demos: an in-memory queue storage with fault
injection and drivers that push one message through the SMTP edge (over a
socketpair, no network) and through the WSGI edge (direct WSGI call).

"""

import logging
import re
import warnings
warnings.filterwarnings('ignore')
from base64 import b64encode
from io import BytesIO

import gevent
from gevent import socket as gsocket

from slimta.queue import QueueStorage
from slimta.edge.smtp import SmtpEdge
from slimta.edge.wsgi import WsgiEdge

logging.disable(logging.CRITICAL)
# Failures injected below are reported by the checks, not as tracebacks.
gevent.get_hub().exception_stream = None

MESSAGE = (b'From: sender@example.com\r\n'
           b'Subject: demo\r\n'
           b'\r\n'
           b'hello\r\n')


class MemStore(QueueStorage):
    """Keeps written envelopes in memory. ``faults`` maps the ordinal of a
    write() call (1 = first call since the last reset()) to an exception
    instance that the call raises instead of storing the envelope."""

    def __init__(self):
        super(MemStore, self).__init__()
        self.reset()

    def reset(self, faults=None, delay=None):
        self.faults = dict(faults or {})
        self.delay = delay
        self.calls = 0
        self.stored = []       # list of (sender, [recipients]) fully written
        self.in_progress = 0

    def write(self, envelope, timestamp):
        self.calls += 1
        ordinal = self.calls
        self.in_progress += 1
        try:
            if self.delay:
                gevent.sleep(self.delay)
            if ordinal in self.faults:
                raise self.faults[ordinal]
            self.stored.append((envelope.sender, list(envelope.recipients)))
            return 'id{0}'.format(ordinal)
        finally:
            self.in_progress -= 1

    def stored_recipients(self):
        ret = []
        for _, rcpts in self.stored:
            ret.extend(rcpts)
        return ret

    # The rest of the interface, for queues that have a relay.
    def set_timestamp(self, id, timestamp):
        pass

    def increment_attempts(self, id):
        return 1

    def set_recipients_delivered(self, id, rcpt_indexes):
        pass

    def load(self):
        return []

    def get(self, id):
        raise KeyError(id)

    def remove(self, id):
        pass

    def get_info(self):
        return {'size': len(self.stored)}


def _read_reply(fileobj):
    while True:
        line = fileobj.readline()
        if not line:
            return None, b''
        if re.match(br'^\d\d\d ', line):
            return line[:3].decode('ascii'), line
        if not re.match(br'^\d\d\d-', line):
            return None, line


def send_smtp(queue, sender, rcpts, data=MESSAGE, on_final=None,
              validator_class=None):
    """Runs one SMTP transaction against an SmtpEdge on a socketpair.
    Returns ``(accepted_rcpts, final_code)``; ``final_code`` is the code of
    the reply to the end of DATA, or None if the server hung up silently.
    ``on_final`` is called the moment the final reply has been read."""
    server_sock, client_sock = gsocket.socketpair()
    edge = SmtpEdge(None, queue, hostname='edge.example.com',
                    validator_class=validator_class)
    server = gevent.spawn(edge.handle, server_sock, ('127.0.0.1', 54321))
    fobj = client_sock.makefile('rb')
    accepted = []
    final = None
    try:
        with gevent.Timeout(20):
            _read_reply(fobj)
            client_sock.sendall(b'EHLO client.example.com\r\n')
            _read_reply(fobj)
            client_sock.sendall(b'MAIL FROM:<' + sender.encode() + b'>\r\n')
            _read_reply(fobj)
            for rcpt in rcpts:
                client_sock.sendall(b'RCPT TO:<' + rcpt.encode() + b'>\r\n')
                code, _ = _read_reply(fobj)
                if code and code.startswith('2'):
                    accepted.append(rcpt)
            client_sock.sendall(b'DATA\r\n')
            code, _ = _read_reply(fobj)
            if code == '354':
                client_sock.sendall(data + b'.\r\n')
                final, _ = _read_reply(fobj)
                if on_final:
                    on_final(final)
            if final != '421':
                client_sock.sendall(b'QUIT\r\n')
                _read_reply(fobj)
    finally:
        fobj.close()
        client_sock.close()
        server.join(5)
        server.kill()
    return accepted, final


def send_wsgi(queue, sender, rcpts, data=MESSAGE):
    """Posts one message to a WsgiEdge by calling it as a WSGI app. Returns
    ``(accepted_rcpts, http_status_code)``."""
    edge = WsgiEdge(queue, hostname='edge.example.com')

    def b64(val):
        return b64encode(val.encode('utf-8')).decode('ascii')

    environ = {'REQUEST_METHOD': 'POST',
               'PATH_INFO': '/',
               'REMOTE_ADDR': '127.0.0.1',
               'CONTENT_TYPE': 'message/rfc822',
               'CONTENT_LENGTH': str(len(data)),
               'wsgi.input': BytesIO(data),
               'wsgi.url_scheme': 'http',
               'HTTP_X_EHLO': 'client.example.com',
               'HTTP_X_ENVELOPE_SENDER': b64(sender),
               'HTTP_X_ENVELOPE_RECIPIENT': ', '.join(b64(r) for r in rcpts)}
    got = {}

    def start_response(status, headers):
        got['status'] = status
        got['headers'] = headers

    with gevent.Timeout(20):
        edge(environ, start_response)
    return list(rcpts), got['status'].split(' ', 1)[0]


def is_success(code):
    return code is not None and code.startswith('2')


# ---------------------------------------------------------------------------
# Pre-existing violation 2: a handle_have_data validator that leaves a 2xx
# code other than "250" makes the edge skip the hand-off to the queue, and
# the 2xx reply is sent although nothing was stored.
# ---------------------------------------------------------------------------

from slimta.queue import Queue
from slimta.edge.smtp import SmtpValidators


class TaggingValidators(SmtpValidators):
    """A content check that wants to tell the client that the message was
    accepted but tagged, and picks another success code for it."""

    def handle_have_data(self, reply, data):
        if b'X-Suspicious' in data:
            reply.code = '252'
            reply.message = '2.6.0 Message accepted, but tagged as suspicious'


def main():
    store = MemStore()
    queue = Queue(store)
    rcpts = ['alice@example.com']
    data = b'From: sender@example.com\r\nX-Suspicious: yes\r\n\r\nhello\r\n'
    accepted, code = send_smtp(queue, 'sender@example.com', rcpts, data=data,
                               validator_class=TaggingValidators)
    stored = store.stored_recipients()
    print('recipients that got a 2xx reply to RCPT :', accepted)
    print('reply to the end of DATA                :', code)
    print('storage write() calls                   :', store.calls)
    print('recipients written to queue storage     :', stored)
    missing = [r for r in accepted if r not in stored]
    if is_success(code) and missing:
        print('VIOLATION: message acknowledged with {0}, but the queue was '
              'never given the message'.format(code))
        sys.exit(1)
    print('ok')
    sys.exit(0)


if __name__ == '__main__':
    main()
