"""Pre-existing C02 violation 4: ProxyQueue.enqueue() only inspects
per-recipient relay results that are a Mapping, a list or a tuple.  Any other
sequence (Queue._attempt() accepts every collections.abc.Sequence as
per-recipient results) is ignored, so the message is acknowledged although
the relay refused every recipient.

Run as:  cd <repo root> && /venv/bin/python SEED/preexisting_4.py
"""
import os
import sys

sys.path.insert(0, os.getcwd())
sys.stderr = open(os.devnull, "w")

import gevent
from gevent import socket as gsocket
from io import BytesIO
from base64 import b64encode

from slimta.edge.smtp import SmtpEdge, SmtpValidators
from slimta.edge.wsgi import WsgiEdge
from slimta.queue import Queue, QueueError
from slimta.queue.dict import DictStorage
from slimta.queue.proxy import ProxyQueue
from slimta.policy import QueuePolicy
from slimta.relay import Relay, TransientRelayError
from slimta.smtp.reply import Reply

MESSAGE = b"From: a@example.com\r\nSubject: hi\r\n\r\nbody\r\n"


def smtp_session(queue, rcpts, validator_class=None):
    """One SMTP transaction over a socket pair; returns (rcpt replies,
    reply to the end of DATA)."""
    edge = SmtpEdge(None, queue, validator_class=validator_class,
                    hostname="edge.example.com")
    server_sock, client_sock = gsocket.socketpair()
    server = gevent.spawn(edge.handle, server_sock, ("127.0.0.1", 1234))
    f = client_sock.makefile("rwb", 0)

    def read_reply():
        while True:
            line = f.readline()
            if not line:
                return ""
            if line[3:4] != b"-":
                return line.decode("ascii").rstrip()

    def cmd(line):
        f.write(line + b"\r\n")
        return read_reply()

    final = ""
    rcpt_replies = []
    with gevent.Timeout(20):
        read_reply()
        cmd(b"EHLO client.example.com")
        cmd(b"MAIL FROM:<sender@example.com>")
        for rcpt in rcpts:
            rcpt_replies.append(
                cmd(b"RCPT TO:<" + rcpt.encode("ascii") + b">"))
        assert cmd(b"DATA")[:3] == "354"
        f.write(MESSAGE + b".\r\n")
        final = read_reply()
    client_sock.close()
    server.join(timeout=5)
    return rcpt_replies, final


def wsgi_request(queue, rcpts):
    edge = WsgiEdge(queue, hostname="edge.example.com")
    environ = {
        "REQUEST_METHOD": "POST", "PATH_INFO": "/",
        "CONTENT_TYPE": "message/rfc822",
        "CONTENT_LENGTH": str(len(MESSAGE)),
        "REMOTE_ADDR": "127.0.0.1", "wsgi.input": BytesIO(MESSAGE),
        "wsgi.url_scheme": "http", "HTTP_X_EHLO": "client.example.com",
        "HTTP_X_ENVELOPE_SENDER":
            b64encode(b"sender@example.com").decode("ascii"),
        "HTTP_X_ENVELOPE_RECIPIENT":
            ", ".join(b64encode(r.encode("ascii")).decode("ascii")
                      for r in rcpts),
    }
    seen = []
    with gevent.Timeout(20):
        edge(environ, lambda status, headers, *a: seen.append(status))
    return seen[0] if seen else ""


def stored_rcpts(store):
    ret = []
    for env in store.env_db.values():
        ret.extend(env.recipients)
    return sorted(ret)

from collections import deque, UserList


def refused():
    return TransientRelayError('greylisted',
                               Reply('451', '4.7.1 Greylisted, try again'))


class SeqRelay(Relay):

    def __init__(self, factory):
        super(SeqRelay, self).__init__()
        self.factory = factory

    def attempt(self, envelope, attempts):
        return self.factory([refused() for rcpt in envelope.recipients])


def main():
    bad = []
    rcpts = ['one@example.com', 'two@example.com']
    for factory in (list, tuple, deque, UserList):
        _, final = smtp_session(ProxyQueue(SeqRelay(factory)), rcpts)
        status = wsgi_request(ProxyQueue(SeqRelay(factory)), rcpts)
        print('results as {0}: smtp {1!r}, wsgi {2!r}'.format(
            factory.__name__, final, status))
        if final[:1] == '2' or status[:1] == '2':
            bad.append(factory.__name__)
    if bad:
        print('VIOLATION: every recipient was refused by the relay but the '
              'client got 2xx for result type(s):', bad)
        return 1
    print('ok')
    return 0


if __name__ == '__main__':
    sys.exit(main())
