"""Pre-existing C07 violation 4 (malformed commands): MAIL FROM / RCPT TO
without any argument raise TypeError inside the command method (421 + the
exception leaves Server.handle()) instead of 501; and malformed SIZE
parameter values (negative, missing value, "1_0") are accepted and the MAIL
callback is invoked.

Run as: cd <repo root> && /venv/bin/python SEED/preexisting_4.py
"""
import os
import sys
import warnings
warnings.simplefilter('ignore')
sys.path.insert(0, os.getcwd())

from slimta.smtp.server import Server  # noqa: E402


class FakeSocket(object):
    def __init__(self, chunks):
        self.chunks = list(chunks)
        self.sent = []

    def fileno(self):
        return -1

    def getpeername(self):
        return ('test', 0)

    def recv(self, n):
        return self.chunks.pop(0) if self.chunks else b''

    def sendall(self, data):
        self.sent.append(data)


class Handlers(object):
    def __init__(self):
        self.calls = []

    def MAIL(self, reply, address, params):
        self.calls.append(('MAIL', address, params))


def run(lines, size=None):
    sock = FakeSocket([b'EHLO client\r\n'] + lines + [b'QUIT\r\n'])
    handlers = Handlers()
    server = Server(sock, handlers)
    if size:
        server.extensions.add('SIZE', size)
    exc = None
    try:
        server.handle()
    except Exception as e:
        exc = e
    codes = [l[:3].decode() for l in b''.join(sock.sent).split(b'\r\n')
             if l and l[3:4] != b'-']
    return codes[2:], handlers.calls, exc


bad = False
for line in (b'MAIL\r\n', b'RCPT\r\n'):
    codes, calls, exc = run([line])
    print(line, '-> replies', codes, 'exception', repr(exc))
    if codes != ['501', '221'] or exc is not None:
        print('  VIOLATION: expected 501 and a session that goes on to QUIT')
        bad = True

for param in (b'SIZE=-5', b'SIZE', b'SIZE=1_0'):
    codes, calls, exc = run([b'MAIL FROM:<a@example.com> ' + param + b'\r\n'],
                            size=1000)
    print(param, '-> replies', codes, 'callbacks', calls)
    if calls or codes[0] != '501':
        print('  VIOLATION: malformed SIZE value accepted, MAIL callback ran')
        bad = True
sys.exit(1 if bad else 0)
