"""Pre-existing C07 violation 1: after a message is refused as too big, the
rest of that message is parsed as SMTP commands (callbacks run for message
content, one DATA content gets many replies).

Run as: cd <repo root> && /venv/bin/python SEED/preexisting_1.py
"""
import os
import sys
import warnings
warnings.simplefilter('ignore')
sys.path.insert(0, os.getcwd())

from slimta.smtp.server import Server  # noqa: E402
from slimta.smtp import MessageTooBig  # noqa: E402


class FakeSocket(object):
    def __init__(self, chunks):
        self.chunks = list(chunks)
        self.sent = []

    def fileno(self):
        return -1

    def getpeername(self):
        return ('test', 0)

    def recv(self, n):
        return self.chunks.pop(0) if self.chunks else b''

    def sendall(self, data):
        self.sent.append(data)


class Handlers(object):
    def __init__(self):
        self.calls = []

    def MAIL(self, reply, address, params):
        self.calls.append(('MAIL', address))

    def RCPT(self, reply, address, params):
        self.calls.append(('RCPT', address))

    def HAVE_DATA(self, reply, data, err):
        self.calls.append(('HAVE_DATA', type(err).__name__))
        if isinstance(err, MessageTooBig):   # what SmtpSession does
            reply.code = '552'
            reply.message = '5.3.4 Message exceeded size limit'


sock = FakeSocket([
    b'EHLO client\r\n',
    b'MAIL FROM:<sender@example.com>\r\n',
    b'RCPT TO:<rcpt@example.com>\r\n',
    b'DATA\r\n',
    # the message, sent by the client in two packets, 100 bytes allowed:
    b'Subject: big\r\n\r\n' + b'X' * 120 + b'\r\n',
    b'MAIL FROM:<forged@example.com>\r\n'
    b'RCPT TO:<victim@example.com>\r\n'
    b'.\r\n',
    b'QUIT\r\n'])
handlers = Handlers()
server = Server(sock, handlers)
server.extensions.add('SIZE', 100)
server.handle()

codes = [l[:3].decode() for l in b''.join(sock.sent).split(b'\r\n')
         if l and l[3:4] != b'-']
print('replies  :', codes)
print('callbacks:', handlers.calls)
# client sent: EHLO MAIL RCPT DATA <content> QUIT -> 220 250 250 250 354 552 221
expected = ['220', '250', '250', '250', '354', '552', '221']
bad = False
if codes != expected:
    print('VIOLATION: expected replies', expected)
    bad = True
if ('MAIL', 'forged@example.com') in handlers.calls:
    print('VIOLATION: MAIL/RCPT callbacks were invoked for lines that are '
          'part of the message content')
    bad = True
sys.exit(1 if bad else 0)
