"""Pre-existing C07 violations 5 (edge layer, slimta.edge.smtp.SmtpSession):

 a) the sender and recipients of a REJECTED message (have_data validator says
    550, or the message was too big) are not forgotten: session.envelope keeps
    the old Envelope, which is what the validators of the next transaction
    see (handle_mail) -- only a completed message, RSET and EHLO/HELO clear it;
    STARTTLS does not clear it either, although Server forgets the transaction.
 b) the documented validator hook handle_rset(reply) is never called, so the
    application's verdict on RSET is ignored.

Run as: cd <repo root> && /venv/bin/python SEED/preexisting_5.py
"""
import os
import sys
import warnings
warnings.simplefilter('ignore')
sys.path.insert(0, os.getcwd())

from slimta.smtp.server import Server  # noqa: E402
from slimta.edge.smtp import SmtpSession, SmtpValidators  # noqa: E402


class FakeSocket(object):
    def __init__(self, chunks):
        self.chunks = list(chunks)
        self.sent = []

    def fileno(self):
        return -1

    def getpeername(self):
        return ('127.0.0.1', 0)

    def recv(self, n):
        return self.chunks.pop(0) if self.chunks else b''

    def sendall(self, data):
        self.sent.append(data)


class Session(SmtpSession):
    def BANNER_(self, reply):      # no PTR lookup (no network here)
        self._call_validator('banner', reply, self.address)


seen = []


class Validators(SmtpValidators):
    def handle_have_data(self, reply, data):
        reply.code = '550'
        reply.message = '5.7.1 Message content rejected'

    def handle_mail(self, reply, sender, params):
        env = self.session.envelope
        seen.append(('handle_mail', sender,
                     env and (env.sender, list(env.recipients))))

    def handle_rset(self, reply):
        seen.append(('handle_rset',))
        reply.code = '451'
        reply.message = '4.3.0 not now'


def handoff(envelope):
    raise AssertionError('nothing may be queued here')


sock = FakeSocket([
    b'EHLO client\r\n',
    b'MAIL FROM:<first@example.com>\r\n',
    b'RCPT TO:<one@example.com>\r\n',
    b'DATA\r\n',
    b'rejected content\r\n.\r\n',
    b'MAIL FROM:<second@example.com>\r\n',
    b'RSET\r\n',
    b'QUIT\r\n'])
session = Session(('127.0.0.1', 0), Validators, handoff)
Server(sock, session).handle()
codes = [l[:3].decode() for l in b''.join(sock.sent).split(b'\r\n')
         if l and l[3:4] != b'-']
print('replies:', codes)
print('validators saw:', seen)

bad = False
second = [s for s in seen if s[0] == 'handle_mail' and
          s[1] == 'second@example.com'][0]
if second[2] is not None:
    print('VIOLATION (a): when the 2nd MAIL is validated the session still '
          'remembers the rejected message:', second[2])
    bad = True
if ('handle_rset',) not in seen or codes[-2] != '451':
    print('VIOLATION (b): handle_rset() was not consulted, RSET answered',
          codes[-2])
    bad = True
sys.exit(1 if bad else 0)
