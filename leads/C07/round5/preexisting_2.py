"""Pre-existing C07 violation 2: a non-UTF-8 byte in the argument of EHLO/HELO,
MAIL or RCPT is answered with 501 but then the session is torn down by a
UnicodeDecodeError escaping Server.handle(): the session ends without 221/421
and the following command lines are never answered.

Run as: cd <repo root> && /venv/bin/python SEED/preexisting_2.py
"""
import os
import sys
import warnings
warnings.simplefilter('ignore')
sys.path.insert(0, os.getcwd())

from slimta.smtp.server import Server  # noqa: E402


class FakeSocket(object):
    def __init__(self, chunks):
        self.chunks = list(chunks)
        self.sent = []

    def fileno(self):
        return -1

    def getpeername(self):
        return ('test', 0)

    def recv(self, n):
        return self.chunks.pop(0) if self.chunks else b''

    def sendall(self, data):
        self.sent.append(data)


bad = False
for name, line in [('MAIL', b'MAIL FROM:<caf\xe9@example.com>\r\n'),
                   ('RCPT', b'RCPT TO:<caf\xe9@example.com>\r\n'),
                   ('EHLO', b'EHLO caf\xe9\r\n')]:
    sock = FakeSocket([b'EHLO client\r\n', b'MAIL FROM:<a@example.com>\r\n',
                       b'RSET\r\n' if name != 'RCPT' else b'NOOP\r\n',
                       line, b'NOOP\r\n', b'QUIT\r\n'])
    server = Server(sock, None)
    exc = None
    try:
        server.handle()
    except Exception as e:
        exc = e
    codes = [l[:3].decode() for l in b''.join(sock.sent).split(b'\r\n')
             if l and l[3:4] != b'-']
    print(name, 'with byte 0xE9 -> replies', codes, 'exception', repr(exc))
    # 220, EHLO, MAIL, RSET/NOOP, <bad line: 501>, NOOP 250, QUIT 221
    if exc is not None or codes[-2:] != ['250', '221']:
        print('  VIOLATION: the malformed line ended the session without '
              '221/421; NOOP and QUIT were never answered')
        bad = True
sys.exit(1 if bad else 0)
