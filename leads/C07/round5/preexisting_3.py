"""Pre-existing C07 violation 3: an unknown command whose name equals one of
the session life-cycle callbacks of the handlers object (CLOSE, TLSHANDSHAKE)
is dispatched to that callback by Server._command_custom().

Run as: cd <repo root> && /venv/bin/python SEED/preexisting_3.py
"""
import os
import sys
import warnings
warnings.simplefilter('ignore')
sys.path.insert(0, os.getcwd())

from slimta.smtp.server import Server  # noqa: E402


class FakeSocket(object):
    def __init__(self, chunks):
        self.chunks = list(chunks)
        self.sent = []

    def fileno(self):
        return -1

    def getpeername(self):
        return ('test', 0)

    def recv(self, n):
        return self.chunks.pop(0) if self.chunks else b''

    def sendall(self, data):
        self.sent.append(data)


class Handlers(object):
    def __init__(self):
        self.calls = []

    def CLOSE(self, *args):
        self.calls.append(('CLOSE', len(args)))

    def TLSHANDSHAKE(self, *args):
        self.calls.append(('TLSHANDSHAKE', len(args)))


bad = False

sock = FakeSocket([b'EHLO client\r\n', b'CLOSE\r\n', b'TLSHANDSHAKE\r\n',
                   b'QUIT\r\n'])
handlers = Handlers()
Server(sock, handlers).handle()
print('lenient callbacks (*args):', handlers.calls)
if handlers.calls != [('CLOSE', 0)]:
    print('VIOLATION: the client commands "CLOSE"/"TLSHANDSHAKE" invoked the '
          'life-cycle callbacks in the middle of the session')
    bad = True


class Strict(object):
    def CLOSE(self):
        pass


sock = FakeSocket([b'EHLO client\r\n', b'CLOSE\r\n', b'NOOP\r\n', b'QUIT\r\n'])
exc = None
try:
    Server(sock, Strict()).handle()
except Exception as e:
    exc = e
codes = [l[:3].decode() for l in b''.join(sock.sent).split(b'\r\n')
         if l and l[3:4] != b'-']
print('strict CLOSE(self): replies', codes, 'exception', repr(exc))
if codes != ['220', '250', '500', '250', '221'] or exc is not None:
    print('VIOLATION: the unknown command "CLOSE" is not answered 500; it '
          'crashes the session (421 + TypeError out of Server.handle())')
    bad = True
sys.exit(1 if bad else 0)
