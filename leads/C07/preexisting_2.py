"""Pre-existing C07 violation 2: "MAIL" / "RCPT" without any argument (a
malformed variant of the command) is not answered with a 5xx syntax/sequence
error.  Server._command_MAIL/_command_RCPT pass arg=None to a bytes regex,
the TypeError is treated as an unhandled handler error: the client gets
"421 4.3.0 Unhandled system error", the session is torn down and the
exception propagates out of Server.handle().

Run as:  cd <repo root> && /venv/bin/python SEED/preexisting_2.py
exit 1 = violation present, exit 0 = fixed.
"""
import os
import sys
import warnings

warnings.simplefilter('ignore')
sys.path.insert(0, os.getcwd())

from slimta.smtp.server import Server  # noqa: E402


class FakeSocket(object):
    def __init__(self, chunks):
        self.chunks = list(chunks)
        self.sent = b''

    def fileno(self):
        return -1

    def getpeername(self):
        return ('127.0.0.1', 0)

    def recv(self, n):
        return self.chunks.pop(0) if self.chunks else b''

    def sendall(self, data):
        self.sent += data

    def close(self):
        pass


bad = False
for line in (b'MAIL\r\n', b'RCPT\r\n', b'mail   \r\n'):
    sock = FakeSocket([b'EHLO client.example\r\n', line, b'NOOP\r\n',
                       b'QUIT\r\n'])
    error = None
    try:
        Server(sock, None).handle()
    except Exception as exc:
        error = exc
    codes = [l[:3].decode() for l in sock.sent.split(b'\r\n')
             if len(l) >= 4 and l[3:4] == b' ']
    print(repr(line), '->', codes, 'exception:', repr(error))
    # expected: 220, 250 (EHLO), 5xx for the malformed line, 250 NOOP, 221
    ok = (error is None and len(codes) == 5 and codes[2][0] == '5'
          and codes[3] == '250' and codes[4] == '221')
    if not ok:
        bad = True

if bad:
    print('VIOLATION: a bare MAIL/RCPT crashes the session (421 + exception) '
          'instead of getting a 501/503 error reply')
    sys.exit(1)
print('OK')
sys.exit(0)
