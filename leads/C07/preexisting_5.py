"""Pre-existing C07 violation 5: unknown commands are dispatched to the
handler object by name (Server._command_custom -> _call_custom_handler), and
the server's own notification callbacks live in the same namespace.  A client
that sends the literal command "CLOSE" (or "TLSHANDSHAKE") makes the server
invoke handlers.CLOSE / handlers.TLSHANDSHAKE -- callbacks that are meant to
signal "session closed" / "TLS handshake done" -- in the middle of the
session, with the wrong arguments.  With the natural signatures the call
raises TypeError: 421 Unhandled system error, exception out of handle().

Run as:  cd <repo root> && /venv/bin/python SEED/preexisting_5.py
exit 1 = violation present, exit 0 = fixed.
"""
import os
import sys
import warnings

warnings.simplefilter('ignore')
sys.path.insert(0, os.getcwd())

from slimta.smtp.server import Server  # noqa: E402


class FakeSocket(object):
    def __init__(self, chunks):
        self.chunks = list(chunks)
        self.sent = b''

    def fileno(self):
        return -1

    def getpeername(self):
        return ('127.0.0.1', 0)

    def recv(self, n):
        return self.chunks.pop(0) if self.chunks else b''

    def sendall(self, data):
        self.sent += data

    def close(self):
        pass


class Handlers(object):
    def __init__(self):
        self.close_calls = []
        self.tls_calls = []

    def CLOSE(self, *args):
        self.close_calls.append(args)

    def TLSHANDSHAKE(self, *args):
        self.tls_calls.append(args)


sock = FakeSocket([b'EHLO client.example\r\n', b'CLOSE now\r\n',
                   b'TLSHANDSHAKE\r\n', b'QUIT\r\n'])
h = Handlers()
error = None
try:
    Server(sock, h).handle()
except Exception as exc:
    error = exc
codes = [l[:3].decode() for l in sock.sent.split(b'\r\n')
         if len(l) >= 4 and l[3:4] == b' ']
print('reply codes:', codes, 'exception:', repr(error))
print('CLOSE callback invocations      :', len(h.close_calls),
      [len(a) for a in h.close_calls])
print('TLSHANDSHAKE callback invocations:', len(h.tls_calls))

# expected: CLOSE is called exactly once (after QUIT, without arguments) and
# TLSHANDSHAKE never (no TLS in this session).
if len(h.close_calls) != 1 or h.close_calls[0] != () or h.tls_calls:
    print('VIOLATION: client-chosen command names reached the session '
          'notification callbacks')
    sys.exit(1)
print('OK')
sys.exit(0)
