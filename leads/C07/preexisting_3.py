"""Pre-existing C07 violation 3: an argument that is not valid UTF-8 in
EHLO / HELO / MAIL FROM / RCPT TO is answered with 501, but then the
UnicodeDecodeError is re-raised out of Server.handle(): the session ends
although no 221/421 reply was sent (the client sees a 501 and then a dropped
connection; following commands are never answered).  For MAIL/RCPT the decode
also happens before the sequence check.

Run as:  cd <repo root> && /venv/bin/python SEED/preexisting_3.py
exit 1 = violation present, exit 0 = fixed.
"""
import os
import sys
import warnings

warnings.simplefilter('ignore')
sys.path.insert(0, os.getcwd())

from slimta.smtp.server import Server  # noqa: E402


class FakeSocket(object):
    def __init__(self, chunks):
        self.chunks = list(chunks)
        self.sent = b''

    def fileno(self):
        return -1

    def getpeername(self):
        return ('127.0.0.1', 0)

    def recv(self, n):
        return self.chunks.pop(0) if self.chunks else b''

    def sendall(self, data):
        self.sent += data

    def close(self):
        pass


bad = False
for line in (b'EHLO caf\xe9\r\n', b'HELO caf\xe9\r\n',
             b'MAIL FROM:<caf\xe9@example.com>\r\n',
             b'RCPT TO:<caf\xe9@example.com>\r\n'):
    sock = FakeSocket([b'EHLO client.example\r\n', line, b'NOOP\r\n',
                       b'QUIT\r\n'])
    error = None
    try:
        Server(sock, None).handle()
    except Exception as exc:
        error = exc
    codes = [l[:3].decode() for l in sock.sent.split(b'\r\n')
             if len(l) >= 4 and l[3:4] == b' ']
    print(repr(line), '->', codes, 'exception:', type(error).__name__)
    # Either the session goes on (5xx, then NOOP 250, QUIT 221) or, if the
    # server wants to give up, the last reply must be 421.
    went_on = (error is None and len(codes) == 5 and codes[2][0] == '5'
               and codes[3:] == ['250', '221'])
    closed_properly = codes[-1] in ('221', '421') and len(codes) == 3
    if not (went_on or closed_properly):
        bad = True

if bad:
    print('VIOLATION: session ended after a 501 reply, without 221/421, and '
          'the exception escaped from Server.handle()')
    sys.exit(1)
print('OK')
sys.exit(0)
