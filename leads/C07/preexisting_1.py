"""Pre-existing C07 violation 1: after a message exceeds the SIZE limit the
server stops reading DATA content immediately, answers the DATA exchange and
goes back to command mode while the client is still sending the body.  The
remaining body lines are parsed as SMTP commands: each gets its own reply and
MAIL/RCPT/DATA/message callbacks are invoked from message *content*.

Run as:  cd <repo root> && /venv/bin/python SEED/preexisting_1.py
exit 1 = violation present, exit 0 = fixed.
"""
import os
import sys
import warnings

warnings.simplefilter('ignore')
sys.path.insert(0, os.getcwd())

from slimta.smtp.server import Server  # noqa: E402
from slimta.smtp import MessageTooBig  # noqa: E402


class FakeSocket(object):
    def __init__(self, chunks):
        self.chunks = list(chunks)
        self.sent = b''

    def fileno(self):
        return -1

    def getpeername(self):
        return ('127.0.0.1', 0)

    def recv(self, n):
        return self.chunks.pop(0) if self.chunks else b''

    def sendall(self, data):
        self.sent += data

    def close(self):
        pass


class Handlers(object):
    def __init__(self):
        self.calls = []

    def MAIL(self, reply, address, params):
        self.calls.append(('MAIL', address))

    def RCPT(self, reply, address, params):
        self.calls.append(('RCPT', address))

    def DATA(self, reply):
        self.calls.append(('DATA',))

    def HAVE_DATA(self, reply, data, err):
        self.calls.append(('HAVE_DATA', data, type(err).__name__))
        if isinstance(err, MessageTooBig):
            reply.code = '552'
            reply.message = '5.3.4 Message exceeded size limit'


# One message: 2 body segments.  The second segment is ordinary message text
# that merely *looks* like SMTP.
sock = FakeSocket([
    b'EHLO client.example\r\n',
    b'MAIL FROM:<a@example.com>\r\n',
    b'RCPT TO:<b@example.com>\r\n',
    b'DATA\r\n',
    b'Subject: big\r\n\r\n' + b'x' * 70 + b'\r\n',          # > SIZE 50
    b'MAIL FROM:<evil@example.com>\r\n'
    b'RCPT TO:<victim@example.com>\r\n'
    b'DATA\r\n'
    b'smuggled\r\n'
    b'.\r\n',                                               # real end of data
    b'QUIT\r\n',
])
h = Handlers()
server = Server(sock, h)
server.extensions.add('SIZE', 50)
server.handle()

codes = [l[:3].decode() for l in sock.sent.split(b'\r\n')
         if len(l) >= 4 and l[3:4] == b' ']
print('reply codes :', codes)
for c in h.calls:
    print('callback    :', c)

# Client sent 5 command lines (EHLO MAIL RCPT DATA QUIT) + one DATA content,
# so at most 7 final replies may be sent (fewer if a fix chooses to close the
# session instead of swallowing the rest of the body) and nothing from the
# body may reach a callback.
smuggled = [c for c in h.calls[4:]]
if len(codes) > 7 or smuggled:
    print('VIOLATION: body lines of the oversized message were executed as '
          'commands ({0} final replies for 5 command lines + 1 message; '
          'callbacks triggered by message content: {1!r})'
          .format(len(codes), smuggled))
    sys.exit(1)
print('OK')
sys.exit(0)
