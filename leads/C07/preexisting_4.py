"""Pre-existing C07 violation 4 (SmtpSession layer): sender and recipients are
not forgotten after a *rejected* message.  SmtpSession.HAVE_DATA returns early
when the message is too big or when handle_have_data() rejects it, without
clearing session.envelope (only the accepted path ends with
`self.envelope = None`).  The validators of the next transaction
(handle_mail, and handle_rset/handle_ehlo style hooks looking at
self.session.envelope) still see the old sender and recipient list.

Run as:  cd <repo root> && /venv/bin/python SEED/preexisting_4.py
exit 1 = violation present, exit 0 = fixed.
"""
import os
import sys
import warnings

warnings.simplefilter('ignore')
sys.path.insert(0, os.getcwd())

from slimta.smtp.server import Server  # noqa: E402
from slimta.edge.smtp import SmtpSession, SmtpValidators  # noqa: E402


class FakeSocket(object):
    def __init__(self, chunks):
        self.chunks = list(chunks)
        self.sent = b''

    def fileno(self):
        return -1

    def getpeername(self):
        return ('127.0.0.1', 0)

    def recv(self, n):
        return self.chunks.pop(0) if self.chunks else b''

    def sendall(self, data):
        self.sent += data

    def close(self):
        pass


observed = []


class Validators(SmtpValidators):

    def handle_have_data(self, reply, data):
        if b'spam' in data:
            reply.code = '550'
            reply.message = '5.7.1 Message content rejected'

    def handle_mail(self, reply, sender, params):
        env = self.session.envelope
        observed.append((sender,
                         None if env is None
                         else (env.sender, list(env.recipients))))


def handoff(envelope):
    return [(envelope, 'id1')]


sock = FakeSocket([
    b'EHLO client.example\r\n',
    # transaction 1: accepted
    b'MAIL FROM:<one@example.com>\r\n', b'RCPT TO:<r1@example.com>\r\n',
    b'DATA\r\n', b'fine\r\n.\r\n',
    # transaction 2: rejected after DATA
    b'MAIL FROM:<two@example.com>\r\n', b'RCPT TO:<r2@example.com>\r\n',
    b'DATA\r\n', b'spam\r\n.\r\n',
    # transaction 3
    b'MAIL FROM:<three@example.com>\r\n',
    b'QUIT\r\n',
])
session = SmtpSession(('127.0.0.1', 0), Validators, handoff)
session.BANNER_ = lambda reply: None      # skip the PTR lookup (no network)
Server(sock, session).handle()

codes = [l[:3].decode() for l in sock.sent.split(b'\r\n')
         if len(l) >= 4 and l[3:4] == b' ']
print('reply codes:', codes)
for sender, env in observed:
    print('handle_mail({0!r}) saw session.envelope = {1!r}'.format(sender, env))

stale = [o for o in observed if o[1] is not None]
if stale:
    print('VIOLATION: after the rejected message the session still remembers '
          'sender/recipients {0!r}'.format(stale[0][1]))
    sys.exit(1)
print('OK')
sys.exit(0)
