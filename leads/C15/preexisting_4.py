"""Pre-existing violation 4: DictStorage on a shelve forgets delivered
recipients.

The DictStorage documentation offers a :mod:`shelve` as the dictionary to get
persistence, and set_timestamp()/increment_attempts() are written for that
(they store the changed meta dict back: ``self.meta_db[id] = meta``).
set_recipients_delivered() however only does

    self._remove_delivered_rcpts(self.env_db[id], rcpt_indexes)

i.e. it edits the object returned by ``env_db[id]`` in place and never stores
it back.  A shelf returns a freshly unpickled copy on every access, so the
edit is lost: the next get() returns all recipients again and they are
delivered a second time.  (With a plain dict the stored object itself is
edited, which is why the unit tests pass.)

Run from the repository root.  Exit 1 = violation.
"""
import os
import sys
sys.path.insert(0, os.getcwd())

import shelve
import shutil
import tempfile

from slimta.envelope import Envelope
from slimta.queue.dict import DictStorage


def main():
    tmp = tempfile.mkdtemp()
    try:
        env_db = shelve.open(os.path.join(tmp, 'envelopes'))
        meta_db = shelve.open(os.path.join(tmp, 'meta'))
        storage = DictStorage(env_db, meta_db)
        env = Envelope('s@example.com',
                       ['a@example.com', 'b@example.com', 'c@example.com'])
        id = storage.write(env, 100.0)
        storage.increment_attempts(id)
        storage.set_timestamp(id, 200.0)
        storage.set_recipients_delivered(id, [0, 2])
        got_env, attempts = storage.get(id)
        print('attempts %r, load() %r' % (attempts, list(storage.load())))
        print('recipients after set_recipients_delivered(id, [0, 2]): %r'
              % (got_env.recipients, ))
        print("expected: ['b@example.com']")
        bad = got_env.recipients != ['b@example.com']
        env_db.close()
        meta_db.close()
    finally:
        shutil.rmtree(tmp, ignore_errors=True)
    print('VIOLATION' if bad else 'OK')
    return 1 if bad else 0


if __name__ == '__main__':
    sys.exit(main())
