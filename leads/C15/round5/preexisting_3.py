"""Pre-existing C15 violation 3 (cloud backend, slimta.cloudstorage.aws):
CloudStorage(SimpleStorageService(bucket)).load() never lists the live
messages with their timestamps.  SimpleStorageService.list_messages() does

    timestamp, attempts = self.get_message_meta(id)

but get_message_meta() returns a *dict*, so the tuple-unpacking iterates over
its keys: with one key ('timestamp' only, i.e. a message that was never
retried) it raises ValueError, with two keys it yields the literal string
'timestamp' as the timestamp, with three keys it raises ValueError again.  The
"id" that is yielded is moreover the boto Key object handed out by
bucket.list(), not the id string that write() returned.

boto itself is not importable here, so tiny stand-ins for boto.s3.key.Key and
boto.sqs.message.Message plus an in-memory bucket are installed first; the
bucket is lenient (get_key accepts a Key object as well as a name) so that the
only thing that can go wrong is the library code.

Run as:  cd <repo root> && /venv/bin/python SEED/preexisting_3.py
Exits 1 while the violation is present, 0 once it is fixed.
"""
import os
import sys
import types
import warnings

warnings.simplefilter('ignore')
sys.path.insert(0, os.getcwd())


class Key(object):

    def __init__(self, bucket=None):
        self.bucket = bucket
        self.key = None
        self.metadata = {}
        self.contents = None

    @property
    def name(self):
        return self.key

    def set_metadata(self, name, value):
        self.metadata[name] = value

    def get_metadata(self, name):
        return self.metadata.get(name)

    def set_contents_from_string(self, data):
        self.contents = data
        self.bucket.objects[self.key] = self

    def get_contents_as_string(self):
        return self.contents

    def delete(self):
        self.bucket.objects.pop(self.key, None)


class Message(object):

    def set_body(self, body):
        self.body = body

    def get_body(self):
        return self.body


class Bucket(object):

    def __init__(self):
        self.objects = {}

    def get_key(self, name):
        if isinstance(name, Key):
            name = name.key
        return self.objects.get(name)

    def list(self, prefix=''):
        return [key for name, key in sorted(self.objects.items())
                if name.startswith(prefix)]


def install_fake_boto():
    for name in ('boto', 'boto.s3', 'boto.s3.key', 'boto.sqs',
                 'boto.sqs.message'):
        sys.modules[name] = types.ModuleType(name)
    sys.modules['boto.s3.key'].Key = Key
    sys.modules['boto.sqs.message'].Message = Message
    sys.modules['boto'].s3 = sys.modules['boto.s3']
    sys.modules['boto'].sqs = sys.modules['boto.sqs']
    sys.modules['boto.s3'].key = sys.modules['boto.s3.key']
    sys.modules['boto.sqs'].message = sys.modules['boto.sqs.message']


install_fake_boto()

from slimta.cloudstorage import CloudStorage  # noqa: E402
from slimta.cloudstorage.aws import SimpleStorageService  # noqa: E402
from slimta.envelope import Envelope  # noqa: E402


def make_env(n):
    env = Envelope('sender%d@example.com' % n,
                   ['rcpt%d-a@example.com' % n, 'rcpt%d-b@example.com' % n])
    env.parse(b'Subject: msg %d\r\n\r\nbody %d\r\n' % (n, n))
    return env


def try_load(store, what, expected):
    try:
        listed = list(store.load())
    except Exception as exc:
        print('%s: load() raised %s: %s' % (what, type(exc).__name__, exc))
        return False
    normalised = sorted(listed, key=repr)
    print('%s: load() returned %r' % (what, normalised))
    if sorted(listed, key=repr) == sorted(expected, key=repr):
        return True
    print('   expected %r' % (sorted(expected), ))
    return False


def main():
    store = CloudStorage(SimpleStorageService(Bucket(), prefix='q-'))
    id1 = store.write(make_env(1), 100.0)
    id2 = store.write(make_env(2), 200.0)

    # The rest of the interface works on this in-memory bucket:
    env, attempts = store.get(id1)
    assert (env.sender, attempts) == ('sender1@example.com', 0)

    ok = try_load(store, 'fresh messages (meta has 1 key)',
                  [(100.0, id1), (200.0, id2)])

    store.increment_attempts(id1)
    store.increment_attempts(id2)
    store.set_timestamp(id2, 250.0)
    ok = try_load(store, 'after increment_attempts (meta has 2 keys)',
                  [(100.0, id1), (250.0, id2)]) and ok

    store.set_recipients_delivered(id1, [0])
    store.set_recipients_delivered(id2, [1])
    ok = try_load(store, 'after set_recipients_delivered (meta has 3 keys)',
                  [(100.0, id1), (250.0, id2)]) and ok

    env, attempts = store.get(id1)
    assert (env.recipients, attempts) == (['rcpt1-b@example.com'], 1)

    if not ok:
        print('VIOLATION: the cloud backend cannot list its messages')
        return 1
    print('OK')
    return 0


if __name__ == '__main__':
    sys.exit(main())
