"""Pre-existing C15 violation 5 (DictStorage, borderline): load() is a
generator over the live meta dictionary.  If any message is written or removed
while the result of load() is still being consumed (the dict counterpart of
what happens to the disk and redis backends when a load() overlaps other
operations; it takes a consumer that calls the store, or yields to another
greenlet that does, between two items), the iteration dies with "RuntimeError: dictionary changed size during
iteration" instead of listing the live messages.  DiskStorage given the same
sequence just carries on (it snapshots the id list first).

Run as:  cd <repo root> && /venv/bin/python SEED/preexisting_5.py
Exits 1 while the violation is present, 0 once it is fixed.
"""
import os
import sys
import shutil
import logging
import tempfile
import warnings

warnings.simplefilter('ignore')
sys.path.insert(0, os.getcwd())
logging.getLogger().addHandler(logging.NullHandler())
logging.getLogger().setLevel(logging.CRITICAL)

from slimta.queue.dict import DictStorage  # noqa: E402
from slimta.diskstorage import DiskStorage  # noqa: E402
from slimta.envelope import Envelope  # noqa: E402


def make_env(n):
    env = Envelope('sender%d@example.com' % n, ['rcpt%d@example.com' % n])
    env.parse(b'Subject: msg %d\r\n\r\nbody %d\r\n' % (n, n))
    return env


def scenario(store, change):
    ids = dict((store.write(make_env(n), 100.0 + n), 100.0 + n)
               for n in range(4))
    listing = store.load()
    seen = [next(iter(listing))]
    if change == 'write':
        store.write(make_env(9), 900.0)
    else:
        victim = [i for i in sorted(ids) if i != seen[0][1]][0]
        store.remove(victim)
        del ids[victim]
    try:
        seen.extend(listing)
    except Exception as exc:
        return '%s: %s' % (type(exc).__name__, exc)
    # every message that was live all the time must be there, correctly
    missing = [i for i in ids if (ids[i], i) not in seen]
    return 'fine' if not missing else 'missing %r' % (missing, )


def main():
    bad = False
    for change in ('write', 'remove'):
        base = tempfile.mkdtemp()
        try:
            dirs = []
            for sub in ('env', 'meta', 'tmp'):
                path = os.path.join(base, sub)
                os.mkdir(path)
                dirs.append(path)
            disk = scenario(DiskStorage(*dirs), change)
        finally:
            shutil.rmtree(base, ignore_errors=True)
        mem = scenario(DictStorage(), change)
        print('a %s() of another message while load() is being consumed:'
              % change)
        print('   disk: %s' % disk)
        print('   dict: %s' % mem)
        if mem != 'fine':
            bad = True
    if bad:
        print('VIOLATION: DictStorage.load() breaks when the store changes '
              'while its result is consumed')
        return 1
    print('OK')
    return 0


if __name__ == '__main__':
    sys.exit(main())
