"""Pre-existing C15 violation 4 (DictStorage): the in-memory backend keeps a
*reference* to the caller's Envelope instead of its own copy, unlike the disk,
redis and cloud backends (which pickle it).  Consequences, all shown below next
to DiskStorage doing the same sequence:

 (a) the same Envelope object written twice gives two ids that share one
     object: set_recipients_delivered() on one id also removes the recipient
     from the other message ("operations on one message never disturb
     another");
 (b) changing the envelope after write() changes what get() returns ("get
     returns the written sender and content");
 (c) changing the envelope returned by get() changes the stored message.

Run as:  cd <repo root> && /venv/bin/python SEED/preexisting_4.py
Exits 1 while the violation is present, 0 once it is fixed.
"""
import os
import sys
import shutil
import tempfile
import warnings

warnings.simplefilter('ignore')
sys.path.insert(0, os.getcwd())

from slimta.queue.dict import DictStorage  # noqa: E402
from slimta.diskstorage import DiskStorage  # noqa: E402
from slimta.envelope import Envelope  # noqa: E402


def make_env():
    env = Envelope('sender@example.com',
                   ['a@example.com', 'b@example.com', 'c@example.com'])
    env.parse(b'Subject: hello\r\n\r\nbody\r\n')
    return env


def scenario(store):
    out = {}
    # (a) one envelope object, written twice
    env = make_env()
    id1 = store.write(env, 100.0)
    id2 = store.write(env, 200.0)
    store.set_recipients_delivered(id1, [0])
    out['a: recipients of the untouched 2nd message'] = \
        list(store.get(id2)[0].recipients)
    # (b) caller keeps using its envelope after write()
    env = make_env()
    id3 = store.write(env, 300.0)
    env.sender = 'changed@example.com'
    env.recipients.append('late@example.com')
    got = store.get(id3)[0]
    out['b: sender/recipients after the caller changed its envelope'] = \
        (got.sender, list(got.recipients))
    # (c) caller changes what get() handed out
    env = make_env()
    id4 = store.write(env.copy(), 400.0)
    got = store.get(id4)[0]
    got.recipients.remove('b@example.com')
    got.message = b'other body\r\n'
    again = store.get(id4)[0]
    out['c: recipients/body after changing a previously returned envelope'] \
        = (list(again.recipients), again.message)
    return out


EXPECTED = {
    'a: recipients of the untouched 2nd message':
        ['a@example.com', 'b@example.com', 'c@example.com'],
    'b: sender/recipients after the caller changed its envelope':
        ('sender@example.com',
         ['a@example.com', 'b@example.com', 'c@example.com']),
    'c: recipients/body after changing a previously returned envelope':
        (['a@example.com', 'b@example.com', 'c@example.com'], b'body\r\n'),
}


def main():
    base = tempfile.mkdtemp()
    try:
        dirs = []
        for sub in ('env', 'meta', 'tmp'):
            path = os.path.join(base, sub)
            os.mkdir(path)
            dirs.append(path)
        results = [('disk', scenario(DiskStorage(*dirs))),
                   ('dict', scenario(DictStorage()))]
    finally:
        shutil.rmtree(base, ignore_errors=True)
    bad = False
    for key in sorted(EXPECTED):
        print(key)
        print('   simple store: %r' % (EXPECTED[key], ))
        for name, out in results:
            flag = '' if out[key] == EXPECTED[key] else '   <-- differs'
            print('   %-12s: %r%s' % (name, out[key], flag))
            if out[key] != EXPECTED[key]:
                bad = True
    if bad:
        print('VIOLATION: DictStorage shares the Envelope object with its '
              'callers and between messages')
        return 1
    print('OK')
    return 0


if __name__ == '__main__':
    sys.exit(main())
