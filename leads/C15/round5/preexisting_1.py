"""Pre-existing C15 violation 1 (RedisStorage): a removed message is NOT gone
for good.  A late set_timestamp / increment_attempts / set_recipients_delivered
for an id that was already removed silently re-creates a partial redis hash, so
load() lists the removed message again (get() still says KeyError).  The dict,
disk and cloud backends all refuse such an operation (KeyError /
FileNotFoundError) and never list the id again.

Run as:  cd <repo root> && /venv/bin/python SEED/preexisting_1.py
Exits 1 while the violation is present, 0 once it is fixed.
"""
import os
import sys
import fnmatch
import warnings

warnings.simplefilter('ignore')
sys.path.insert(0, os.getcwd())

from slimta.redisstorage import RedisStorage  # noqa: E402
from slimta.queue.dict import DictStorage  # noqa: E402
from slimta.envelope import Envelope  # noqa: E402


def _enc(value):
    if isinstance(value, bytes):
        return value
    if isinstance(value, float):
        return repr(value).encode('ascii')
    return str(value).encode('ascii')


class FakePipeline(object):

    def __init__(self, redis):
        self.redis = redis
        self.calls = []

    def __getattr__(self, name):
        def queue_call(*args, **kwargs):
            self.calls.append((name, args, kwargs))
            return self
        return queue_call

    def execute(self):
        calls, self.calls = self.calls, []
        return [getattr(self.redis, name)(*args, **kwargs)
                for name, args, kwargs in calls]


class FakeRedis(object):
    """Minimal in-memory stand-in for redis.StrictRedis: hashes and lists,
    values come back as bytes like from a real server."""

    def __init__(self):
        self.data = {}

    def hsetnx(self, key, field, value):
        hash = self.data.setdefault(key, {})
        if field in hash:
            return 0
        hash[field] = _enc(value)
        return 1

    def hset(self, key, field, value):
        self.data.setdefault(key, {})[field] = _enc(value)
        return 1

    def hmset(self, key, mapping):
        for field, value in mapping.items():
            self.hset(key, field, value)
        return True

    def hget(self, key, field):
        return self.data.get(key, {}).get(field)

    def hexists(self, key, field):
        return field in self.data.get(key, {})

    def exists(self, key):
        return 1 if key in self.data else 0

    def hgetall(self, key):
        return dict((field.encode('ascii'), value) for field, value
                    in self.data.get(key, {}).items())

    def hmget(self, key, *fields):
        return [self.hget(key, field) for field in fields]

    def hincrby(self, key, field, amount):
        new = int(self.hget(key, field) or 0) + amount
        self.hset(key, field, new)
        return new

    def keys(self, pattern):
        return [key.encode('ascii') for key in self.data
                if fnmatch.fnmatchcase(key, pattern)]

    def delete(self, key):
        return 1 if self.data.pop(key, None) is not None else 0

    def rpush(self, key, value):
        self.data.setdefault(key, []).append(_enc(value))
        return len(self.data[key])

    def pipeline(self):
        return FakePipeline(self)


def make_env(n):
    env = Envelope('sender%d@example.com' % n, ['rcpt%d@example.com' % n])
    env.parse(b'Subject: msg %d\r\n\r\nbody %d\r\n' % (n, n))
    return env


def run(store, late_op):
    """write two messages, remove the first, then apply a late operation to
    the removed id; returns what load() and get() say afterwards."""
    gone = store.write(make_env(1), 100.0)
    kept = store.write(make_env(2), 200.0)
    store.remove(gone)
    try:
        late_op(store, gone)
        late = 'accepted'
    except Exception as exc:
        late = 'refused (%s)' % type(exc).__name__
    listed = sorted(id for ts, id in store.load())
    try:
        store.get(gone)
        got = 'returned a message'
    except KeyError:
        got = 'KeyError'
    return late, gone in listed, listed == [kept], got


def main():
    late_ops = [
        ('set_timestamp', lambda s, i: s.set_timestamp(i, 300.0)),
        ('increment_attempts', lambda s, i: s.increment_attempts(i)),
        ('set_recipients_delivered',
         lambda s, i: s.set_recipients_delivered(i, [0])),
    ]
    violated = False
    for name, late_op in late_ops:
        ref = run(DictStorage(), late_op)
        store = RedisStorage(prefix='test:')
        store.redis = FakeRedis()
        got = run(store, late_op)
        print('%s after remove:' % name)
        print('   dict : op %s, removed id listed by load(): %s, get(): %s'
              % (ref[0], ref[1], ref[3]))
        print('   redis: op %s, removed id listed by load(): %s, get(): %s'
              % (got[0], got[1], got[3]))
        if got[1] or not got[2]:
            violated = True
    if violated:
        print('VIOLATION: RedisStorage.load() lists a message that was '
              'removed before')
        return 1
    print('OK: a removed message stays gone')
    return 0


if __name__ == '__main__':
    sys.exit(main())
