"""Pre-existing C15 violation 2 (RedisStorage): a load() that overlaps in time
with a remove() or a write() of some message reports that message with a made
up timestamp (time.time() at the moment of the load) instead of either leaving
it out or reporting the timestamp it was written with.  RedisStorage.load()
first fetches the key list and then reads every timestamp with a separate
HGET; a key that has no 'timestamp' field at that moment (already deleted, or
HSETNX'ed by write() whose HMSET has not been sent yet) falls back to
"or time.time()".

The fake redis client below gives other greenlets a chance to run exactly where
a real client would wait for the server.

Run as:  cd <repo root> && /venv/bin/python SEED/preexisting_2.py
Exits 1 while the violation is present, 0 once it is fixed.
"""
import os
import sys
import fnmatch
import warnings

warnings.simplefilter('ignore')
sys.path.insert(0, os.getcwd())

import gevent  # noqa: E402

from slimta.redisstorage import RedisStorage  # noqa: E402
from slimta.envelope import Envelope  # noqa: E402


def _enc(value):
    if isinstance(value, bytes):
        return value
    if isinstance(value, float):
        return repr(value).encode('ascii')
    return str(value).encode('ascii')


class FakePipeline(object):

    def __init__(self, redis):
        self.redis = redis
        self.calls = []

    def __getattr__(self, name):
        def queue_call(*args, **kwargs):
            self.calls.append((name, args, kwargs))
            return self
        return queue_call

    def execute(self):
        self.redis._io('pipeline_execute')
        calls, self.calls = self.calls, []
        return [getattr(self.redis, name)(*args, **kwargs)
                for name, args, kwargs in calls]


class FakeRedis(object):
    """Minimal in-memory stand-in for redis.StrictRedis: hashes and lists,
    values come back as bytes like from a real server."""

    def __init__(self):
        self.data = {}
        self.hooks = {}
        self.counts = {}

    def _io(self, name):
        """Called where a real client would wait for the server: lets the
        scenario run another greenlet to completion at that point."""
        self.counts[name] = count = self.counts.get(name, 0) + 1
        hook = self.hooks.pop((name, count), None)
        if hook is not None:
            gevent.spawn(hook).join()

    def hsetnx(self, key, field, value):
        self._io('hsetnx')
        hash = self.data.setdefault(key, {})
        if field in hash:
            return 0
        hash[field] = _enc(value)
        return 1

    def hset(self, key, field, value):
        self._io('hset')
        self.data.setdefault(key, {})[field] = _enc(value)
        return 1

    def hmset(self, key, mapping):
        for field, value in mapping.items():
            self.hset(key, field, value)
        return True

    def hget(self, key, field):
        self._io('hget')
        return self.data.get(key, {}).get(field)

    def hexists(self, key, field):
        self._io('hexists')
        return field in self.data.get(key, {})

    def exists(self, key):
        self._io('exists')
        return 1 if key in self.data else 0

    def hgetall(self, key):
        self._io('hgetall')
        return dict((field.encode('ascii'), value) for field, value
                    in self.data.get(key, {}).items())

    def hmget(self, key, *fields):
        return [self.hget(key, field) for field in fields]

    def hincrby(self, key, field, amount):
        self._io('hincrby')
        new = int(self.hget(key, field) or 0) + amount
        self.hset(key, field, new)
        return new

    def keys(self, pattern):
        self._io('keys')
        return [key.encode('ascii') for key in self.data
                if fnmatch.fnmatchcase(key, pattern)]

    def delete(self, key):
        self._io('delete')
        return 1 if self.data.pop(key, None) is not None else 0

    def rpush(self, key, value):
        self.data.setdefault(key, []).append(_enc(value))
        return len(self.data[key])

    def pipeline(self):
        return FakePipeline(self)


def make_env(n):
    env = Envelope('sender%d@example.com' % n, ['rcpt%d@example.com' % n])
    env.parse(b'Subject: msg %d\r\n\r\nbody %d\r\n' % (n, n))
    return env


def new_store():
    store = RedisStorage(prefix='test:')
    store.redis = FakeRedis()
    return store


def judge(what, listed, id, real_timestamp):
    """A simple store would either not list the message at all or list it
    with the timestamp it was stored with."""
    entries = [ts for ts, listed_id in listed if listed_id == id]
    print('%s: load() returned %r' % (what, listed))
    if entries in ([], [real_timestamp]):
        print('   fine: %r' % (entries, ))
        return True
    print('   WRONG: the message is listed with timestamp(s) %r, it only '
          'ever had %r' % (entries, real_timestamp))
    return False


def main():
    ok = True

    # Scenario A: message X is removed while load() is between its KEYS call
    # and the HGET of X's timestamp.
    store = new_store()
    first = store.write(make_env(1), 100.0)
    victim = store.write(make_env(2), 300.0)
    store.redis.counts.clear()
    store.redis.hooks[('hget', 1)] = lambda: store.remove(victim)
    listed = list(store.load())
    ok = judge('load() overlapping remove()', listed, victim, 300.0) and ok
    kept = [entry for entry in listed if entry[1] == first]
    if kept != [(100.0, first)]:
        print('   WRONG: the untouched message is listed as %r' % (kept, ))
        ok = False

    # Scenario B: load() runs while write() has stored the envelope (HSETNX)
    # but is still waiting to send timestamp/attempts (pipeline).
    store = new_store()
    first = store.write(make_env(1), 100.0)
    store.redis.counts.clear()
    result = {}
    store.redis.hooks[('pipeline_execute', 1)] = \
        lambda: result.setdefault('listed', list(store.load()))
    new_id = store.write(make_env(3), 5000.0)
    ok = judge('load() overlapping write()', result['listed'], new_id,
               5000.0) and ok

    if not ok:
        print('VIOLATION: RedisStorage.load() invents timestamps for '
              'messages that are removed / written while it runs')
        return 1
    print('OK')
    return 0


if __name__ == '__main__':
    sys.exit(main())
