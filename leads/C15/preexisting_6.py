"""Pre-existing violation 6: RedisStorage.load() overlapping a remove().

load() first asks for KEYS prefix* and then issues one HGET key timestamp per
key.  A message that is removed (by another greenlet / process) after the KEYS
reply but before its HGET makes that HGET return None, and

    timestamp = self.redis.hget(key, 'timestamp') or time.time()

turns the missing value into "now": load() reports the message that is
already gone, with a timestamp it never had.  A reference store would either
still list it with its own timestamp or not list it at all.  (DiskStorage has
the same two-phase load() but skips ids whose meta file vanished.)

The in-memory redis stand-in makes every command a round-trip during which
other greenlets run.  Run from the repository root.  Exit 1 = violation.
"""
import os
import sys
sys.path.insert(0, os.getcwd())

import fnmatch

import gevent

from slimta.envelope import Envelope
from slimta.redisstorage import RedisStorage


def _b(val):
    if isinstance(val, bytes):
        return val
    if isinstance(val, float):
        return repr(val).encode('ascii')
    return str(val).encode('utf-8')


class FakePipeline(object):

    def __init__(self, redis):
        self.redis = redis
        self.cmds = []

    def hmset(self, *args):
        self.cmds.append((self.redis.hmset, args))

    def rpush(self, *args):
        self.cmds.append((self.redis.rpush, args))

    def execute(self):
        cmds, self.cmds = self.cmds, []
        return [func(*args) for func, args in cmds]


class FakeRedis(object):
    """Hashes and lists of bytes, replies typed like redis-py's."""

    def __init__(self):
        self.data = {}

    def pipeline(self):
        return FakePipeline(self)

    def hsetnx(self, key, field, value):
        h = self.data.setdefault(_b(key), {})
        if _b(field) in h:
            return 0
        h[_b(field)] = _b(value)
        return 1

    def hset(self, key, field, value):
        h = self.data.setdefault(_b(key), {})
        new = 0 if _b(field) in h else 1
        h[_b(field)] = _b(value)
        return new

    def hmset(self, key, mapping):
        for field, value in mapping.items():
            self.hset(key, field, value)
        return True

    def hget(self, key, field):
        return self.data.get(_b(key), {}).get(_b(field))

    def exists(self, *keys):
        return sum(1 for k in keys if _b(k) in self.data)

    def hexists(self, key, field):
        return _b(field) in self.data.get(_b(key), {})

    def hmget(self, key, *fields):
        h = self.data.get(_b(key), {})
        return [h.get(_b(f)) for f in fields]

    def hincrby(self, key, field, amount):
        h = self.data.setdefault(_b(key), {})
        new = int(h.get(_b(field), b'0')) + amount
        h[_b(field)] = _b(new)
        return new

    def rpush(self, key, *values):
        lst = self.data.setdefault(_b(key), [])
        lst.extend(_b(v) for v in values)
        return len(lst)

    def keys(self, pattern):
        return [k for k in list(self.data)
                if fnmatch.fnmatchcase(k.decode('ascii'), pattern)]

    def delete(self, *keys):
        return sum(1 for k in keys if self.data.pop(_b(k), None) is not None)



class YieldingRedis(object):
    """Every command yields to other greenlets while it is on the wire."""

    def __init__(self):
        self.server = FakeRedis()

    def pipeline(self):
        return self.server.pipeline()

    def __getattr__(self, name):
        func = getattr(self.server, name)

        def command(*args):
            gevent.sleep(0)
            return func(*args)
        return command


def main():
    storage = RedisStorage(prefix='demo:')
    storage.redis = YieldingRedis()
    keep = storage.write(Envelope('k@example.com', ['k@example.com']), 100.0)
    gone = storage.write(Envelope('g@example.com', ['g@example.com']), 200.0)

    loader = gevent.spawn(lambda: list(storage.load()))
    remover = gevent.spawn(storage.remove, gone)
    gevent.joinall([loader, remover], timeout=10)
    listed = sorted(loader.value)
    print('load() overlapping remove(%s...) returned %r' % (gone[:8], listed))
    acceptable = ([(100.0, keep)], sorted([(100.0, keep), (200.0, gone)]))
    print('acceptable answers: %r or %r' % acceptable)
    bad = listed not in acceptable
    print('VIOLATION' if bad else 'OK')
    return 1 if bad else 0


if __name__ == '__main__':
    sys.exit(main())
