"""Pre-existing violation 2: meta updates of the shipped S3 driver never
reach the object store.

slimta.cloudstorage.aws.SimpleStorageService.set_message_meta() fetches the
key with bucket.get_key(id) and calls key.set_metadata(...) on it -- and that
is all.  In boto, Bucket.get_key() builds a *new* Key object from a HEAD
request every time, and Key.set_metadata() only updates the ``metadata`` dict
of that local object (boto/s3/key.py: ``self.metadata[name] = value``); the
metadata is sent to S3 only with the next upload of the object
(set_contents_from_*) or a copy onto itself.  Nothing of the kind happens, so
set_timestamp(), increment_attempts() and set_recipients_delivered() of a
CloudStorage on S3 are no-ops: the attempt count stays 0 (increment_attempts()
returns 1 every time), load()/get_message_meta keep the original timestamp and
delivered recipients come back.

boto is not importable here; the stand-ins below model exactly the two boto
facts quoted above (fresh Key per get_key(), set_metadata() local until
upload).  Run from the repository root.  Exit 1 = violation.
"""
import os
import sys
import types
sys.path.insert(0, os.getcwd())


class Key(object):

    def __init__(self, bucket=None, name=None, metadata=None):
        self.bucket = bucket
        self.key = name
        self.name = name
        self.metadata = dict(metadata or {})     # local copy

    def set_metadata(self, name, value):
        self.metadata[name] = value               # local only

    def get_metadata(self, name):
        return self.metadata.get(name)

    def set_contents_from_string(self, data):     # upload: data + metadata
        self.bucket.objects[self.key] = {'contents': data,
                                         'metadata': dict(self.metadata)}

    def get_contents_as_string(self):
        return self.bucket.objects[self.key]['contents']

    def delete(self):
        self.bucket.objects.pop(self.key, None)


class Message(object):
    pass


for name in ('boto', 'boto.s3', 'boto.s3.key', 'boto.sqs', 'boto.sqs.message'):
    sys.modules[name] = types.ModuleType(name)
sys.modules['boto.s3.key'].Key = Key
sys.modules['boto.sqs.message'].Message = Message


class Bucket(object):

    def __init__(self):
        self.objects = {}

    def get_key(self, name):                      # HEAD -> new Key object
        obj = self.objects.get(name)
        if obj is None:
            return None
        return Key(self, name, obj['metadata'])


from slimta.envelope import Envelope
from slimta.cloudstorage import CloudStorage
from slimta.cloudstorage.aws import SimpleStorageService


def main():
    bad = False
    s3 = SimpleStorageService(Bucket(), prefix='q-')
    storage = CloudStorage(s3)
    env = Envelope('s@example.com', ['a@example.com', 'b@example.com'])
    id = storage.write(env, 111.0)

    first = storage.increment_attempts(id)
    second = storage.increment_attempts(id)
    print('increment_attempts() twice returned %r, %r (expected 1, 2)'
          % (first, second))
    bad |= (first, second) != (1, 2)

    storage.set_timestamp(id, 999.0)
    ts = s3.get_message_meta(id)['timestamp']
    print('timestamp after set_timestamp(999.0): %r' % (ts, ))
    bad |= ts != 999.0

    storage.set_recipients_delivered(id, [0])
    got_env, attempts = storage.get(id)
    print('get(): recipients %r (expected [\'b@example.com\']), attempts %r '
          '(expected 2)' % (got_env.recipients, attempts))
    bad |= got_env.recipients != ['b@example.com'] or attempts != 2

    print('VIOLATION' if bad else 'OK')
    return 1 if bad else 0


if __name__ == '__main__':
    sys.exit(main())
