"""Pre-existing violation 1: CloudStorage.load() with the shipped S3 driver.

slimta.cloudstorage.aws.SimpleStorageService.list_messages() does

    timestamp, attempts = self.get_message_meta(id)

but get_message_meta() returns a *dict* ({'timestamp': ..} plus 'attempts' /
'delivered_indexes' once they were set).  Unpacking the dict yields its keys:
for a message that was never attempted the dict has one key and the unpacking
raises ValueError; after increment_attempts() it has two keys and load()
yields the string 'timestamp' as the timestamp.

boto itself is not importable in this environment, so minimal stand-ins for
boto.s3.key.Key / boto.sqs.message.Message are registered before importing the
driver; the bucket is an in-memory object.  The stand-ins are deliberately
lenient (metadata set on a key is stored immediately, get_key() accepts a key
object as well as a key name) so that only the unpacking defect shows.

Run from the repository root.  Exit 1 = violation, exit 0 = load() is right.
"""
import os
import sys
import types
sys.path.insert(0, os.getcwd())


class Key(object):

    def __init__(self, bucket=None, name=None):
        self.bucket = bucket
        self.key = name
        self.name = name

    def _entry(self):
        return self.bucket.objects.setdefault(
            self.key, {'contents': None, 'metadata': {}})

    def set_metadata(self, name, value):
        self._entry()['metadata'][name] = value

    def get_metadata(self, name):
        return self._entry()['metadata'].get(name)

    def set_contents_from_string(self, data):
        self._entry()['contents'] = data

    def get_contents_as_string(self):
        return self._entry()['contents']

    def delete(self):
        self.bucket.objects.pop(self.key, None)


class Message(object):
    pass


for name in ('boto', 'boto.s3', 'boto.s3.key', 'boto.sqs', 'boto.sqs.message'):
    sys.modules[name] = types.ModuleType(name)
sys.modules['boto.s3.key'].Key = Key
sys.modules['boto.sqs.message'].Message = Message


class Bucket(object):

    def __init__(self):
        self.objects = {}

    def get_key(self, name):
        name = getattr(name, 'name', name)
        if name in self.objects:
            return Key(self, name)
        return None

    def list(self, prefix=''):
        return [Key(self, name) for name in sorted(self.objects)
                if name.startswith(prefix)]


from slimta.envelope import Envelope
from slimta.cloudstorage import CloudStorage
from slimta.cloudstorage.aws import SimpleStorageService


def main():
    bad = False
    storage = CloudStorage(SimpleStorageService(Bucket(), prefix='q-'))
    id1 = storage.write(Envelope('s1@example.com', ['r1@example.com']), 111.0)
    id2 = storage.write(Envelope('s2@example.com', ['r2@example.com']), 222.0)
    expected = sorted([(111.0, id1), (222.0, id2)])

    def listing():
        return sorted((ts, getattr(id, 'name', id))
                      for ts, id in storage.load())

    try:
        got = listing()
        print('load() after two writes: %r' % (got, ))
        if got != expected:
            bad = True
    except Exception as exc:
        print('load() after two writes raised %r' % (exc, ))
        bad = True

    storage.increment_attempts(id1)
    storage.increment_attempts(id2)
    try:
        got = listing()
        print('load() after increment_attempts: %r' % (got, ))
        if got != expected:
            bad = True
    except Exception as exc:
        print('load() after increment_attempts raised %r' % (exc, ))
        bad = True
    print('expected: %r' % (expected, ))
    print('VIOLATION' if bad else 'OK')
    return 1 if bad else 0


if __name__ == '__main__':
    sys.exit(main())
