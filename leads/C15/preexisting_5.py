"""Pre-existing violation 5: DiskStorage.get() on a removed message.

QueueStorage.get() is documented to raise KeyError for an unknown id, and
Queue._dequeue() relies on that (``except KeyError: return``) for messages
that were removed between load()/wait() and their dispatch.  DictStorage,
RedisStorage and CloudStorage-on-S3 do raise KeyError.  DiskStorage lets the
FileNotFoundError of os.open() escape instead.

On top of that AioFile.load() calls _start_keep_awake_thread() *before*
os.open() but only enters the try/finally that calls
_stop_keep_awake_thread() *after* it, so the failed get() leaks one reference
on the class-wide keep-awake greenlet: from then on a greenlet that wakes up
every millisecond runs for the rest of the process (gevent.wait() never
returns any more), however many further operations complete normally.

Run from the repository root.  Exit 1 = violation.
"""
import os
import sys
sys.path.insert(0, os.getcwd())

import shutil
import tempfile

import gevent

from slimta.envelope import Envelope
from slimta.diskstorage import DiskStorage, AioFile


def main():
    bad = False
    dirs = [tempfile.mkdtemp() for _ in range(3)]
    try:
        storage = DiskStorage(*dirs)
        id = storage.write(Envelope('s@example.com', ['r@example.com']), 1.0)
        storage.remove(id)
        try:
            storage.get(id)
            print('get() of a removed message returned something')
            bad = True
        except KeyError:
            print('get() of a removed message raised KeyError')
        except Exception as exc:
            print('get() of a removed message raised %s instead of KeyError'
                  % type(exc).__name__)
            bad = True
        other = storage.write(Envelope('s@example.com', ['r@example.com']),
                              2.0)
        storage.get(other)
        storage.remove(other)
        idle = gevent.wait(timeout=1.0)
        print('keep-awake references left: %d, event loop idle: %r'
              % (AioFile._keep_awake_refs, bool(idle)))
        if AioFile._keep_awake_refs != 0 or not idle:
            print('   -> the keep-awake greenlet was leaked and spins forever')
            bad = True
    finally:
        for d in dirs:
            shutil.rmtree(d, ignore_errors=True)
    print('VIOLATION' if bad else 'OK')
    return 1 if bad else 0


if __name__ == '__main__':
    sys.exit(main())
