"""Pre-existing violation 3: on RedisStorage a removed message comes back.

RedisStorage.set_timestamp() / increment_attempts() /
set_recipients_delivered() use HSET / HINCRBY on the message's hash without
checking that the message still exists.  Redis creates a missing hash on
HSET/HINCRBY, so a meta update that arrives after remove() (e.g. the
_retry_later() of an attempt that was still running when the message was
removed) silently re-creates the key with only that one field.  From then on
load() lists the removed id again -- with time.time() or the new timestamp --
forever: get() raises KeyError (no 'envelope' field), Queue._dequeue() returns
quietly and nothing ever deletes the stub.  The other backends refuse the same
call (DictStorage: KeyError, DiskStorage: FileNotFoundError, CloudStorage on
S3: KeyError) and keep the message gone.

An in-memory stand-in for the redis client is plugged in like the unit tests
plug in their mock.  Run from the repository root.  Exit 1 = violation.
"""
import os
import sys
sys.path.insert(0, os.getcwd())

import fnmatch

from slimta.envelope import Envelope
from slimta.redisstorage import RedisStorage


def _b(val):
    if isinstance(val, bytes):
        return val
    if isinstance(val, float):
        return repr(val).encode('ascii')
    return str(val).encode('utf-8')


class FakePipeline(object):

    def __init__(self, redis):
        self.redis = redis
        self.cmds = []

    def hmset(self, *args):
        self.cmds.append((self.redis.hmset, args))

    def rpush(self, *args):
        self.cmds.append((self.redis.rpush, args))

    def execute(self):
        cmds, self.cmds = self.cmds, []
        return [func(*args) for func, args in cmds]


class FakeRedis(object):
    """Hashes and lists of bytes, replies typed like redis-py's."""

    def __init__(self):
        self.data = {}

    def pipeline(self):
        return FakePipeline(self)

    def hsetnx(self, key, field, value):
        h = self.data.setdefault(_b(key), {})
        if _b(field) in h:
            return 0
        h[_b(field)] = _b(value)
        return 1

    def hset(self, key, field, value):
        h = self.data.setdefault(_b(key), {})
        new = 0 if _b(field) in h else 1
        h[_b(field)] = _b(value)
        return new

    def hmset(self, key, mapping):
        for field, value in mapping.items():
            self.hset(key, field, value)
        return True

    def hget(self, key, field):
        return self.data.get(_b(key), {}).get(_b(field))

    def exists(self, *keys):
        return sum(1 for k in keys if _b(k) in self.data)

    def hexists(self, key, field):
        return _b(field) in self.data.get(_b(key), {})

    def hmget(self, key, *fields):
        h = self.data.get(_b(key), {})
        return [h.get(_b(f)) for f in fields]

    def hincrby(self, key, field, amount):
        h = self.data.setdefault(_b(key), {})
        new = int(h.get(_b(field), b'0')) + amount
        h[_b(field)] = _b(new)
        return new

    def rpush(self, key, *values):
        lst = self.data.setdefault(_b(key), [])
        lst.extend(_b(v) for v in values)
        return len(lst)

    def keys(self, pattern):
        return [k for k in list(self.data)
                if fnmatch.fnmatchcase(k.decode('ascii'), pattern)]

    def delete(self, *keys):
        return sum(1 for k in keys if self.data.pop(_b(k), None) is not None)


def main():
    bad = False
    for op, args in (('set_timestamp', (555.0, )),
                     ('increment_attempts', ()),
                     ('set_recipients_delivered', ([0], ))):
        storage = RedisStorage(prefix='demo:')
        storage.redis = FakeRedis()
        keep = storage.write(Envelope('k@example.com', ['k@example.com']),
                             100.0)
        gone = storage.write(Envelope('g@example.com', ['g@example.com']),
                             200.0)
        storage.remove(gone)
        assert sorted(storage.load()) == [(100.0, keep)]
        try:
            getattr(storage, op)(gone, *args)
            outcome = 'was accepted'
        except Exception as exc:
            outcome = 'raised %r' % (exc, )
        listed = [id for _, id in storage.load()]
        try:
            storage.get(gone)
            got = 'returns a message'
        except KeyError:
            got = 'raises KeyError'
        print('%s() on a removed id %s; load() now lists %d message(s); '
              'get() %s' % (op, outcome, len(listed), got))
        if sorted(listed) != [keep]:
            print('   -> the removed message is listed again')
            bad = True
    print('VIOLATION' if bad else 'OK')
    return 1 if bad else 0


if __name__ == '__main__':
    sys.exit(main())
