"""SBytes / SStr: sequences of concrete length whose elements are Python ints
or z3 Int expressions (byte values resp. code points).

Every method reproduces the CPython semantics of bytes / str; wherever the
*shape* of the result depends on symbolic elements the method forks through
SymBool.__bool__ (the solver decides which sides are feasible).  A sequence
whose elements are all concrete is always normalised to a real bytes / str
object, so concrete data takes the native code paths.
"""
from . import zt as z3

from .core import (SymBool, SymInt, Unsupported, mkbool, mkint, current,
                   is_sym, And, Or, Not)

__all__ = ['SBytes', 'SStr', 'mkbytes', 'mkstr', 'lift', 'is_sseq',
           'is_symseq', 'elems_of', 'utf8_encode', 'utf8_decode',
           'SUnicodeDecodeError']


def _ze(x):
    return x.e if isinstance(x, SymInt) else x


def _el(x):
    """element -> int or z3 expr"""
    if isinstance(x, SymInt):
        return x.e
    if isinstance(x, int):
        return x
    if z3.is_expr(x):
        return x
    raise TypeError('bad sequence element %r' % (x,))


def mkbytes(elems):
    elems = tuple(elems)
    for x in elems:
        if not isinstance(x, int):
            return SBytes(elems)
    return bytes(elems)


def mkstr(elems):
    elems = tuple(elems)
    for x in elems:
        if not isinstance(x, int):
            return SStr(elems)
    return ''.join(map(chr, elems))


def is_sseq(x):
    return isinstance(x, _SSeq)


is_symseq = is_sseq


def elems_of(x):
    if isinstance(x, _SSeq):
        return x._e
    if isinstance(x, (bytes, bytearray)):
        return tuple(x)
    if isinstance(x, str):
        return tuple(map(ord, x))
    if isinstance(x, memoryview):
        return tuple(x.tobytes())
    if hasattr(x, '_sx_elems'):
        return x._sx_elems()
    raise TypeError('not a byte/str sequence: %r' % type(x))


def lift(x):
    if isinstance(x, _SSeq):
        return x
    if isinstance(x, (bytes, bytearray, memoryview)):
        return SBytes(tuple(bytes(x)))
    if isinstance(x, str):
        return SStr(tuple(map(ord, x)))
    if hasattr(x, '_sx_elems'):
        return SBytes(x._sx_elems())
    raise TypeError('cannot lift %r' % type(x))


def _eq_el(a, b):
    """equality of two elements: Python bool or z3 BoolRef"""
    if isinstance(a, int) and isinstance(b, int):
        return a == b
    return a == b


def _all(conds):
    es = []
    for c in conds:
        if c is False:
            return False
        if c is True:
            continue
        es.append(c)
    if not es:
        return True
    return mkbool(z3.And(*es) if len(es) > 1 else es[0])


def _any(conds):
    es = []
    for c in conds:
        if c is True:
            return True
        if c is False:
            continue
        es.append(c)
    if not es:
        return False
    return mkbool(z3.Or(*es) if len(es) > 1 else es[0])


def _in_ints(x, ints):
    """x in set-of-ints as bool / z3"""
    if isinstance(x, int):
        return x in ints
    return _zany([x == i for i in ints])


def _zany(es):
    if not es:
        return False
    return z3.Or(*es) if len(es) > 1 else es[0]


_WS_BYTES = (9, 10, 11, 12, 13, 32)
_WS_STR = (9, 10, 11, 12, 13, 28, 29, 30, 31, 32, 133, 160, 5760, 8192, 8193,
           8194, 8195, 8196, 8197, 8198, 8199, 8200, 8201, 8202, 8232, 8233,
           8239, 8287, 12288)
assert all(chr(c).isspace() for c in _WS_STR)


class _SSeq(object):
    __slots__ = ('_e',)
    _is_bytes = True

    def __init__(self, elems):
        self._e = tuple(_el(x) for x in elems)

    # -- construction helpers (overridden)
    @classmethod
    def _mk(cls, elems):
        raise NotImplementedError

    @classmethod
    def _coerce(cls, o):
        """other operand -> element tuple or None when the type is wrong"""
        raise NotImplementedError

    # -- basic protocol
    def __len__(self):
        return len(self._e)

    def __bool__(self):
        return len(self._e) > 0

    def __hash__(self):
        raise Unsupported('hash of a symbolic %s' % type(self).__name__)

    def __iter__(self):
        for i in range(len(self._e)):
            yield self[i]

    def __add__(self, o):
        e = self._coerce(o)
        if e is None:
            return NotImplemented
        return self._mk(self._e + e)

    def __radd__(self, o):
        e = self._coerce(o)
        if e is None:
            return NotImplemented
        return self._mk(e + self._e)

    def __mul__(self, n):
        if isinstance(n, int):
            return self._mk(self._e * n)
        return NotImplemented
    __rmul__ = __mul__

    def __eq__(self, o):
        e = self._coerce(o)
        if e is None:
            return False if not isinstance(o, _SSeq) else False
        if len(e) != len(self._e):
            return False
        return _all(_eq_el(a, b) for a, b in zip(self._e, e))

    def __ne__(self, o):
        return Not(self.__eq__(o))

    def _cmp_lt(self, o, strict_len):
        e = self._coerce(o)
        if e is None:
            return NotImplemented
        # lexicographic comparison decided element by element (forks)
        for a, b in zip(self._e, e):
            if bool(mkbool(a < b) if not (isinstance(a, int) and isinstance(b, int)) else a < b):
                return True
            if bool(mkbool(a > b) if not (isinstance(a, int) and isinstance(b, int)) else a > b):
                return False
        return strict_len(len(self._e), len(e))

    def __lt__(self, o):
        return self._cmp_lt(o, lambda a, b: a < b)

    def __le__(self, o):
        return self._cmp_lt(o, lambda a, b: a <= b)

    def __gt__(self, o):
        r = self._cmp_lt(o, lambda a, b: a <= b)
        return r if r is NotImplemented else not r

    def __ge__(self, o):
        r = self._cmp_lt(o, lambda a, b: a < b)
        return r if r is NotImplemented else not r

    def _slice(self, s):
        return self._mk(self._e[s])

    # -- searching
    def _match_at(self, sub, i):
        """condition: sub occurs at position i"""
        if i < 0 or i + len(sub) > len(self._e):
            return False
        return _all(_eq_el(a, b) for a, b in zip(self._e[i:i + len(sub)], sub))

    def _norm_range(self, start, end):
        n = len(self._e)
        if start is None:
            start = 0
        if end is None:
            end = n
        if not isinstance(start, int):
            start = int(start)
        if not isinstance(end, int):
            end = int(end)
        if start < 0:
            start = max(0, n + start)
        if end < 0:
            end = max(0, n + end)
        return start, min(end, n)

    def _sub_arg(self, sub):
        e = self._coerce(sub)
        if e is None:
            if self._is_bytes and isinstance(sub, (int, SymInt)):
                return (_el(sub),)
            raise TypeError('bad argument type %r' % type(sub))
        return e

    def find(self, sub, start=None, end=None):
        sub = self._sub_arg(sub)
        start, end = self._norm_range(start, end)
        if start > len(self._e):
            return -1
        for i in range(start, end - len(sub) + 1):
            if bool(self._match_at(sub, i)):
                return i
        return -1

    def rfind(self, sub, start=None, end=None):
        sub = self._sub_arg(sub)
        start, end = self._norm_range(start, end)
        for i in range(end - len(sub), start - 1, -1):
            if bool(self._match_at(sub, i)):
                return i
        return -1

    def index(self, sub, start=None, end=None):
        r = self.find(sub, start, end)
        if r < 0:
            raise ValueError('subsection not found')
        return r

    def count(self, sub, start=None, end=None):
        sub = self._sub_arg(sub)
        start, end = self._norm_range(start, end)
        if not sub:
            return end - start + 1
        c = 0
        i = start
        while i <= end - len(sub):
            if bool(self._match_at(sub, i)):
                c += 1
                i += len(sub)
            else:
                i += 1
        return c

    def __contains__(self, sub):
        return self.find(sub) >= 0

    def startswith(self, prefix, start=None, end=None):
        if isinstance(prefix, tuple):
            return Or(*[self.startswith(p, start, end) for p in prefix])
        p = self._sub_arg(prefix)
        start, end = self._norm_range(start, end)
        if start + len(p) > end:
            return False
        return self._match_at(p, start)

    def endswith(self, suffix, start=None, end=None):
        if isinstance(suffix, tuple):
            return Or(*[self.endswith(p, start, end) for p in suffix])
        p = self._sub_arg(suffix)
        start, end = self._norm_range(start, end)
        if end - len(p) < start:
            return False
        return self._match_at(p, end - len(p))

    # -- splitting
    def _is_ws(self, x):
        tab = _WS_BYTES if self._is_bytes else _WS_STR
        return _in_ints(x, tab)

    def _ws(self, x):
        c = self._is_ws(x)
        return c if isinstance(c, bool) else bool(mkbool(c))

    def split(self, sep=None, maxsplit=-1):
        out = []
        n = len(self._e)
        if sep is None:
            i = 0
            while True:
                while i < n and self._ws(self._e[i]):
                    i += 1
                if i == n:
                    break
                if maxsplit >= 0 and len(out) >= maxsplit:
                    j = n
                    while j > i and self._ws(self._e[j - 1]):
                        j -= 1
                    out.append(self._mk(self._e[i:j]))
                    break
                j = i
                while j < n and not self._ws(self._e[j]):
                    j += 1
                out.append(self._mk(self._e[i:j]))
                i = j
            return out
        sep = self._sub_arg(sep)
        if not sep:
            raise ValueError('empty separator')
        i = 0
        while maxsplit < 0 or len(out) < maxsplit:
            j = self.find(self._mk(sep), i)
            if j < 0:
                break
            out.append(self._mk(self._e[i:j]))
            i = j + len(sep)
        out.append(self._mk(self._e[i:]))
        return out

    def rsplit(self, sep=None, maxsplit=-1):
        if sep is None:
            if maxsplit < 0:
                return self.split()
            raise Unsupported('rsplit(None, maxsplit)')
        sep = self._sub_arg(sep)
        if not sep:
            raise ValueError('empty separator')
        out = []
        j = len(self._e)
        while maxsplit < 0 or len(out) < maxsplit:
            i = self.rfind(self._mk(sep), 0, j)
            if i < 0:
                break
            out.append(self._mk(self._e[i + len(sep):j]))
            j = i
        out.append(self._mk(self._e[:j]))
        out.reverse()
        return out

    def partition(self, sep):
        s = self._sub_arg(sep)
        i = self.find(sep)
        if i < 0:
            return (self._mk(self._e), self._mk(()), self._mk(()))
        return (self._mk(self._e[:i]), self._mk(s),
                self._mk(self._e[i + len(s):]))

    def rpartition(self, sep):
        s = self._sub_arg(sep)
        i = self.rfind(sep)
        if i < 0:
            return (self._mk(()), self._mk(()), self._mk(self._e))
        return (self._mk(self._e[:i]), self._mk(s),
                self._mk(self._e[i + len(s):]))

    def splitlines(self, keepends=False):
        # bytes: \n, \r, \r\n; str: also \v \f \x1c-\x1e \x85 \u2028 \u2029
        brk = (10, 13) if self._is_bytes else \
            (10, 11, 12, 13, 28, 29, 30, 133, 0x2028, 0x2029)

        def dec(c):
            return c if isinstance(c, bool) else bool(mkbool(c))
        out = []
        e = self._e
        n = len(e)
        i = start = 0
        while i < n:
            if dec(_in_ints(e[i], brk)):
                end = i
                if dec(e[i] == 13) and i + 1 < n and dec(e[i + 1] == 10):
                    i += 1
                i += 1
                out.append(self._mk(e[start:i] if keepends else e[start:end]))
                start = i
            else:
                i += 1
        if start < n:
            out.append(self._mk(e[start:]))
        return out

    def _strip_pred(self, chars):
        if chars is None:
            return self._ws
        cs = self._sub_arg(chars)
        for c in cs:
            if not isinstance(c, int):
                raise Unsupported('strip() with symbolic character set')

        def pred(x):
            c = _in_ints(x, cs)
            return c if isinstance(c, bool) else bool(mkbool(c))
        return pred

    def lstrip(self, chars=None):
        p = self._strip_pred(chars)
        i = 0
        n = len(self._e)
        while i < n and p(self._e[i]):
            i += 1
        return self._mk(self._e[i:])

    def rstrip(self, chars=None):
        p = self._strip_pred(chars)
        j = len(self._e)
        while j > 0 and p(self._e[j - 1]):
            j -= 1
        return self._mk(self._e[:j])

    def strip(self, chars=None):
        p = self._strip_pred(chars)
        i = 0
        n = len(self._e)
        while i < n and p(self._e[i]):
            i += 1
        j = n
        while j > i and p(self._e[j - 1]):
            j -= 1
        return self._mk(self._e[i:j])

    def replace(self, old, new, count=-1):
        old = self._sub_arg(old)
        new = self._sub_arg(new)
        if not old:
            raise Unsupported('replace with empty pattern')
        out = []
        i = 0
        n = len(self._e)
        done = 0
        while i < n:
            if (count < 0 or done < count) and i + len(old) <= n and \
                    bool(self._match_at(old, i)):
                out.extend(new)
                i += len(old)
                done += 1
            else:
                out.append(self._e[i])
                i += 1
        return self._mk(out)

    def join(self, parts):
        out = []
        first = True
        for p in parts:
            e = self._coerce(p)
            if e is None:
                raise TypeError('sequence item: bad type %r' % type(p))
            if not first:
                out.extend(self._e)
            out.extend(e)
            first = False
        return self._mk(out)

    # -- case mapping (ASCII exact; non-ASCII see subclasses)
    def _map_case(self, lo, hi, delta):
        out = []
        for x in self._e:
            if isinstance(x, int):
                out.append(x + delta if lo <= x <= hi else x)
            else:
                self._case_guard(x)
                out.append(z3.If(z3.And(x >= lo, x <= hi), x + delta, x))
        return self._mk(out)

    def _case_guard(self, x):
        pass

    def lower(self):
        return self._map_case(65, 90, 32)

    def upper(self):
        return self._map_case(97, 122, -32)

    def isdigit(self):
        if not self._e:
            return False
        return _all((48 <= x <= 57) if isinstance(x, int) else
                    z3.And(x >= 48, x <= 57) for x in self._e) \
            if self._is_bytes else self._str_isdigit()

    def isalpha(self):
        raise Unsupported('isalpha on symbolic sequence')

    def __repr__(self):
        return '<%s len=%d %s>' % (type(self).__name__, len(self._e),
                                   list(self._e)[:8])

    def __str__(self):
        # uninstrumented code (the standard library) asking for a real
        # str: fork over the values of at most one free symbolic element
        if self._is_bytes:
            raise Unsupported('str() of a symbolic %s' % type(self).__name__)
        from .rt import concretize_seq
        try:
            return concretize_seq(self, 1)
        except Unsupported:
            raise Unsupported('str() of a symbolic %s' % type(self).__name__)

    def __format__(self, spec):
        raise Unsupported('format() of a symbolic %s' % type(self).__name__)

    def __reduce__(self):
        raise Unsupported('pickling a symbolic %s' % type(self).__name__)

    def __copy__(self):
        return self

    def __deepcopy__(self, memo):
        return self          # immutable

    def __mod__(self, o):
        raise Unsupported('%-formatting with a symbolic receiver')


class SBytes(_SSeq):
    __slots__ = ()
    _is_bytes = True

    @classmethod
    def _mk(cls, elems):
        return mkbytes(elems)

    @classmethod
    def _coerce(cls, o):
        if isinstance(o, SBytes):
            return o._e
        if isinstance(o, (bytes, bytearray)):
            return tuple(o)
        if isinstance(o, memoryview):
            return tuple(o.tobytes())
        if hasattr(o, '_sx_elems') and not isinstance(o, _SSeq):
            return tuple(o._sx_elems())
        return None

    def __getitem__(self, i):
        if isinstance(i, slice):
            return mkbytes(self._e[i])
        if isinstance(i, SymInt):
            i = int(i)
        return mkint(self._e[i])

    def decode(self, encoding='utf-8', errors='strict'):
        enc = encoding.lower().replace('_', '-')
        if enc in ('utf-8', 'utf8'):
            return utf8_decode(self._e, errors)
        if enc in ('ascii', 'us-ascii'):
            out = []
            for i, x in enumerate(self._e):
                if not isinstance(x, int) and bool(mkbool(x >= 128)) or \
                        isinstance(x, int) and x >= 128:
                    if errors == 'strict':
                        raise SUnicodeDecodeError('ascii', self, i, i + 1,
                                                  'ordinal not in range(128)')
                    if errors == 'replace':
                        out.append(0xFFFD)
                        continue
                    if errors == 'ignore':
                        continue
                    raise Unsupported('ascii decode errors=%s' % errors)
                out.append(x)
            return mkstr(out)
        if enc in ('latin-1', 'latin1', 'iso-8859-1'):
            return mkstr(self._e)
        raise Unsupported('decode(%r) of symbolic bytes' % encoding)

    def hex(self):
        raise Unsupported('hex() of symbolic bytes')

    def tobytes(self):
        return self

    def __bytes__(self):
        raise Unsupported('bytes() of symbolic bytes reached C code')

    def _str_isdigit(self):
        raise AssertionError


class SUnicodeDecodeError(UnicodeDecodeError):
    """UnicodeDecodeError whose object may be symbolic."""

    def __new__(cls, enc, obj, start, end, reason):
        return UnicodeDecodeError.__new__(cls, enc, b'', start, end, reason)

    def __init__(self, enc, obj, start, end, reason):
        UnicodeDecodeError.__init__(self, enc, b'', start, end, reason)
        self.sx_object = obj


class SUnicodeEncodeError(UnicodeEncodeError):
    def __new__(cls, enc, obj, start, end, reason):
        return UnicodeEncodeError.__new__(cls, enc, '', start, end, reason)

    def __init__(self, enc, obj, start, end, reason):
        UnicodeEncodeError.__init__(self, enc, '', start, end, reason)
        self.sx_object = obj


def _dec(c):
    """decide condition c (bool or z3 BoolRef)"""
    if isinstance(c, bool):
        return c
    return bool(mkbool(c))


def utf8_decode(elems, errors='strict'):
    """Exact CPython UTF-8 decoder (strict / replace error positions follow
    the 'maximal subpart' practice CPython implements)."""
    out = []
    n = len(elems)
    i = 0

    def bad(start, end, reason):
        if errors == 'strict':
            raise SUnicodeDecodeError('utf-8', mkbytes(elems), start, end,
                                      reason)
        if errors == 'replace':
            out.append(0xFFFD)
        elif errors == 'ignore':
            pass
        else:
            raise Unsupported('utf-8 decode errors=%s' % errors)
        return end

    def cont(x, lo=0x80, hi=0xBF):
        if isinstance(x, int):
            return lo <= x <= hi
        return _dec(z3.And(x >= lo, x <= hi))

    while i < n:
        b0 = elems[i]
        if _dec(b0 < 0x80):
            out.append(b0)
            i += 1
            continue
        if _dec(b0 < 0xC2):
            i = bad(i, i + 1, 'invalid start byte')
            continue
        if _dec(b0 < 0xE0):
            if i + 1 >= n:
                i = bad(i, n, 'unexpected end of data')
                continue
            b1 = elems[i + 1]
            if not cont(b1):
                i = bad(i, i + 1, 'invalid continuation byte')
                continue
            out.append((b0 - 0xC0) * 64 + (b1 - 0x80))
            i += 2
            continue
        if _dec(b0 < 0xF0):
            # 3-byte: E0 A0..BF, ED 80..9F, else 80..BF
            if i + 1 >= n:
                i = bad(i, n, 'unexpected end of data')
                continue
            b1 = elems[i + 1]
            if _dec(b0 == 0xE0):
                ok = cont(b1, 0xA0, 0xBF)
            elif _dec(b0 == 0xED):
                ok = cont(b1, 0x80, 0x9F)
            else:
                ok = cont(b1)
            if not ok:
                i = bad(i, i + 1, 'invalid continuation byte')
                continue
            if i + 2 >= n:
                i = bad(i, n, 'unexpected end of data')
                continue
            b2 = elems[i + 2]
            if not cont(b2):
                i = bad(i, i + 2, 'invalid continuation byte')
                continue
            out.append((b0 - 0xE0) * 4096 + (b1 - 0x80) * 64 + (b2 - 0x80))
            i += 3
            continue
        if _dec(b0 < 0xF5):
            if i + 1 >= n:
                i = bad(i, n, 'unexpected end of data')
                continue
            b1 = elems[i + 1]
            if _dec(b0 == 0xF0):
                ok = cont(b1, 0x90, 0xBF)
            elif _dec(b0 == 0xF4):
                ok = cont(b1, 0x80, 0x8F)
            else:
                ok = cont(b1)
            if not ok:
                i = bad(i, i + 1, 'invalid continuation byte')
                continue
            if i + 2 >= n:
                i = bad(i, n, 'unexpected end of data')
                continue
            b2 = elems[i + 2]
            if not cont(b2):
                i = bad(i, i + 2, 'invalid continuation byte')
                continue
            if i + 3 >= n:
                i = bad(i, n, 'unexpected end of data')
                continue
            b3 = elems[i + 3]
            if not cont(b3):
                i = bad(i, i + 3, 'invalid continuation byte')
                continue
            out.append((b0 - 0xF0) * 262144 + (b1 - 0x80) * 4096 +
                       (b2 - 0x80) * 64 + (b3 - 0x80))
            i += 4
            continue
        i = bad(i, i + 1, 'invalid start byte')
    return mkstr([z3.simplify(x) if not isinstance(x, int) else x
                  for x in out])


def utf8_encode(elems, errors='strict'):
    out = []
    for i, c in enumerate(elems):
        if _dec(c < 0x80):
            out.append(c)
        elif _dec(c < 0x800):
            out.append(0xC0 + c / 64 if not isinstance(c, int) else 0xC0 + c // 64)
            out.append(0x80 + c % 64)
        elif _dec(c < 0x10000):
            if _dec(z3.And(c >= 0xD800, c <= 0xDFFF)
                    if not isinstance(c, int) else 0xD800 <= c <= 0xDFFF):
                if errors == 'strict':
                    raise SUnicodeEncodeError('utf-8', mkstr(elems), i, i + 1,
                                              'surrogates not allowed')
                raise Unsupported('utf-8 encode errors=%s' % errors)
            if isinstance(c, int):
                out.extend((0xE0 + c // 4096, 0x80 + (c // 64) % 64,
                            0x80 + c % 64))
            else:
                out.extend((0xE0 + c / 4096, 0x80 + (c / 64) % 64,
                            0x80 + c % 64))
        else:
            if isinstance(c, int):
                out.extend((0xF0 + c // 262144, 0x80 + (c // 4096) % 64,
                            0x80 + (c // 64) % 64, 0x80 + c % 64))
            else:
                out.extend((0xF0 + c / 262144, 0x80 + (c / 4096) % 64,
                            0x80 + (c / 64) % 64, 0x80 + c % 64))
    return mkbytes([z3.simplify(x) if not isinstance(x, int) else x
                    for x in out])


class SStr(_SSeq):
    __slots__ = ()
    _is_bytes = False

    @classmethod
    def _mk(cls, elems):
        return mkstr(elems)

    @classmethod
    def _coerce(cls, o):
        if isinstance(o, SStr):
            return o._e
        if isinstance(o, str):
            return tuple(map(ord, o))
        return None

    def __getitem__(self, i):
        if isinstance(i, slice):
            return mkstr(self._e[i])
        if isinstance(i, SymInt):
            i = int(i)
        return mkstr((self._e[i],))

    def encode(self, encoding='utf-8', errors='strict'):
        enc = encoding.lower().replace('_', '-')
        if enc in ('utf-8', 'utf8'):
            return utf8_encode(self._e, errors)
        if enc in ('ascii', 'us-ascii'):
            for i, x in enumerate(self._e):
                if _dec(x >= 128):
                    if errors == 'strict':
                        raise SUnicodeEncodeError(
                            'ascii', self, i, i + 1,
                            'ordinal not in range(128)')
                    raise Unsupported('ascii encode errors=%s' % errors)
            return mkbytes(self._e)
        if enc in ('latin-1', 'latin1', 'iso-8859-1', 'iso8859-1'):
            out = []
            for i, x in enumerate(self._e):
                if _dec(x >= 256):
                    if errors == 'strict':
                        raise SUnicodeEncodeError(
                            'latin-1', self, i, i + 1,
                            'ordinal not in range(256)')
                    if errors == 'replace':
                        out.append(63)
                        continue
                    if errors == 'ignore':
                        continue
                    raise Unsupported('latin-1 encode errors=%s' % errors)
                out.append(x)
            return mkbytes(out)
        raise Unsupported('encode(%r) of symbolic str' % encoding)

    def _case_guard(self, x):
        # lower()/upper() are exact for ASCII only: abort the path as
        # unsupported if the element can be non-ASCII.
        if _dec(x >= 128):
            raise Unsupported('case mapping of a possibly non-ASCII symbolic '
                              'code point')

    def _str_isdigit(self):
        for x in self._e:
            if not isinstance(x, int):
                if _dec(x >= 128):
                    raise Unsupported('isdigit on non-ASCII symbolic char')
        return _all((48 <= x <= 57) if isinstance(x, int) else
                    z3.And(x >= 48, x <= 57) for x in self._e)

    def format(self, *a, **k):
        raise Unsupported('format() on a symbolic format string')
