"""Cells, process pool, native replay, evidence, known findings."""
import concurrent.futures
import hashlib
import importlib
import json
import multiprocessing
import multiprocessing.connection
import os
import random
import subprocess
import sys
import time
import traceback

ROOT = os.path.dirname(os.path.dirname(os.path.abspath(__file__)))
EVID = os.path.join(ROOT, 'evidence')
REPLAY_DIR = os.path.join(EVID, 'replay')
KNOWN = os.path.join(ROOT, 'known_findings.json')
PY = sys.executable

MAX_VIOL_PER_LABEL = 4


def _load_prop(name):
    if ROOT not in sys.path:
        sys.path.insert(0, ROOT)
    return importlib.import_module('props.' + name.lower())


# ------------------------------------------------------------------ worker
def run_cell(prop, cell, opts):
    """Explore one cell exhaustively (or until its budget expires)."""
    os.environ.setdefault('GEVENT_LOOP', 'symx.vloop.loop')
    os.environ['SYMX_MODE'] = 'sym'
    from symx import loader, core, api, rt
    if not getattr(loader, '_installed', None):
        loader.install(instrumented=True, repo=opts.get('repo'))
    mod = _load_prop(prop)
    res = {'cell': cell, 'paths': 0, 'aborted': 0, 'queries': 0,
           'solver_s': 0.0, 'decisions': 0, 'choice_decisions': 0,
           'obligations': 0, 'discharged': 0, 'violations': [],
           'violation_count': 0, 'samples': [], 'witnesses': [],
           'inconclusive': [], 'exhaustive': False, 'wall_s': 0.0,
           'entered': [], 'error': None, 'paths_with_obligation': 0}
    t0 = time.time()
    deadline = t0 + opts.get('cell_budget_s', 600)
    rng = random.Random(hash((opts.get('seed', 0), json.dumps(cell,
                                                             sort_keys=True))))
    sample_p = opts.get('sample_p', 0.02)
    max_w = opts.get('max_witnesses', 6)
    ctx = core.Ctx(max_decisions=opts.get('max_decisions', 20000))
    if cell.get('_shard'):
        ctx.shard = tuple(cell['_shard'])
    core.set_current(ctx)
    per_label = {}
    try:
        if hasattr(mod, 'setup'):
            mod.setup('sym')
        while not ctx.exhausted:
            if time.time() > deadline:
                res['inconclusive'].append(
                    {'reason': 'cell budget expired', 'paths': ctx.paths})
                break
            ctx.begin()
            api.reset_path()
            del rt.PICKLE_BOX[:]
            rt.B64_MEMO.clear()
            nv = len(ctx.violations)
            aborted = False
            skipped = False
            try:
                mod.run(cell)
            except core.ShardSkip:
                aborted = skipped = True
            except core.PathAbort:
                aborted = True
            except core.Unsupported as e:
                aborted = True
                tb = traceback.extract_tb(sys.exc_info()[2])
                where = ' <- '.join('%s:%d' % (os.path.basename(f.filename),
                                               f.lineno)
                                    for f in tb[-4:][::-1])
                _add_inc(res, 'unsupported: %s [%s]' % (e, where), ctx)
            except core.StepBudget as e:
                aborted = True
                _add_inc(res, 'step budget: %s' % (e,), ctx)
            except core.EngineError:
                raise
            except Exception as e:
                aborted = True
                tb = traceback.format_exc(limit=6)
                _add_inc(res, 'harness exception %s: %s\n%s' %
                         (type(e).__name__, e, tb), ctx,
                         mark=type(e).__name__)
            except BaseException as e:
                if type(e).__name__ in ('LoopBudget',):
                    aborted = True
                    _add_inc(res, 'loop budget: %s' % (e,), ctx)
                else:
                    raise
            finally:
                if hasattr(mod, 'cleanup'):
                    try:
                        mod.cleanup()
                    except Exception:
                        pass
            if not aborted and ctx.path_obligations:
                res['paths_with_obligation'] += 1
            # collect new violations (bounded per label)
            for v in ctx.violations[nv:]:
                res['violation_count'] += 1
                k = per_label.get(v['label'], 0)
                if k < MAX_VIOL_PER_LABEL:
                    per_label[v['label']] = k + 1
                    res['violations'].append(
                        {'label': v['label'], 'inputs': v['inputs'],
                         'info': api._plain(v['info'])})
            if not aborted and len(ctx.violations) == nv and \
                    len(res['witnesses']) < max_w and \
                    (ctx.paths < 3 or rng.random() < sample_p):
                try:
                    if ctx._check():
                        m = ctx.solver.model()
                        w = {'inputs': ctx.model_values(m),
                             'observed': api._plain(
                                 [[k, api.evaluate(v, m)]
                                  for k, v in api.OBSERVED])}
                        res['witnesses'].append(w)
                except core.Unsupported:
                    pass
            ctx.end(aborted, skipped)
        res['exhaustive'] = ctx.exhausted and not res['inconclusive']
    except core.EngineError as e:
        res['error'] = 'engine: %s' % (e,)
    except BaseException as e:
        res['error'] = '%s: %s\n%s' % (type(e).__name__, e,
                                       traceback.format_exc(limit=8))
    res['paths'] = ctx.paths
    res['aborted'] = ctx.aborted
    res['queries'] = ctx.queries
    res['solver_s'] = round(ctx.solver_s, 3)
    res['decisions'] = ctx.decisions
    res['choice_decisions'] = ctx.choice_decisions
    res['obligations'] = ctx.obligations
    res['discharged'] = ctx.discharged
    res['wall_s'] = round(time.time() - t0, 3)
    res['entered'] = sorted(rt.ENTERED)
    core.set_current(None)
    return res


def _add_inc(res, reason, ctx=None, mark=None):
    def example():
        if ctx._check():
            ex = ctx.model_values(ctx.solver.model())
            if mark:
                ex['__harness_exception__'] = mark
            return ex
        return None
    for r in res['inconclusive']:
        if r['reason'] == reason:
            r['count'] = r.get('count', 1) + 1
            if ctx is not None and len(r.get('more_examples', [])) < 3 and \
                    r['count'] in (2, 5, 17):
                try:
                    ex = example()
                    if ex:
                        r.setdefault('more_examples', []).append(ex)
                except BaseException:
                    pass
            return
    if len(res['inconclusive']) < 20:
        ent = {'reason': reason, 'count': 1}
        if ctx is not None:
            try:
                ex = example()
                if ex:
                    ent['example_inputs'] = ex
            except BaseException:
                pass
        res['inconclusive'].append(ent)


# ------------------------------------------------------------------ replay
def native_replay(prop, cell, inputs_list, repo=None, timeout=300):
    """Run the harness natively (uninstrumented slimta, concrete values) on
    each assignment; returns a list of result dicts."""
    env = dict(os.environ)
    env['SYMX_MODE'] = 'concrete'
    env['GEVENT_LOOP'] = 'symx.vloop.loop'
    env['PYTHONHASHSEED'] = '0'
    env['PYTHONDONTWRITEBYTECODE'] = '1'
    if repo:
        env['VERIF_REPO'] = repo
    req = json.dumps({'prop': prop, 'cell': cell, 'inputs': inputs_list})
    try:
        p = subprocess.run([PY, '-m', 'symx.replay'], input=req.encode(),
                           stdout=subprocess.PIPE, stderr=subprocess.PIPE,
                           cwd=ROOT, env=env, timeout=timeout)
    except subprocess.TimeoutExpired:
        return [{'error': 'replay timeout'} for _ in inputs_list]
    if p.returncode != 0:
        return [{'error': 'replay process failed: %s' %
                 p.stderr.decode('utf-8', 'replace')[-2000:]}
                for _ in inputs_list]
    return json.loads(p.stdout.decode())


# ------------------------------------------------------------ known findings
def load_known(prop):
    try:
        with open(KNOWN) as f:
            data = json.load(f)
    except (IOError, ValueError):
        return []
    return [e for e in data.get('findings', [])
            if e.get('property') == prop and e.get('status') == 'open']


def _subset_match(match, fields):
    for k, v in match.items():
        fv = fields.get(k)
        if isinstance(v, list):
            if fv not in v:
                return False
        elif fv != v:
            return False
    return True


def match_known(known, fields):
    for e in known:
        if _subset_match(e.get('match', {}), fields):
            return e
    return None


# ------------------------------------------------------------------- main
def run_check(prop, tier='quick', seed=0, repo=None, jobs=None, only=None):
    t0 = time.time()
    prop = prop.upper()
    mod = _load_prop(prop)
    cells = mod.cells(tier)
    if only is not None:
        cells = [c for c in cells if all(c.get(k) == v
                                         for k, v in only.items())]
    budget = getattr(mod, 'CELL_BUDGET_S', {}).get(tier, 600)
    opts = {'seed': seed, 'repo': repo, 'cell_budget_s': budget,
            'sample_p': getattr(mod, 'SAMPLE_P', 0.02),
            'max_witnesses': getattr(mod, 'MAX_WITNESSES', 10),
            'max_decisions': getattr(mod, 'MAX_DECISIONS', 20000)}
    jobs = jobs or int(os.environ.get('VERIF_JOBS', os.cpu_count() or 4))
    os.environ['PYTHONHASHSEED'] = '0'
    os.environ['GEVENT_LOOP'] = 'symx.vloop.loop'
    os.environ['PYTHONDONTWRITEBYTECODE'] = '1'
    if repo:
        os.environ['VERIF_REPO'] = repo
    results = _run_cells(prop, cells, opts, min(jobs, max(1, len(cells))))
    return finish(prop, mod, tier, seed, repo, cells, results, t0)


def _cell_worker(prop, cell, opts, conn):
    try:
        res = run_cell(prop, cell, opts)
    except BaseException as e:
        res = {'cell': cell, 'error': 'worker raised: %r' % (e,), 'paths': 0,
               'violations': [], 'inconclusive': [], 'witnesses': []}
    try:
        conn.send(res)
    finally:
        conn.close()


def _run_cells(prop, cells, opts, jobs):
    """One process per cell, at most `jobs` at a time; a process that dies
    (killed, out of memory) costs its own cell only."""
    mpctx = multiprocessing.get_context('spawn')
    results = [None] * len(cells)
    pending = list(enumerate(cells))
    running = {}
    while pending or running:
        while pending and len(running) < jobs:
            i, c = pending.pop(0)
            parent, child = mpctx.Pipe(duplex=False)
            p = mpctx.Process(target=_cell_worker, args=(prop, c, opts, child))
            p.start()
            child.close()
            running[i] = (p, parent, c)
        ready = multiprocessing.connection.wait(
            [v[1] for v in running.values()], timeout=5)
        for i, (p, parent, c) in list(running.items()):
            if parent in ready:
                try:
                    results[i] = parent.recv()
                except (EOFError, OSError):
                    results[i] = None
                p.join(30)
                parent.close()
                del running[i]
            elif not p.is_alive():
                p.join()
                try:
                    if parent.poll(1):
                        results[i] = parent.recv()
                except (EOFError, OSError):
                    results[i] = None
                parent.close()
                del running[i]
            else:
                continue
            if results[i] is None:
                results[i] = {'cell': c, 'paths': 0, 'violations': [],
                              'inconclusive': [], 'witnesses': [],
                              'error': 'worker died (exit code %r)' %
                                       (p.exitcode,)}
    return results


def finish(prop, mod, tier, seed, repo, cells, results, t0):
    os.makedirs(REPLAY_DIR, exist_ok=True)
    for fn in os.listdir(REPLAY_DIR):
        if fn.startswith(prop + '-'):
            os.unlink(os.path.join(REPLAY_DIR, fn))
    known = load_known(prop)
    engine_errors = [r['error'] for r in results if r.get('error')]
    tot = lambda k: sum(r.get(k, 0) or 0 for r in results)
    violations_out = []
    known_hits = {}
    mismatches = []
    validated = 0
    classify = getattr(mod, 'classify', None)
    # 1. replay candidate violations natively
    nrep = 0
    for r in results:
        if not r.get('violations'):
            continue
        outs = native_replay(prop, r['cell'], [v['inputs']
                                              for v in r['violations']], repo)
        for v, o in zip(r['violations'], outs):
            if o.get('error'):
                mismatches.append({'cell': r['cell'], 'label': v['label'],
                                   'error': o['error']})
                continue
            failed = o.get('failed', [])
            labels = [f['label'] for f in failed]
            if not failed:
                mismatches.append({'cell': r['cell'], 'label': v['label'],
                                   'inputs': v['inputs'],
                                   'error': 'counterexample does not '
                                            'reproduce natively'})
                continue
            validated += 1
            fl = failed[0]
            for f in failed:
                if f['label'] == v['label']:
                    fl = f
            fields = {'label': fl['label']}
            fields.update(dict((k, v2) for k, v2 in (r['cell'] or {}).items()
                               if isinstance(v2, (int, str, bool))))
            if classify:
                try:
                    fields.update(classify(r['cell'], v['inputs'], fl) or {})
                except Exception as e:
                    fields['classify_error'] = repr(e)
            kf = match_known(known, fields)
            rec = {'property': prop, 'cell': r['cell'], 'inputs': v['inputs'],
                   'label': fl['label'], 'info': fl.get('info'),
                   'symbolic_label': v['label'], 'fields': fields,
                   'native_failed_labels': labels}
            if kf is not None:
                known_hits.setdefault(kf['id'], []).append(rec)
                continue
            nrep += 1
            path = os.path.join(REPLAY_DIR, '%s-%d.json' % (prop, nrep))
            with open(path, 'w') as f:
                json.dump(rec, f, indent=1, sort_keys=True)
            rec['path'] = path
            violations_out.append(rec)
    # 2. encoding validation: witnesses of passing paths replayed natively
    enc_checked = 0
    for r in results:
        ws = r.get('witnesses') or []
        if not ws:
            continue
        outs = native_replay(prop, r['cell'], [w['inputs'] for w in ws], repo)
        for w, o in zip(ws, outs):
            if o.get('error'):
                mismatches.append({'cell': r['cell'], 'error': o['error'],
                                   'kind': 'witness'})
                continue
            enc_checked += 1
            if o.get('failed'):
                mismatches.append({'cell': r['cell'], 'inputs': w['inputs'],
                                   'kind': 'witness',
                                   'error': 'native run fails an obligation '
                                            'the solver proved: %r' %
                                            o['failed'][:2]})
            elif o.get('observed') != w['observed']:
                mismatches.append({'cell': r['cell'], 'inputs': w['inputs'],
                                   'kind': 'witness',
                                   'error': 'observations differ: native %r '
                                            'vs symbolic %r' %
                                            (o.get('observed'),
                                             w['observed'])})
    validated += enc_checked
    # 2b. paths the engine could not finish (unsupported operation, budget):
    # the solver's witness of the path condition is run natively; a native
    # failure is a real counterexample although the path itself was not
    # decided symbolically
    for r in results:
        exs = []
        for inc in r.get('inconclusive') or []:
            for e in [inc.get('example_inputs')] + \
                    list(inc.get('more_examples') or []):
                if e:
                    exs.append(e)
        if not exs:
            continue
        outs = native_replay(prop, r['cell'], exs, repo)
        for e, o in zip(exs, outs):
            if o.get('raised') and isinstance(e, dict) and \
                    e.get('__harness_exception__') == o['raised']:
                # the symbolic run ended in an exception that no harness
                # clause expects, and the uninstrumented code raises the
                # same one on the witness: the code under test lets an
                # exception escape where the harness expects none
                o = {'failed': [{'label': 'unexpected-exception-escaped',
                                 'info': {'exc': o['raised'],
                                          'msg': o.get('raised_msg')}}]}
                e = dict((k, v) for k, v in e.items()
                         if k != '__harness_exception__')
            if o.get('error') or not o.get('failed'):
                continue
            validated += 1
            fl = o['failed'][0]
            fields = {'label': fl['label']}
            fields.update(dict((k, v2) for k, v2 in (r['cell'] or {}).items()
                               if isinstance(v2, (int, str, bool))))
            if classify:
                try:
                    fields.update(classify(r['cell'], e, fl) or {})
                except Exception as ex:
                    fields['classify_error'] = repr(ex)
            rec = {'property': prop, 'cell': r['cell'], 'inputs': e,
                   'label': fl['label'], 'info': fl.get('info'),
                   'symbolic_label': '(witness of an undecided path)',
                   'fields': fields,
                   'native_failed_labels': [f['label'] for f in o['failed']]}
            kf = match_known(known, fields)
            if kf is not None:
                known_hits.setdefault(kf['id'], []).append(rec)
                continue
            nrep += 1
            path = os.path.join(REPLAY_DIR, '%s-%d.json' % (prop, nrep))
            with open(path, 'w') as f:
                json.dump(rec, f, indent=1, sort_keys=True)
            rec['path'] = path
            violations_out.append(rec)
    # 3. vacuity / anchors
    entered = set()
    for r in results:
        entered.update(r.get('entered') or [])
    missing = [f for f in getattr(mod, 'EXPECT_ENTERED', [])
               if not any(e.endswith(f) for e in entered)]
    inconclusive = []
    for r in results:
        for inc in r.get('inconclusive') or []:
            inconclusive.append({'cell': r['cell'], 'reason':
                                 inc['reason'][:600],
                                 'count': inc.get('count', 1)})
    paths = tot('paths')
    vac = []
    if paths and tot('paths_with_obligation') == 0:
        vac.append('no path reached an obligation')
    if missing:
        vac.append('anchored functions never entered: %s' % missing)
    exhaustive = bool(results) and all(r.get('exhaustive') for r in results)
    samples = []
    for r in results:
        for w in (r.get('witnesses') or [])[:1]:
            samples.append({'cell': r['cell'], 'representative_inputs':
                            w['inputs'], 'observed': w['observed']})
    for v in violations_out[:3]:
        samples.append({'violation': v['label'], 'cell': v['cell'],
                        'inputs': v['inputs']})
    if not samples:
        samples.append({'cells': cells[:3]})
    ev = {
        'property_id': prop, 'tier': tier, 'seed': int(seed),
        'level': 'model_checking',
        'coverage': {
            'states': max(paths, 1) if paths else 0,
            'transitions': tot('decisions') + tot('choice_decisions'),
            'traces_validated_against_impl': validated,
            'samples': samples[:12],
            'exhaustive': exhaustive and not engine_errors,
            'paths': paths, 'aborted_paths': tot('aborted'),
            'data_decisions': tot('decisions'),
            'choice_decisions': tot('choice_decisions'),
            'solver_queries': tot('queries'),
            'solver_s': round(sum(r.get('solver_s', 0) for r in results), 2),
            'obligations': tot('obligations'),
            'discharged': tot('discharged'),
            'candidate_violations': tot('violation_count'),
            'cells': [{'cell': r['cell'], 'paths': r.get('paths'),
                       'queries': r.get('queries'),
                       'solver_s': r.get('solver_s'),
                       'wall_s': r.get('wall_s'),
                       'exhaustive': r.get('exhaustive')} for r in results],
            'inconclusive_cells': inconclusive[:40],
            'functions_encoded': sorted(
                e for e in entered if e.startswith('slimta')),
            'bounds': getattr(mod, 'BOUNDS', {}).get(tier, ''),
            'outside_claim': getattr(mod, 'OUTSIDE', ''),
            'stubs': getattr(mod, 'STUBS', []),
            'encoding_validation_paths': enc_checked,
            'engine_mismatches': mismatches[:10],
            'known_findings_hit': sorted(known_hits),
            'repo': repo or os.environ.get('VERIF_REPO', '/repo'),
        },
        'assumptions': getattr(mod, 'ASSUMPTIONS', []),
        'wall_s': round(time.time() - t0, 2),
        'violations': len(violations_out),
    }
    if not ev['coverage']['states']:
        ev['coverage']['states'] = 1
    if not ev['coverage']['transitions']:
        ev['coverage']['transitions'] = 1
    os.makedirs(EVID, exist_ok=True)
    with open(os.path.join(EVID, '%s.json' % prop), 'w') as f:
        json.dump(ev, f, indent=1, sort_keys=True, default=str)
    # ---- report
    print('%s tier=%s cells=%d paths=%d queries=%d solver_s=%.1f '
          'obligations=%d discharged=%d wall=%.1fs exhaustive=%s' %
          (prop, tier, len(results), paths, tot('queries'),
           ev['coverage']['solver_s'], tot('obligations'), tot('discharged'),
           ev['wall_s'], ev['coverage']['exhaustive']))
    for inc in inconclusive[:10]:
        print('INCONCLUSIVE cell=%s reason=%s (x%d)' %
              (json.dumps(inc['cell'], sort_keys=True),
               inc['reason'].splitlines()[0][:300], inc['count']))
    for kid, recs in sorted(known_hits.items()):
        e = [k for k in known if k['id'] == kid][0]
        print('KNOWN-FINDING: property=%s %s [%s; %d counterexample(s) '
              'replayed]' % (prop, e['what'], kid, len(recs)))
    code = 0
    for v in violations_out:
        print('VIOLATION property=%s replay=%s' % (prop, v['path']))
        print('  label=%s cell=%s' % (v['label'], json.dumps(v['cell'],
                                                             sort_keys=True)))
        code = 1
    if engine_errors or mismatches or vac:
        for e in engine_errors[:5]:
            print('ENGINE-ERROR %s' % e)
        for m in mismatches[:5]:
            print('ENGINE-MISMATCH %s' % json.dumps(m, default=str)[:1500])
        for v in vac:
            print('VACUOUS %s' % v)
        if code == 0:
            code = 3
    return code


def replay_file(path, repo=None):
    with open(path) as f:
        rec = json.load(f)
    out = native_replay(rec['property'], rec['cell'], [rec['inputs']], repo)[0]
    print(json.dumps(out, indent=1, sort_keys=True, default=str))
    if out.get('failed'):
        print('VIOLATION property=%s replay=%s' % (rec['property'], path))
        return 1
    return 0 if not out.get('error') else 3
