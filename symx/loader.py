"""Import hook: load slimta.* from $VERIF_REPO, rewriting the AST so that
operations CPython would do in C on str/bytes/int go through symx.rt."""
import ast
import importlib.abc
import importlib.machinery
import importlib.util
import os
import sys

from . import rt

REPO = os.environ.get('VERIF_REPO', '/repo')
PREFIX = 'slimta'
LOADED = {}        # module name -> file
RUNTIME_NAMES = ['_sxrt_m', '_sxrt_call', '_sxrt_mod', '_sxrt_in',
                 '_sxrt_notin', '_sxrt_fstr', '_sxrt_enter']


def _mangle(name, cls):
    if cls and name.startswith('__') and not name.endswith('__'):
        c = cls.lstrip('_')
        if c:
            return '_%s%s' % (c, name)
    return name


class Rewriter(ast.NodeTransformer):
    def __init__(self, modname):
        self.modname = modname
        self.cls = []        # enclosing class names (for private mangling)
        self.scope = []

    def _name(self, n):
        return ast.Name(id=n, ctx=ast.Load())

    def visit_ClassDef(self, node):
        self.cls.append(node.name)
        self.scope.append(node.name)
        self.generic_visit(node)
        self.scope.pop()
        self.cls.pop()
        return node

    def _func(self, node):
        self.scope.append(node.name)
        self.generic_visit(node)
        qual = '%s:%s' % (self.modname, '.'.join(self.scope))
        self.scope.pop()
        enter = ast.Expr(value=ast.Call(
            func=self._name('_sxrt_enter'),
            args=[ast.Constant(value=qual)], keywords=[]))
        body = node.body
        i = 0
        if body and isinstance(body[0], ast.Expr) and \
                isinstance(getattr(body[0], 'value', None), ast.Constant) and \
                isinstance(body[0].value.value, str):
            i = 1
        node.body = body[:i] + [enter] + body[i:]
        return node

    visit_FunctionDef = _func
    visit_AsyncFunctionDef = _func

    def visit_Call(self, node):
        self.generic_visit(node)
        f = node.func
        has_star_kw = any(k.arg is None for k in node.keywords)
        if isinstance(f, ast.Attribute):
            if isinstance(f.value, ast.Call) and \
                    isinstance(f.value.func, ast.Name) and \
                    f.value.func.id == 'super':
                return node
            args = ast.Tuple(elts=list(node.args), ctx=ast.Load())
            if node.keywords:
                kw = ast.Dict(keys=[None if k.arg is None else
                                    ast.Constant(value=k.arg)
                                    for k in node.keywords],
                              values=[k.value for k in node.keywords])
            else:
                kw = ast.Constant(value=None)
            attr = _mangle(f.attr, self.cls[-1] if self.cls else None)
            new = ast.Call(func=self._name('_sxrt_m'),
                           args=[f.value, ast.Constant(value=attr), args, kw],
                           keywords=[])
            return ast.copy_location(new, node)
        if isinstance(f, ast.Name) and f.id in rt.REWRITE_CALL_NAMES:
            args = ast.Tuple(elts=list(node.args), ctx=ast.Load())
            kw = ast.Dict(keys=[None if k.arg is None else
                                ast.Constant(value=k.arg)
                                for k in node.keywords],
                          values=[k.value for k in node.keywords])
            new = ast.Call(func=self._name('_sxrt_call'),
                           args=[f, args, kw], keywords=[])
            return ast.copy_location(new, node)
        return node

    def visit_BinOp(self, node):
        self.generic_visit(node)
        if isinstance(node.op, ast.Mod):
            new = ast.Call(func=self._name('_sxrt_mod'),
                           args=[node.left, node.right], keywords=[])
            return ast.copy_location(new, node)
        return node

    def visit_Compare(self, node):
        self.generic_visit(node)
        if len(node.ops) == 1 and isinstance(node.ops[0], (ast.In, ast.NotIn)):
            fn = '_sxrt_in' if isinstance(node.ops[0], ast.In) else \
                '_sxrt_notin'
            new = ast.Call(func=self._name(fn),
                           args=[node.left, node.comparators[0]], keywords=[])
            return ast.copy_location(new, node)
        return node

    def visit_JoinedStr(self, node):
        self.generic_visit(node)
        parts = []
        for v in node.values:
            if isinstance(v, ast.Constant):
                parts.append(v)
            elif isinstance(v, ast.FormattedValue):
                if v.conversion != -1 or v.format_spec is not None:
                    return node      # leave complex f-strings alone
                parts.append(v.value)
        new = ast.Call(func=self._name('_sxrt_fstr'),
                       args=[ast.List(elts=parts, ctx=ast.Load())],
                       keywords=[])
        return ast.copy_location(new, node)


def instrument(source, filename, modname):
    tree = ast.parse(source, filename)
    tree = Rewriter(modname).visit(tree)
    # import the runtime names after the docstring / __future__ imports
    imp = ast.ImportFrom(module='symx.rt',
                         names=[ast.alias(name=n, asname=None)
                                for n in RUNTIME_NAMES], level=0)
    i = 0
    body = tree.body
    if body and isinstance(body[0], ast.Expr) and \
            isinstance(getattr(body[0], 'value', None), ast.Constant) and \
            isinstance(body[0].value.value, str):
        i = 1
    while i < len(body) and isinstance(body[i], ast.ImportFrom) and \
            body[i].module == '__future__':
        i += 1
    body.insert(i, imp)
    ast.fix_missing_locations(tree)
    return compile(tree, filename, 'exec', dont_inherit=True)


class _Loader(importlib.abc.Loader):
    def __init__(self, name, path, is_pkg, instrumented):
        self.name = name
        self.path = path
        self.is_pkg = is_pkg
        self.instrumented = instrumented

    def create_module(self, spec):
        return None

    def exec_module(self, module):
        if self.path is None:       # namespace package (no __init__.py)
            return
        with open(self.path, 'rb') as f:
            src = f.read()
        LOADED[self.name] = self.path
        if self.instrumented:
            code = instrument(src, self.path, self.name)
        else:
            code = compile(src, self.path, 'exec', dont_inherit=True)
        exec(code, module.__dict__)
        if self.instrumented:
            # C functions imported by name that have a model
            import types
            for k, v in list(module.__dict__.items()):
                if isinstance(v, (types.BuiltinFunctionType,
                                  types.FunctionType)) and \
                        (id(v) in rt.FUNC_MODELS or id(v) in rt.ALWAYS_FUNCS):
                    module.__dict__[k] = rt.wrap_global(v)


class Finder(importlib.abc.MetaPathFinder):
    def __init__(self, repo, instrumented):
        self.repo = repo
        self.instrumented = instrumented

    def find_spec(self, fullname, path=None, target=None):
        if fullname != PREFIX and not fullname.startswith(PREFIX + '.'):
            return None
        rel = fullname.replace('.', os.sep)
        d = os.path.join(self.repo, rel)
        if os.path.isdir(d):
            init = os.path.join(d, '__init__.py')
            p = init if os.path.exists(init) else None
            spec = importlib.machinery.ModuleSpec(
                fullname, _Loader(fullname, p, True, self.instrumented),
                origin=p, is_package=True)
            spec.submodule_search_locations = [d]
            if p:
                spec.has_location = True
            return spec
        f = d + '.py'
        if os.path.exists(f):
            spec = importlib.machinery.ModuleSpec(
                fullname, _Loader(fullname, f, False, self.instrumented),
                origin=f)
            spec.has_location = True
            return spec
        return None


_installed = None


def install(instrumented=True, repo=None):
    """Make `import slimta...` load from the repo working tree."""
    global _installed, REPO
    if repo:
        REPO = repo
    sys.dont_write_bytecode = True
    for m in list(sys.modules):
        if m == PREFIX or m.startswith(PREFIX + '.'):
            del sys.modules[m]
    if _installed is not None:
        sys.meta_path.remove(_installed)
    _installed = Finder(REPO, instrumented)
    sys.meta_path.insert(0, _installed)
    return _installed
