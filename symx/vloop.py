"""Virtual-time event loop for the real gevent (GEVENT_LOOP=symx.vloop.loop).

Callbacks run FIFO exactly like libev's pending queue; timers fire in order
of *virtual* due time, which may be a symbolic real: picking the next timer
compares due times through SymBool.__bool__, so z3 decides which orders are
possible and every feasible order is explored.  Timers with equal due times
fire in the order they were started.
"""
import itertools
import sys

TRACE = None
MAX_EVENTS = 200000


class LoopBudget(BaseException):
    pass


class _Callback(object):
    def __init__(self, cb, args):
        self.callback, self.args = cb, args

    def stop(self):
        self.callback = None
        self.args = None
    close = stop

    @property
    def pending(self):
        return self.callback is not None

    def __bool__(self):
        return self.args is not None


class _Watcher(object):
    def __init__(self, loop, ref=True):
        self.loop = loop
        self.callback = None
        self.args = None
        self.ref = ref
        self.active = False
        self.pending = False

    def start(self, callback, *args, **kw):
        self.callback, self.args = callback, args
        self.active = True
        self._start()

    def stop(self):
        self.active = False
        self.callback = None
        self.args = None
        self._stop()

    def close(self):
        self.stop()

    def _start(self):
        pass

    def _stop(self):
        pass

    def __enter__(self):
        return self

    def __exit__(self, *a):
        self.close()


class _Timer(_Watcher):
    def __init__(self, loop, after, ref=True):
        _Watcher.__init__(self, loop, ref)
        self.after = after
        self._entry = None

    def _start(self):
        self.loop._add_timer(self)

    def _stop(self):
        self.loop._del_timer(self)

    def again(self, callback, *args, **kw):
        self.stop()
        self.start(callback, *args)


class loop(object):
    MAXPRI = 0
    MINPRI = 0
    approx_timer_resolution = 0.0
    CURRENT = None

    def __init__(self, flags=None, default=None):
        self._callbacks = []
        self._timers = []
        self._seq = itertools.count()
        self._now = 0
        self.error_handler = None
        self.default = True
        self.events = 0
        loop.CURRENT = self

    def run_callback(self, func, *args):
        cb = _Callback(func, args)
        self._callbacks.append(cb)
        return cb

    def run_callback_threadsafe(self, func, *args):
        return self.run_callback(func, *args)

    def timer(self, after, repeat=0.0, ref=True, priority=None):
        return _Timer(self, after, ref)

    def _add_timer(self, t):
        after = t.after
        if after is None:
            after = 0
        if after < 0:          # symbolic: forks
            after = 0
        t._entry = [self._now + after, next(self._seq), t]
        self._timers.append(t._entry)

    def _del_timer(self, t):
        e = t._entry
        if e is not None:
            try:
                self._timers.remove(e)
            except ValueError:
                pass
        t._entry = None

    def now(self):
        return self._now

    def update_now(self):
        pass
    update = update_now

    def idle(self, ref=True, priority=None):
        return _Watcher(self, ref)

    def prepare(self, ref=True, priority=None):
        return _Watcher(self, ref)

    def check(self, ref=True, priority=None):
        return _Watcher(self, ref)

    def fork(self, ref=True, priority=None):
        return _Watcher(self, ref)

    def async_(self, ref=True, priority=None):
        return _Watcher(self, ref)

    def signal(self, *a, **k):
        return _Watcher(self)

    def child(self, *a, **k):
        raise NotImplementedError

    def io(self, *a, **k):
        raise NotImplementedError('no real I/O in the virtual loop')

    def closing_fd(self, fd):
        return False

    def install_sigchld(self):
        pass

    def reinit(self):
        pass

    def destroy(self):
        self._callbacks = []
        self._timers = []

    def ref(self):
        pass

    def unref(self):
        pass

    def break_(self, how=None):
        pass

    def verify(self):
        pass

    @property
    def activecnt(self):
        return len(self._callbacks) + len(self._timers)

    @property
    def pendingcnt(self):
        return len(self._callbacks)

    def handle_error(self, context, type, value, tb):
        if self.error_handler is not None:
            self.error_handler.handle_error(context, type, value, tb)
        else:
            import traceback
            traceback.print_exception(type, value, tb)

    def _run_callbacks(self):
        while self._callbacks:
            cb = self._callbacks.pop(0)
            f, a = cb.callback, cb.args
            cb.callback = None
            if f is None:
                continue
            self.events += 1
            if self.events > MAX_EVENTS:
                raise LoopBudget('event budget exceeded (livelock?)')
            try:
                f(*a)
            except Exception:
                self.handle_error(cb, *sys.exc_info())
            finally:
                cb.args = None

    def _next_timer(self):
        best = None
        for e in self._timers:
            if best is None:
                best = e
            elif e[0] < best[0]:        # symbolic: forks over orders
                best = e
            elif not (best[0] < e[0]) and e[1] < best[1]:
                best = e
        return best

    def run(self, nowait=False, once=False):
        while True:
            self._run_callbacks()
            if not self._timers:
                return
            e = self._next_timer()
            self._timers.remove(e)
            when, _, t = e
            t._entry = None
            self._now = when
            cb, args = t.callback, t.args
            t.active = False
            self.events += 1
            if self.events > MAX_EVENTS:
                raise LoopBudget('event budget exceeded (livelock?)')
            if cb is not None:
                try:
                    cb(*args)
                except Exception:
                    self.handle_error(t, *sys.exc_info())


def now():
    return loop.CURRENT._now if loop.CURRENT is not None else 0


class TimeShim(object):
    """Stand-in for the `time` module inside slimta modules."""
    def __init__(self, real):
        self._real = real

    def time(self):
        return now()

    def __getattr__(self, name):
        return getattr(self._real, name)
