"""Decision tree with deterministic replay, z3 interface, scalar proxies."""
import sys
import time
import zlib
from fractions import Fraction

import z3 as _z3
from z3 import z3core as _zc

from . import zt as z3
from .zt import to_z3

__all__ = ['Unsupported', 'PathAbort', 'StepBudget', 'EngineError', 'Ctx',
           'SymBool', 'SymInt', 'SymReal', 'current', 'set_current',
           'is_sym', 'zexpr', 'mkbool', 'mkint', 'mkreal', 'And', 'Or', 'Not',
           'Implies', 'Ite']


class Unsupported(BaseException):
    """The engine cannot handle a construct: the cell becomes inconclusive."""


class PathAbort(BaseException):
    """assume() failed: the path is infeasible for the harness; discarded."""


class ShardSkip(PathAbort):
    """this decision prefix belongs to another shard of the cell"""


class StepBudget(BaseException):
    """Decision / step budget of one path exceeded (reported as a hang)."""


class EngineError(BaseException):
    """Determinism guard or internal failure: nothing may be claimed."""


_CUR = None
_getframe = sys._getframe


def _site():
    """Identity of a decision site for the replay-determinism guard: code
    location of the four frames above the engine entry point.  (z3 AST hashes
    are unusable: the simplifier orders commutative arguments by AST id, which
    depends on allocation history.)"""
    f = _getframe(2)
    out = []
    for _ in range(4):
        if f is None:
            break
        out.append((f.f_code.co_name, f.f_lineno))
        f = f.f_back
    return tuple(out)


def current():
    return _CUR


def set_current(ctx):
    global _CUR
    _CUR = ctx


class Node(object):
    __slots__ = ('key', 'feas', 'kids', 'done', 'payload')

    def __init__(self):
        self.key = None
        self.feas = None
        self.kids = {}
        self.done = False
        self.payload = None


_DONE = Node()
_DONE.done = True


class Ctx(object):
    def __init__(self, max_decisions=50000, timeout_ms=60000):
        self.solver = _z3.Solver()
        self.solver.set('timeout', timeout_ms)
        self._cref = self.solver.ctx.ref()
        self._sref = self.solver.solver
        self._stack = []          # asserted terms, one solver scope each
        self.root = Node()
        self.paths = 0
        self.aborted = 0
        self.queries = 0
        self.solver_s = 0.0
        self.decisions = 0        # solver-decided (data) branches, new nodes
        self.choice_decisions = 0
        self.obligations = 0
        self.discharged = 0
        self.max_decisions = max_decisions
        self.violations = []
        self.samples = []
        self.active = False
        # (i, N, D): explore only the decision prefixes of depth D whose
        # hash is i mod N (a cell split over N processes)
        self.shard = None
        self.skipped = 0

    def _shard_filter(self, n, kind):
        sh = self.shard
        if sh is None:
            return
        i, N, D = sh
        depth = len(self.trail)
        if depth >= D:
            return
        if 'v' in self.trail_kinds:
            return              # only shard 0 gets below a value fork
        if kind == 'v':
            # the value picked by the solver is not the same in every
            # process: no partition below this node, shard 0 takes it all
            if i != 0:
                for s in n.feas:
                    n.feas[s] = False
            return
        if depth == D - 1:
            pre = tuple(self.trail_sides)
            for s in list(n.feas):
                if n.feas[s] and zlib.crc32(
                        repr(pre + (s,)).encode()) % N != i:
                    n.feas[s] = False

    def _pick(self, n, sides):
        for side in sides:
            if self._open(n, side):
                return side
        if self.shard is not None and not any(n.feas.values()):
            raise ShardSkip()
        raise EngineError('revisiting exhausted node')

    # ---- path life cycle
    def _add(self, t):
        """Assert term t.  Constraints are kept in one solver scope each;
        a path that repeats the previous path's prefix re-uses the scopes
        (and whatever the solver learnt) instead of re-asserting."""
        i = self._npc
        self._npc = i + 1
        st = self._stack
        if i < len(st):
            if st[i] is t:
                return
            _zc.Z3_solver_pop(self._cref, self._sref, len(st) - i)
            del st[i:]
        _zc.Z3_solver_push(self._cref, self._sref)
        _zc.Z3_solver_assert(self._cref, self._sref, to_z3(t).as_ast())
        st.append(t)

    def _sync(self):
        """Drop scopes left over from a longer previous path."""
        st = self._stack
        if len(st) > self._npc:
            _zc.Z3_solver_pop(self._cref, self._sref, len(st) - self._npc)
            del st[self._npc:]

    def begin(self):
        self._npc = 0
        self.cur = self.root
        self.trail = []
        self.trail_sides = []
        self.trail_kinds = []
        self.inputs = {}          # name -> z3 const (symbolic inputs)
        self.choices = {}         # name -> concrete int (forked choices)
        self.order = []           # names in creation order
        self._names = {}
        self.ndec = 0
        self.steps = 0
        self.active = True
        self.path_obligations = 0
        self.notes = {}

    def uname(self, name):
        n = self._names.get(name, 0)
        self._names[name] = n + 1
        return name if n == 0 else '%s#%d' % (name, n)

    def fresh_int(self, name, lo=None, hi=None):
        name = self.uname(name)
        v = z3.Int(name, lo, hi)
        self.inputs[name] = v
        self.order.append(name)
        if lo is not None or hi is not None:
            self._add(z3._mk('bounds', (v,), z3.BOOL))
        return v

    def fresh_real(self, name, lo=None, hi=None):
        name = self.uname(name)
        v = z3.Real(name, lo, hi)
        self.inputs[name] = v
        self.order.append(name)
        if lo is not None or hi is not None:
            self._add(z3._mk('bounds', (v,), z3.BOOL))
        return v

    def fresh_bool(self, name):
        name = self.uname(name)
        v = z3.Bool(name)
        self.inputs[name] = v
        self.order.append(name)
        return v

    def _check(self, *assumptions):
        self._sync()
        t = time.time()
        n = len(assumptions)
        arr = (_z3.Ast * n)(*[to_z3(a).as_ast() for a in assumptions])
        r = _zc.Z3_solver_check_assumptions(self._cref, self._sref, n, arr)
        self.solver_s += time.time() - t
        self.queries += 1
        if r == 0:
            raise Unsupported('solver answered unknown: %s' %
                              self.solver.reason_unknown())
        return r == 1

    def tick(self, n=1):
        self.steps += n
        if self.steps > self.max_decisions * 20:
            raise StepBudget('step budget exceeded')

    def _enter(self, key):
        """Arrive at the current node for a decision with identity `key`."""
        self.ndec += 1
        if self.ndec > self.max_decisions:
            raise StepBudget('decision budget exceeded')
        n = self.cur
        if n.key is None:
            n.key = key
        elif n.key != key:
            raise EngineError('replay nondeterminism: node created for %r '
                              'revisited with %r' % (n.key, key))
        return n

    def _take(self, n, side):
        kid = n.kids.get(side)
        if kid is None:
            kid = n.kids[side] = Node()
        self.trail.append(n)
        self.trail_sides.append(side)
        self.trail_kinds.append(n.key[0])
        self.cur = kid

    @staticmethod
    def _open(n, side):
        k = n.kids.get(side)
        return n.feas[side] and not (k is not None and k.done)

    def decide(self, e):
        """Branch on the z3 Bool `e`; returns the Python bool of the side
        taken on this path.  Both sides are explored over the run if
        satisfiable under the path condition."""
        e = z3.simplify(e)
        if z3.is_true(e):
            return True
        if z3.is_false(e):
            return False
        n = self._enter(('d', _site(), e.op))
        if n.feas is None:
            self.decisions += 1
            f1 = self._check(e)
            f0 = self._check(z3.Not(e)) if f1 else True
            if not (f0 or f1):
                raise EngineError('both sides infeasible')
            n.feas = {1: f1, 0: f0}
            self._shard_filter(n, 'd')
        side = self._pick(n, (1, 0))
        self._add(e if side else z3.Not(e))
        self._take(n, side)
        return bool(side)

    def choice(self, name, n_alt):
        """n-way fork without solver: returns a concrete int in [0, n_alt)."""
        name = self.uname(name)
        n = self._enter(('c', name, n_alt))
        if n.feas is None:
            self.choice_decisions += 1
            n.feas = dict((k, True) for k in range(n_alt))
            self._shard_filter(n, 'c')
        side = self._pick(n, range(n_alt))
        self._take(n, side)
        self.choices[name] = side
        self.order.append(name)
        return side

    def concretize(self, e):
        """Fork over every feasible value of the Int/Real expression `e`;
        returns the concrete value of this path."""
        e = z3.simplify(e)
        while True:
            if not z3.is_term(e):
                return e
            n = self._enter(('v', _site()))
            if n.payload is None:
                if not self._check():
                    raise EngineError('path condition unsatisfiable')
                m = z3.from_model(self.solver.model(), e)
                n.payload = (m,)
                self.decisions += 1
                n.feas = {1: True, 0: self._check(e != m)}
                self._shard_filter(n, 'v')
            m = n.payload[0]
            side = self._pick(n, (1, 0))
            self._add(e == m if side else e != m)
            self._take(n, side)
            if side:
                return m

    def assume(self, e):
        if isinstance(e, SymBool):
            e = e.e
        if e is True:
            return
        if e is False:
            raise PathAbort()
        e = z3.simplify(e)
        if z3.is_true(e):
            return
        if z3.is_false(e) or not self._check(e):
            raise PathAbort()
        self._add(e)

    def end(self, aborted=False, skipped=False):
        self.active = False
        self.cur.done = True
        if skipped:
            self.skipped += 1
        elif aborted:
            self.aborted += 1
        else:
            self.paths += 1
        # finished sub-trees are replaced by one shared sentinel so that the
        # memory held by the tree is proportional to its frontier
        child = self.cur
        for n, side in zip(reversed(self.trail), reversed(self.trail_sides)):
            if child.done:
                n.kids[side] = _DONE
            n.done = all((not n.feas[s]) or
                         (s in n.kids and n.kids[s].done) for s in n.feas)
            if not n.done:
                break
            child = n

    @property
    def exhausted(self):
        return self.root.done

    # ---- obligations
    def model_values(self, model):
        out = {}
        for name, v in self.inputs.items():
            m = z3.from_model(model, v)
            if isinstance(m, Fraction):
                out[name] = '%d/%d' % (m.numerator, m.denominator)
            else:
                out[name] = m
        out.update(self.choices)
        return out

    def prove(self, e, label, info=None):
        """Obligation: `e` must hold for every value on this path.  Returns
        None if discharged, else a dict of concrete input values."""
        self.obligations += 1
        self.path_obligations += 1
        if isinstance(e, SymBool):
            e = e.e
        if e is True:
            self.discharged += 1
            return None
        if e is False:
            ne = True
        else:
            ne = z3.simplify(z3.Not(e))
            if z3.is_false(ne):
                self.discharged += 1
                return None
        if not self._check(ne):
            self.discharged += 1
            return None
        vals = self.model_values(self.solver.model())
        v = {'label': label, 'inputs': vals, 'order': list(self.order),
             'info': info}
        self.violations.append(v)
        return v

    def witness(self):
        """Concrete representative of the current path (for samples and
        encoding validation)."""
        if not self._check():
            raise EngineError('path condition unsatisfiable')
        return self.model_values(self.solver.model())


# ---------------------------------------------------------------- proxies

def is_sym(x):
    return isinstance(x, (SymBool, SymInt, SymReal))


def zexpr(x):
    if isinstance(x, (SymBool, SymInt, SymReal)):
        return x.e
    return x


def mkbool(e):
    if e is True or e is False:
        return e
    return SymBool(e)


def mkint(e):
    if isinstance(e, int):
        return e
    return SymInt(e)


def mkreal(e):
    if isinstance(e, (int, float, Fraction)):
        return e
    return SymReal(e)


def _zb(x):
    if isinstance(x, SymBool):
        return x.e
    if isinstance(x, (SymInt, SymReal)):
        return x.e != 0
    return bool(x)


def And(*xs):
    es = []
    for x in xs:
        if isinstance(x, SymBool):
            es.append(x.e)
        elif is_sym(x):
            es.append(_zb(x))
        elif not x:
            return False
    if not es:
        return True
    return mkbool(z3.And(*es) if len(es) > 1 else es[0])


def Or(*xs):
    es = []
    for x in xs:
        if isinstance(x, SymBool):
            es.append(x.e)
        elif is_sym(x):
            es.append(_zb(x))
        elif x:
            return True
    if not es:
        return False
    return mkbool(z3.Or(*es) if len(es) > 1 else es[0])


def Not(x):
    if is_sym(x):
        return mkbool(z3.Not(_zb(x)))
    return not x


def Implies(a, b):
    return Or(Not(a), b)


def Ite(c, a, b):
    """If-then-else over ints/reals without forking."""
    if not is_sym(c):
        return a if c else b
    za, zb = zexpr(a), zexpr(b)
    if isinstance(za, bool) or isinstance(zb, bool) or \
            isinstance(a, SymBool) or isinstance(b, SymBool):
        return mkbool(z3.If(c.e, _zb(a), _zb(b)))
    r = z3.If(c.e, za, zb)
    if not z3.is_term(r):
        return r
    if r.sort == z3.INT:
        return mkint(r)
    return mkreal(r)


class SymBool(object):
    __slots__ = ('e',)

    def __init__(self, e):
        self.e = e

    def __bool__(self):
        c = _CUR
        if c is None or not c.active:
            raise Unsupported('SymBool truth test outside a path')
        return c.decide(self.e)

    def __and__(self, o):
        return And(self, o)
    __rand__ = __and__

    def __or__(self, o):
        return Or(self, o)
    __ror__ = __or__

    def __invert__(self):
        return Not(self)

    def __eq__(self, o):
        if isinstance(o, SymBool):
            return mkbool(self.e == o.e)
        if isinstance(o, bool):
            return self if o else Not(self)
        return NotImplemented

    def __ne__(self, o):
        r = self.__eq__(o)
        return r if r is NotImplemented else Not(r)

    def __hash__(self):
        raise Unsupported('hash of SymBool')

    def __repr__(self):
        return '<SymBool %s>' % self.e


def _num(o):
    """z3-compatible operand or None."""
    if isinstance(o, (SymInt, SymReal)):
        return o.e
    if isinstance(o, bool):
        return int(o)
    if isinstance(o, int):
        return o
    if isinstance(o, Fraction):
        return o
    if isinstance(o, float):
        return Fraction(o)
    return None


def _wrap(e):
    if isinstance(e, (int, Fraction)):
        return e
    if e.sort == z3.INT:
        return mkint(e)
    return mkreal(e)


class _SymNum(object):
    __slots__ = ('e',)

    def __init__(self, e):
        self.e = e

    def _bin(self, o, f):
        z = _num(o)
        if z is None:
            return NotImplemented
        return _wrap(f(self.e, z))

    def _rbin(self, o, f):
        z = _num(o)
        if z is None:
            return NotImplemented
        return _wrap(f(z, self.e))

    def _cmp(self, o, f):
        z = _num(o)
        if z is None:
            return NotImplemented
        return mkbool(f(self.e, z))

    def __add__(self, o):
        return self._bin(o, lambda a, b: a + b)

    def __radd__(self, o):
        return self._bin(o, lambda a, b: a + b)

    def __sub__(self, o):
        return self._bin(o, lambda a, b: a - b)

    def __rsub__(self, o):
        return self._rbin(o, lambda a, b: z3.sub(a, b))

    def __mul__(self, o):
        return self._bin(o, lambda a, b: a * b)

    def __rmul__(self, o):
        return self._bin(o, lambda a, b: a * b)

    def __neg__(self):
        return _wrap(-self.e)

    def __pos__(self):
        return self

    def __lt__(self, o):
        return self._cmp(o, lambda a, b: a < b)

    def __le__(self, o):
        return self._cmp(o, lambda a, b: a <= b)

    def __gt__(self, o):
        return self._cmp(o, lambda a, b: a > b)

    def __ge__(self, o):
        return self._cmp(o, lambda a, b: a >= b)

    def __eq__(self, o):
        if o is None:
            return False
        return self._cmp(o, lambda a, b: a == b)

    def __ne__(self, o):
        if o is None:
            return True
        return self._cmp(o, lambda a, b: a != b)

    def __bool__(self):
        c = _CUR
        if c is None or not c.active:
            raise Unsupported('symbolic truth test outside a path')
        return c.decide(self.e != 0)

    def __hash__(self):
        raise Unsupported('hash of a symbolic number')

    def concretize(self):
        c = _CUR
        if c is None or not c.active:
            raise Unsupported('concretize outside a path')
        return c.concretize(self.e)

    def __repr__(self):
        return '<%s %s>' % (type(self).__name__, self.e)

    def __str__(self):
        raise Unsupported('str() of a symbolic number')

    def __format__(self, spec):
        raise Unsupported('format() of a symbolic number')


class SymInt(_SymNum):
    __slots__ = ()

    def __index__(self):
        return self.concretize()

    def __int__(self):
        return self.concretize()

    def __floordiv__(self, o):
        if isinstance(o, int) and o > 0:
            return mkint(self.e / o)      # z3 Int div == floor for o > 0
        return NotImplemented

    def __mod__(self, o):
        if isinstance(o, int) and o > 0:
            return mkint(self.e % o)
        return NotImplemented

    def __rmod__(self, o):
        if isinstance(o, int):
            # o % self with symbolic positive modulus: concretize
            return o % self.concretize()
        return NotImplemented

    def __truediv__(self, o):
        raise Unsupported('true division of SymInt (float)')

    def __and__(self, o):
        if isinstance(o, int) and o >= 0:
            return _bits_and(self, o)
        return NotImplemented
    __rand__ = __and__

    def __rshift__(self, o):
        if isinstance(o, int) and o >= 0:
            return mkint(self.e / (1 << o))
        return NotImplemented

    def __lshift__(self, o):
        if isinstance(o, int) and o >= 0:
            return mkint(self.e * (1 << o))
        return NotImplemented

    def __or__(self, o):
        raise Unsupported('bitwise or on SymInt')
    __ror__ = __or__

    def __float__(self):
        raise Unsupported('float() of SymInt')


def _bits_and(x, mask):
    """x & mask for x >= 0 (asserted by the caller's domain: bytes), mask a
    non-negative constant: sum over runs of set bits via div/mod."""
    e = x.e
    total = None
    bit = 0
    m = mask
    while m:
        if m & 1:
            lo = bit
            while m & 1:
                m >>= 1
                bit += 1
            hi = bit             # bits [lo, hi)
            part = ((e / (1 << lo)) % (1 << (hi - lo))) * (1 << lo)
            total = part if total is None else total + part
        else:
            m >>= 1
            bit += 1
    if total is None:
        return 0
    return mkint(total)


class SymReal(_SymNum):
    __slots__ = ()

    def __truediv__(self, o):
        if isinstance(o, (int, Fraction)) and o != 0:
            return mkreal(self.e / o)
        return NotImplemented

    def __float__(self):
        raise Unsupported('float() of SymReal')

    def __index__(self):
        raise Unsupported('index() of SymReal')
