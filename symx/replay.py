"""Native replay: run a harness in concrete mode on UNinstrumented slimta.

stdin: {"prop": "C05", "cell": {...}, "inputs": [ {name: value}, ... ]}
stdout: [ {"failed": [...], "observed": [...], "proved": n} | {"error": ..} ]
"""
import json
import os
import sys
import traceback


def main():
    os.environ['SYMX_MODE'] = 'concrete'
    os.environ.setdefault('GEVENT_LOOP', 'symx.vloop.loop')
    req = json.loads(sys.stdin.read())
    root = os.path.dirname(os.path.dirname(os.path.abspath(__file__)))
    if root not in sys.path:
        sys.path.insert(0, root)
    from symx import api, loader
    assert api.MODE == 'concrete'
    loader.install(instrumented=False, repo=os.environ.get('VERIF_REPO'))
    import importlib
    mod = importlib.import_module('props.' + req['prop'].lower())
    if hasattr(mod, 'setup'):
        mod.setup('concrete')
    out = []
    real_stdout = sys.stdout
    sys.stdout = sys.stderr
    for inputs in req['inputs']:
        api.reset_concrete(inputs)
        try:
            try:
                mod.run(req['cell'])
            finally:
                if hasattr(mod, 'cleanup'):
                    mod.cleanup()
            out.append({'failed': list(api.FAILED),
                        'observed': api._plain([[k, v] for k, v in
                                                api.OBSERVED]),
                        'proved': api.PROVED[0]})
        except api.PathAbort:
            out.append({'failed': [], 'observed': None, 'aborted': True,
                        'proved': api.PROVED[0]})
        except BaseException as e:
            out.append({'error': 'native harness raised %s: %s\n%s' %
                        (type(e).__name__, e, traceback.format_exc(limit=8)),
                        'raised': type(e).__name__,
                        'raised_msg': str(e)[:200]})
    sys.stdout = real_stdout
    json.dump(out, sys.stdout, default=str)


if __name__ == '__main__':
    main()
