import argparse
import json
import os
import sys


def main():
    ap = argparse.ArgumentParser()
    ap.add_argument('prop')
    ap.add_argument('--tier', default=os.environ.get('VERIF_TIER', 'quick'))
    ap.add_argument('--replay')
    ap.add_argument('--repo', default=os.environ.get('VERIF_REPO'))
    ap.add_argument('--jobs', type=int)
    ap.add_argument('--only', help='JSON dict restricting cells')
    a = ap.parse_args()
    root = os.path.dirname(os.path.dirname(os.path.abspath(__file__)))
    if root not in sys.path:
        sys.path.insert(0, root)
    from symx import driver
    if a.replay:
        sys.exit(driver.replay_file(a.replay, a.repo))
    seed = int(os.environ.get('VERIF_SEED', '0') or 0)
    only = json.loads(a.only) if a.only else None
    from symx import selftest
    if not selftest.run(quiet=True):
        print('ENGINE-ERROR self-test failed')
        sys.exit(3)
    sys.exit(driver.run_check(a.prop, a.tier, seed, a.repo, a.jobs, only))


if __name__ == '__main__':
    main()
