"""Light-weight hash-consed terms with constant folding and interval
reasoning, translated to z3 lazily (and only once per distinct term).

The z3 Python API costs ~10 us per operator application; most terms built
while re-executing a path were already built on an earlier path.  Terms here
are interned Python objects, so rebuilding one is a dict lookup and its z3
translation is cached for the life of the cell.

Constants are plain Python values: int, Fraction (reals), bool.
The module mimics the small part of the z3py namespace the engine uses, so
model code reads `z3.And(...)`, `x == 46`, `x / 64`, `x % 64`, `z3.If(...)`.
"""
from fractions import Fraction

import z3 as _z3

INT, REAL, BOOL = 'int', 'real', 'bool'

_table = {}
_z3vars = {}


def reset():
    """Forget all interned terms (between cells)."""
    _table.clear()
    _z3vars.clear()


class Term(object):
    __slots__ = ('op', 'args', 'sort', 'lo', 'hi', '_z', '__weakref__')

    def __init__(self, op, args, sort, lo=None, hi=None):
        self.op = op
        self.args = args
        self.sort = sort
        self.lo = lo
        self.hi = hi
        self._z = None

    # ---- arithmetic
    def __add__(self, o):
        return add(self, o)

    def __radd__(self, o):
        return add(o, self)

    def __sub__(self, o):
        return sub(self, o)

    def __rsub__(self, o):
        return sub(o, self)

    def __mul__(self, o):
        return mul(self, o)

    def __rmul__(self, o):
        return mul(o, self)

    def __neg__(self):
        return sub(0, self)

    def __truediv__(self, o):
        return div(self, o)

    def __floordiv__(self, o):
        return div(self, o)

    def __mod__(self, o):
        return mod(self, o)

    # ---- relations (build terms; never use Terms as dict keys / in sets)
    def __eq__(self, o):
        return eq(self, o)

    def __ne__(self, o):
        return Not(eq(self, o))

    def __lt__(self, o):
        return lt(self, o)

    def __le__(self, o):
        return le(self, o)

    def __gt__(self, o):
        return lt(o, self)

    def __ge__(self, o):
        return le(o, self)

    __hash__ = None

    def __bool__(self):
        raise TypeError('truth value of a symbolic term')

    def __repr__(self):
        return show(self)


def show(t, depth=0):
    if not isinstance(t, Term):
        return repr(t)
    if t.op == 'var':
        return t.args[0]
    if depth > 6:
        return '...'
    return '(%s %s)' % (t.op, ' '.join(show(a, depth + 1) for a in t.args))


def _key(op, args):
    return (op,) + tuple(id(a) if isinstance(a, Term) else
                         (type(a).__name__, a) for a in args)


def _mk(op, args, sort, lo=None, hi=None):
    k = _key(op, args)
    t = _table.get(k)
    if t is None:
        t = _table[k] = Term(op, args, sort, lo, hi)
    return t


def is_term(x):
    return isinstance(x, Term)


is_expr = is_term


def _sort_of(x):
    if isinstance(x, Term):
        return x.sort
    if isinstance(x, bool):
        return BOOL
    if isinstance(x, int):
        return INT
    if isinstance(x, Fraction):
        return REAL
    if isinstance(x, float):
        return REAL
    raise TypeError('not a term operand: %r' % (x,))


def _norm_const(x):
    if isinstance(x, float):
        return Fraction(x)
    if isinstance(x, bool):
        return x
    return x


def _num_sort(a, b):
    sa, sb = _sort_of(a), _sort_of(b)
    if sa == BOOL or sb == BOOL:
        raise TypeError('arithmetic on booleans')
    return REAL if REAL in (sa, sb) else INT


def _bounds(x):
    if isinstance(x, Term):
        return x.lo, x.hi
    return x, x


# ------------------------------------------------------------- variables
def Int(name, lo=None, hi=None):
    return _mk('var', (name, INT, lo, hi), INT, lo, hi)


def Real(name, lo=None, hi=None):
    return _mk('var', (name, REAL, lo, hi), REAL, lo, hi)


def Bool(name):
    return _mk('var', (name, BOOL, None, None), BOOL)


def IntVal(v):
    return int(v)


def RealVal(v):
    return Fraction(v)


def BoolVal(v):
    return bool(v)


def Q(a, b):
    return Fraction(a, b)


# ------------------------------------------------------------ arithmetic
def _plus(a, b):
    return None if a is None or b is None else a + b


def add(a, b):
    a, b = _norm_const(a), _norm_const(b)
    ta, tb = isinstance(a, Term), isinstance(b, Term)
    if not ta and not tb:
        return a + b
    if not ta:
        a, b = b, a
        ta, tb = True, False
    # a is a Term
    if not tb:
        if b == 0:
            return a
        if a.op == 'add' and not isinstance(a.args[1], Term):
            return add(a.args[0], a.args[1] + b)
        s = _num_sort(a, b)
        return _mk('add', (a, b), s, _plus(a.lo, b), _plus(a.hi, b))
    s = _num_sort(a, b)
    return _mk('add', (a, b), s, _plus(a.lo, b.lo), _plus(a.hi, b.hi))


def sub(a, b):
    a, b = _norm_const(a), _norm_const(b)
    ta, tb = isinstance(a, Term), isinstance(b, Term)
    if not ta and not tb:
        return a - b
    if not tb:
        return add(a, -b)
    if a is b:
        return 0
    s = _num_sort(a, b)
    alo, ahi = _bounds(a)
    lo = None if alo is None or b.hi is None else alo - b.hi
    hi = None if ahi is None or b.lo is None else ahi - b.lo
    return _mk('sub', (a, b), s, lo, hi)


def mul(a, b):
    a, b = _norm_const(a), _norm_const(b)
    ta, tb = isinstance(a, Term), isinstance(b, Term)
    if not ta and not tb:
        return a * b
    if ta and tb:
        raise TypeError('non-linear multiplication of symbolic terms')
    if not ta:
        a, b = b, a
    if b == 0:
        return 0
    if b == 1:
        return a
    s = _num_sort(a, b)
    if b > 0:
        lo = None if a.lo is None else a.lo * b
        hi = None if a.hi is None else a.hi * b
    else:
        lo = None if a.hi is None else a.hi * b
        hi = None if a.lo is None else a.lo * b
    return _mk('mul', (a, b), s, lo, hi)


def div(a, b):
    """Int: floor division by a positive constant; Real: exact division."""
    a, b = _norm_const(a), _norm_const(b)
    if isinstance(b, Term):
        raise TypeError('division by a symbolic term')
    if b == 0:
        raise ZeroDivisionError()
    if not isinstance(a, Term):
        if isinstance(a, int) and isinstance(b, int):
            return a // b
        return Fraction(a) / Fraction(b)
    if a.sort == REAL or not isinstance(b, int):
        return mul(a, Fraction(1) / Fraction(b))
    if b < 0:
        raise TypeError('integer division by a negative constant')
    if b == 1:
        return a
    lo = None if a.lo is None else a.lo // b
    hi = None if a.hi is None else a.hi // b
    if lo is not None and lo == hi:
        return lo
    return _mk('div', (a, b), INT, lo, hi)


def mod(a, b):
    a, b = _norm_const(a), _norm_const(b)
    if isinstance(b, Term) or not isinstance(b, int) or b <= 0:
        raise TypeError('modulo by a non-constant / non-positive value')
    if not isinstance(a, Term):
        return a % b
    if a.sort != INT:
        raise TypeError('modulo on reals')
    if a.lo is not None and a.hi is not None and 0 <= a.lo and a.hi < b:
        return a
    return _mk('mod', (a, b), INT, 0, b - 1)


# -------------------------------------------------------------- relations
def eq(a, b):
    a, b = _norm_const(a), _norm_const(b)
    ta, tb = isinstance(a, Term), isinstance(b, Term)
    if not ta and not tb:
        return a == b
    if a is b:
        return True
    sa, sb = _sort_of(a), _sort_of(b)
    if sa == BOOL or sb == BOOL:
        if sa != sb:
            raise TypeError('comparing bool with number')
        if not tb:
            return a if b else Not(a)
        if not ta:
            return b if a else Not(b)
        if id(a) > id(b):
            a, b = b, a
        return _mk('iff', (a, b), BOOL)
    if not ta:
        a, b = b, a
        ta, tb = tb, ta
    if not tb:
        if a.lo is not None and b < a.lo:
            return False
        if a.hi is not None and b > a.hi:
            return False
        if a.lo is not None and a.lo == a.hi:
            return a.lo == b
        if a.sort == INT and isinstance(b, Fraction):
            if b.denominator != 1:
                return False
            b = int(b)
        return _mk('eq', (a, b), BOOL)
    if a.hi is not None and b.lo is not None and a.hi < b.lo:
        return False
    if b.hi is not None and a.lo is not None and b.hi < a.lo:
        return False
    if id(a) > id(b):
        a, b = b, a
    return _mk('eq', (a, b), BOOL)


def lt(a, b):
    a, b = _norm_const(a), _norm_const(b)
    if not isinstance(a, Term) and not isinstance(b, Term):
        return a < b
    if a is b:
        return False
    alo, ahi = _bounds(a)
    blo, bhi = _bounds(b)
    if ahi is not None and blo is not None and ahi < blo:
        return True
    if alo is not None and bhi is not None and alo >= bhi:
        return False
    _num_sort(a, b)
    return _mk('lt', (a, b), BOOL)


def le(a, b):
    a, b = _norm_const(a), _norm_const(b)
    if not isinstance(a, Term) and not isinstance(b, Term):
        return a <= b
    if a is b:
        return True
    alo, ahi = _bounds(a)
    blo, bhi = _bounds(b)
    if ahi is not None and blo is not None and ahi <= blo:
        return True
    if alo is not None and bhi is not None and alo > bhi:
        return False
    _num_sort(a, b)
    return _mk('le', (a, b), BOOL)


# --------------------------------------------------------------- booleans
def Not(a):
    if not isinstance(a, Term):
        return not a
    if a.op == 'not':
        return a.args[0]
    return _mk('not', (a,), BOOL)


def _flatten(op, xs, unit, zero):
    out = []
    seen = set()
    for x in xs:
        if not isinstance(x, Term):
            if bool(x) == zero:
                return None
            continue
        if x.sort != BOOL:
            raise TypeError('boolean connective on a number')
        if x.op == op:
            parts = x.args
        else:
            parts = (x,)
        for p in parts:
            if id(p) in seen:
                continue
            seen.add(id(p))
            out.append(p)
    for p in out:
        if p.op == 'not' and id(p.args[0]) in seen:
            return None
    return out


def And(*xs):
    if len(xs) == 1 and isinstance(xs[0], (list, tuple)):
        xs = xs[0]
    out = _flatten('and', xs, True, False)
    if out is None:
        return False
    if not out:
        return True
    if len(out) == 1:
        return out[0]
    return _mk('and', tuple(out), BOOL)


def Or(*xs):
    if len(xs) == 1 and isinstance(xs[0], (list, tuple)):
        xs = xs[0]
    out = _flatten('or', xs, False, True)
    if out is None:
        return True
    if not out:
        return False
    if len(out) == 1:
        return out[0]
    return _mk('or', tuple(out), BOOL)


def Implies(a, b):
    return Or(Not(a), b)


def If(c, a, b):
    if not isinstance(c, Term):
        return a if c else b
    a, b = _norm_const(a), _norm_const(b)
    if a is b or (not isinstance(a, Term) and not isinstance(b, Term) and
                  type(a) == type(b) and a == b):
        return a
    sa, sb = _sort_of(a), _sort_of(b)
    if sa == BOOL and sb == BOOL:
        return Or(And(c, a), And(Not(c), b))
    s = _num_sort(a, b)
    alo, ahi = _bounds(a)
    blo, bhi = _bounds(b)
    lo = None if alo is None or blo is None else min(alo, blo)
    hi = None if ahi is None or bhi is None else max(ahi, bhi)
    return _mk('ite', (c, a, b), s, lo, hi)


def simplify(e):
    return e


def is_true(e):
    return e is True


def is_false(e):
    return e is False


def is_int_value(e):
    return isinstance(e, int) and not isinstance(e, bool)


def is_rational_value(e):
    return isinstance(e, Fraction)


# ------------------------------------------------------------ translation
def _zconst(x):
    if isinstance(x, bool):
        return _z3.BoolVal(x)
    if isinstance(x, int):
        return _z3.IntVal(x)
    if isinstance(x, Fraction):
        return _z3.Q(x.numerator, x.denominator)
    raise TypeError(x)


def to_z3(t):
    if not isinstance(t, Term):
        return _zconst(t)
    z = t._z
    if z is not None:
        return z
    # iterative post-order to avoid deep recursion on long chains
    stack = [t]
    while stack:
        x = stack[-1]
        if x._z is not None:
            stack.pop()
            continue
        pending = [a for a in x.args
                   if isinstance(a, Term) and a._z is None]
        if pending and x.op != 'var':
            stack.extend(pending)
            continue
        x._z = _build(x)
        stack.pop()
    return t._z


def _arg(a, want_real=False):
    if isinstance(a, Term):
        z = a._z
        if want_real and a.sort == INT:
            z = _z3.ToReal(z)
        return z
    if want_real and isinstance(a, int):
        return _z3.RealVal(a)
    return _zconst(a)


def _build(x):
    op = x.op
    if op == 'var':
        name, sort = x.args[0], x.args[1]
        if sort == INT:
            return _z3.Int(name)
        if sort == REAL:
            return _z3.Real(name)
        return _z3.Bool(name)
    a = x.args
    if op == 'bounds':
        v = a[0]
        cs = []
        if v.lo is not None:
            cs.append(v._z >= _zconst(v.lo))
        if v.hi is not None:
            cs.append(v._z <= _zconst(v.hi))
        return _z3.And(*cs) if len(cs) > 1 else cs[0]
    if op in ('add', 'sub', 'mul', 'eq', 'lt', 'le'):
        real = REAL in (_sort_of(a[0]), _sort_of(a[1]))
        p, q = _arg(a[0], real), _arg(a[1], real)
        if op == 'add':
            return p + q
        if op == 'sub':
            return p - q
        if op == 'mul':
            return p * q
        if op == 'eq':
            return p == q
        if op == 'lt':
            return p < q
        return p <= q
    if op == 'div':
        return _arg(a[0]) / _arg(a[1])
    if op == 'mod':
        return _arg(a[0]) % _arg(a[1])
    if op == 'iff':
        return _arg(a[0]) == _arg(a[1])
    if op == 'not':
        return _z3.Not(_arg(a[0]))
    if op == 'and':
        return _z3.And(*[_arg(p) for p in a])
    if op == 'or':
        return _z3.Or(*[_arg(p) for p in a])
    if op == 'ite':
        real = x.sort == REAL
        return _z3.If(_arg(a[0]), _arg(a[1], real), _arg(a[2], real))
    raise TypeError('unknown term op %r' % op)


def from_model(m, t):
    """Value of term/constant t under z3 model m, as a Python value."""
    if not isinstance(t, Term):
        return t
    v = m.eval(to_z3(t), model_completion=True)
    if _z3.is_int_value(v):
        return v.as_long()
    if _z3.is_rational_value(v):
        return Fraction(v.numerator_as_long(), v.denominator_as_long())
    if _z3.is_true(v):
        return True
    if _z3.is_false(v):
        return False
    if _z3.is_algebraic_value(v):
        raise ValueError('algebraic model value')
    raise ValueError('cannot evaluate %r' % (v,))
