"""Runtime entry points targeted by the AST rewriter + models of C-level code.

_sxrt_m(recv, name, args, kw)   method call  recv.name(*args, **kw)
_sxrt_call(f, args, kw)         call of a selected builtin / class by name
_sxrt_mod(a, b)                 a % b
_sxrt_in(a, b) / _sxrt_notin    a in b
_sxrt_fstr(parts)               f-string
_sxrt_enter(qualname)           function entry (evidence: functions encoded)
"""
import base64 as _base64
import collections as _collections
import binascii as _binascii
import builtins
import io as _io
import re as _re
import socket as _socket
import string as _string
import struct as _struct
import types

from . import zt as z3

from . import core, sregex
from .core import (SymBool, SymInt, SymReal, Unsupported, mkbool, mkint,
                   is_sym, Not)
from .sseq import (SBytes, SStr, _SSeq, mkbytes, mkstr, lift, is_sseq,
                   elems_of, utf8_decode)

ENTERED = set()
_PROXY = (SymBool, SymInt, SymReal, _SSeq)

_PYFUNC = (types.FunctionType, types.MethodType)


def isproxy(x):
    return isinstance(x, _PROXY) or getattr(x, '_sx_symbolic', False)


def _has_proxy(args, kw):
    for a in args:
        if isinstance(a, _PROXY):
            return True
        t = type(a)
        if t is tuple or t is list:
            for b in a:
                if isinstance(b, _PROXY):
                    return True
        elif t is dict:
            for b in a.values():
                if isinstance(b, _PROXY):
                    return True
        elif getattr(a, '_sx_symbolic', False):
            return True
    if kw:
        for a in kw.values():
            if isinstance(a, _PROXY):
                return True
    return False


def _sxrt_enter(name):
    ENTERED.add(name)


# ------------------------------------------------------------------ models
FUNC_MODELS = {}      # id(callable) -> model(*args, **kw)
METH_MODELS = {}      # (type, name) -> model(recv, *args, **kw)
CLASS_MODELS = {}     # class -> replacement callable (always used)
ALWAYS_FUNCS = {}     # id(callable) -> replacement even without proxies
_KEEP = []


def func_model(f, always=False):
    def deco(m):
        (ALWAYS_FUNCS if always else FUNC_MODELS)[id(f)] = m
        _KEEP.append(f)
        return m
    return deco


def _lifted_method(name):
    def m(recv, *a, **k):
        return getattr(lift(recv), name)(*a, **k)
    return m


for _t in (bytes, str, bytearray):
    for _n in ('join', 'startswith', 'endswith', 'find', 'rfind', 'index',
               'count', 'split', 'rsplit', 'partition', 'rpartition',
               'replace', 'strip', 'lstrip', 'rstrip', '__contains__',
               '__eq__', '__add__'):
        METH_MODELS[(_t, _n)] = _lifted_method(_n)


def _str_format(recv, *args, **kw):
    out = []
    auto = 0
    for lit, field, spec, conv in _string.Formatter().parse(recv):
        if lit:
            out.append(lit)
        if field is None:
            continue
        if field == '':
            field = str(auto)
            auto += 1
        # simple field names only (index or keyword, no attribute access)
        if field.isdigit():
            v = args[int(field)]
        elif field.isidentifier():
            v = kw[field]
        else:
            obj, _ = _string.Formatter().get_field(field, args, kw)
            v = obj
        if isinstance(v, _PROXY):
            if conv == 's' and isinstance(v, SStr):
                conv = None
            if spec or conv:
                raise Unsupported('format spec/conversion on symbolic value')
            if isinstance(v, SStr):
                out.append(v)
            elif isinstance(v, SymInt):
                out.append(str_of_int(v))
            else:
                raise Unsupported('format of %s' % type(v).__name__)
        else:
            if conv == 'r':
                v = repr(v)
            elif conv == 's':
                v = _sx_str(v)
                if isinstance(v, SStr):
                    out.append(v)
                    continue
            elif conv == 'a':
                v = ascii(v)
            out.append(format(v, spec))
    return SStr(()).join(out)


METH_MODELS[(str, 'format')] = _str_format


def str_of_int(v):
    """str(int) for a symbolic int: concretise (forks over feasible values)"""
    return str(int(v))


# -- re
@func_model(_re.compile, always=True)
def _m_compile(pattern, flags=0):
    return sregex.compile_(pattern, flags)


for _n in ('match', 'search', 'fullmatch', 'sub', 'subn', 'split', 'findall',
           'finditer'):
    ALWAYS_FUNCS[id(getattr(_re, _n))] = getattr(sregex, _n)
    _KEEP.append(getattr(_re, _n))


# -- struct
def _unpack_model(fmt, data):
    e = elems_of(data)
    if fmt[:1] not in ('!', '>'):
        raise Unsupported('struct format %r' % fmt)
    need = _struct.calcsize(fmt)
    if len(e) != need:
        raise _struct.error('unpack requires a buffer of %d bytes' % need)
    out = []
    pos = 0
    i = 1
    while i < len(fmt):
        cnt = ''
        while fmt[i].isdigit():
            cnt += fmt[i]
            i += 1
        c = fmt[i]
        i += 1
        k = int(cnt) if cnt else 1
        if c == 's':
            out.append(mkbytes(e[pos:pos + k]))
            pos += k
            continue
        size = {'B': 1, 'H': 2, 'I': 4, 'L': 4, 'Q': 8}.get(c)
        if size is None:
            raise Unsupported('struct code %r' % c)
        for _ in range(k):
            v = 0
            for b in e[pos:pos + size]:
                v = v * 256 + b
            out.append(mkint(z3.simplify(v)) if not isinstance(v, int) else v)
            pos += size
    return tuple(out)


FUNC_MODELS[id(_struct.unpack)] = _unpack_model
_KEEP.append(_struct.unpack)


# -- socket address conversion: see harness C18 for the models' contract
class OpaqueText(object):
    """Result of inet_ntop on symbolic packed bytes: an injective opaque
    function of the packed bytes (compared by its argument)."""
    _sx_symbolic = True

    def __init__(self, family, packed):
        self.family = family
        self.packed = packed

    def __eq__(self, o):
        if isinstance(o, OpaqueText):
            return self.family == o.family and (lift(self.packed) ==
                                                lift(o.packed))
        if isinstance(o, str):
            try:
                p = _socket.inet_pton(self.family, o)
            except (OSError, ValueError):
                return False
            # textual forms are not unique for IPv6; only canonical strings
            # produced by inet_ntop compare equal
            if _socket.inet_ntop(self.family, p) != o:
                return False
            return lift(self.packed) == p
        return False

    def __ne__(self, o):
        return Not(self.__eq__(o))

    def __hash__(self):
        raise Unsupported('hash of opaque address text')

    def __repr__(self):
        return '<inet_ntop %r>' % (self.packed,)


def _inet_ntop_model(family, packed):
    need = 4 if family == _socket.AF_INET else 16
    if len(packed) != need:
        raise ValueError('invalid length of packed IP address string')
    return OpaqueText(family, packed)


FUNC_MODELS[id(_socket.inet_ntop)] = _inet_ntop_model
_KEEP.append(_socket.inet_ntop)


def concretize_seq(s, max_symbolic=1):
    """Concrete bytes/str for a symbolic sequence by forking over every
    feasible value of its symbolic elements.  Elements the path condition
    pins to a single value are free; at most max_symbolic elements with
    several feasible values are accepted (each forks up to 256 ways)."""
    if not isinstance(s, _SSeq):
        return s
    ctx = core.current()
    vals = []
    nfree = 0
    if sum(1 for x in s._e if not isinstance(x, int)) <= max_symbolic:
        ctx = None          # few enough: no need to look for pinned elements
    for x in s._e:
        if isinstance(x, int):
            vals.append(x)
            continue
        e = z3.simplify(x)
        if not z3.is_term(e):
            vals.append(e)
            continue
        if ctx is not None and ctx.active:
            if not ctx._check():
                raise core.EngineError('path condition unsatisfiable')
            m = z3.from_model(ctx.solver.model(), e)
            if ctx._check(e != m):
                nfree += 1
                if nfree > max_symbolic:
                    raise Unsupported('concretising more than %d free '
                                      'symbolic elements' % max_symbolic)
        vals.append(int(mkint(x)))
    return bytes(vals) if s._is_bytes else ''.join(map(chr, vals))


def _inet_pton_model(family, text):
    """AF_INET: exact model of glibc inet_pton (strict dotted quad: four
    decimal octets 0..255, 1-3 digits, no leading zero except '0' itself);
    CPython raises ValueError for an embedded NUL.  AF_INET6: the text is
    concretised (at most one symbolic character) and the real function is
    called."""
    if not isinstance(text, SStr):
        return _socket.inet_pton(family, text)
    e = text._e

    def d(c):
        return c if isinstance(c, bool) else bool(mkbool(c))
    for c in e:
        if d(c == 0):
            raise ValueError('embedded null character')
    if family != _socket.AF_INET:
        return _socket.inet_pton(family, concretize_seq(text, 1))
    octets = []
    cur = None
    ndig = 0
    lead0 = False
    for c in e:
        if d(z3.And(c >= 48, c <= 57) if not isinstance(c, int)
             else 48 <= c <= 57):
            if cur is None:
                cur = c - 48
                ndig = 1
                lead0 = d(c == 48)
            else:
                if lead0 or ndig >= 3:
                    raise OSError('illegal IP address string passed to '
                                  'inet_pton')
                cur = cur * 10 + (c - 48)
                ndig += 1
                if d(cur > 255):
                    raise OSError('illegal IP address string passed to '
                                  'inet_pton')
        elif d(c == 46) and cur is not None and len(octets) < 3:
            octets.append(cur)
            cur = None
        else:
            raise OSError('illegal IP address string passed to inet_pton')
    if cur is None or len(octets) != 3:
        raise OSError('illegal IP address string passed to inet_pton')
    octets.append(cur)
    return mkbytes(octets)


FUNC_MODELS[id(_socket.inet_pton)] = _inet_pton_model
_KEEP.append(_socket.inet_pton)


def _dict_get(recv, key, default=None):
    if isinstance(key, _PROXY):
        for k in recv:
            if bool(k == key):
                return recv[k]
        return default
    return dict.get(recv, key, default)


METH_MODELS[(dict, 'get')] = _dict_get


def _dict_fromkeys(iterable, value=None):
    keys = list(iterable)
    if any(isinstance(k, _PROXY) for k in keys):
        d = SOrderedDict()
        for k in keys:
            d[k] = value
        return d
    return dict.fromkeys(keys, value)


METH_MODELS[(type, 'fromkeys')] = lambda recv, *a: \
    _dict_fromkeys(*a) if recv is dict else recv.fromkeys(*a)


# -- base64 / binascii over symbolic bytes
_B64 = b'ABCDEFGHIJKLMNOPQRSTUVWXYZabcdefghijklmnopqrstuvwxyz0123456789+/'


def _b64_char(v):
    """6-bit value (int or z3) -> base64 alphabet byte"""
    if isinstance(v, int):
        return _B64[v]
    return z3.If(v < 26, v + 65,
                 z3.If(v < 52, v + 71,
                       z3.If(v < 62, v - 4, z3.If(v == 62, 43, 47))))


def _b64encode_model(data, altchars=None):
    if altchars is not None:
        raise Unsupported('b64encode altchars')
    e = elems_of(data)
    out = []
    for i in range(0, len(e), 3):
        chunk = e[i:i + 3]
        n = len(chunk)
        b0 = chunk[0]
        b1 = chunk[1] if n > 1 else 0
        b2 = chunk[2] if n > 2 else 0

        def dv(x, d):
            return x // d if isinstance(x, int) else x / d

        def md(x, d):
            return x % d
        out.append(_b64_char(dv(b0, 4)))
        out.append(_b64_char(md(b0, 4) * 16 + dv(b1, 16)))
        out.append(_b64_char(md(b1, 16) * 4 + dv(b2, 64)) if n > 1 else 61)
        out.append(_b64_char(md(b2, 64)) if n > 2 else 61)
    res = mkbytes([z3.simplify(x) if not isinstance(x, int) else x
                   for x in out])
    if isinstance(res, SBytes):
        # b64decode(b64encode(x)) == x: remembered so that decoding exactly
        # these elements again is free (terms are interned: identity == equal)
        B64_MEMO[_elem_key(res._e)] = data
    return res


B64_MEMO = {}


def _elem_key(elems):
    return tuple(x if isinstance(x, int) else ('t', id(x)) for x in elems)


FUNC_MODELS[id(_base64.b64encode)] = _b64encode_model
_KEEP.append(_base64.b64encode)


def _b64_val(c):
    """byte -> (6-bit value, validity condition)"""
    if isinstance(c, int):
        i = _B64.find(bytes([c]))
        return i, i >= 0
    v = z3.If(z3.And(c >= 65, c <= 90), c - 65,
              z3.If(z3.And(c >= 97, c <= 122), c - 71,
                    z3.If(z3.And(c >= 48, c <= 57), c + 4,
                          z3.If(c == 43, 62, 63))))
    ok = z3.Or(z3.And(c >= 65, c <= 90), z3.And(c >= 97, c <= 122),
               z3.And(c >= 48, c <= 57), c == 43, c == 47)
    return v, ok


def _b64decode_model(data, altchars=None, validate=False):
    """base64.b64decode over symbolic bytes: the exact algorithm of CPython's
    binascii.a2b_base64 in non-strict mode (non-alphabet bytes are skipped, a
    completed pad sequence stops the scan, '=' before the third character of
    a quad is ignored); membership tests fork per element."""
    if altchars is not None:
        raise Unsupported('b64decode altchars')
    if isinstance(data, _SSeq):
        src = B64_MEMO.get(_elem_key(data._e))
        if src is not None:
            return src
    if validate:
        return _b64decode_strict(data)
    if isinstance(data, (str, SStr)):
        e = elems_of(data)
        for x in e:
            if not isinstance(x, int) and bool(mkbool(x >= 128)):
                raise ValueError('string argument should contain only ASCII '
                                 'characters')
    else:
        e = elems_of(data)

    def d(c):
        return c if isinstance(c, bool) else bool(mkbool(c))
    out = []
    quad_pos = 0
    pads = 0
    left = 0
    done = False
    for c in e:
        if d(c == 61):
            if quad_pos >= 2:
                pads += 1
                if quad_pos + pads >= 4:
                    done = True
                    break
            continue
        v, ok = _b64_val(c)
        if not d(ok):
            continue
        pads = 0
        if quad_pos == 0:
            quad_pos = 1
            left = v
        elif quad_pos == 1:
            quad_pos = 2
            out.append(left * 4 + _dv(v, 16))
            left = v % 16
        elif quad_pos == 2:
            quad_pos = 3
            out.append(left * 16 + _dv(v, 4))
            left = v % 4
        else:
            quad_pos = 0
            out.append(left * 64 + v)
            left = 0
    if not done and quad_pos != 0:
        if quad_pos == 1:
            raise _binascii.Error('Invalid base64-encoded string: number of '
                                  'data characters cannot be 1 more than a '
                                  'multiple of 4')
        raise _binascii.Error('Incorrect padding')
    return mkbytes([z3.simplify(x) if not isinstance(x, int) else x
                    for x in out])


def _b64decode_strict(data):
    """binascii.a2b_base64(strict_mode=True) of CPython 3.12: only alphabet
    characters, no leading or discontinuous padding, nothing behind the
    padding (validated against the real function by the self-test)."""
    e = elems_of(data)
    if isinstance(data, (str, SStr)):
        for x in e:
            if not isinstance(x, int) and bool(mkbool(x >= 128)):
                raise ValueError('string argument should contain only ASCII '
                                 'characters')

    def d(c):
        return c if isinstance(c, bool) else bool(mkbool(c))
    n = len(e)
    if n and d(e[0] == 61):
        raise _binascii.Error('Leading padding not allowed')
    out = []
    quad_pos = 0
    pads = 0
    left = 0
    done = False
    padding_started = False
    for i, c in enumerate(e):
        if d(c == 61):
            padding_started = True
            if quad_pos >= 2:
                pads += 1
                if quad_pos + pads >= 4:
                    if i + 1 < n:
                        raise _binascii.Error('Excess data after padding')
                    done = True
                    break
            continue
        v, ok = _b64_val(c)
        if not d(ok):
            raise _binascii.Error('Only base64 data is allowed')
        if padding_started:
            raise _binascii.Error('Discontinuous padding not allowed')
        pads = 0
        if quad_pos == 0:
            quad_pos = 1
            left = v
        elif quad_pos == 1:
            quad_pos = 2
            out.append(left * 4 + _dv(v, 16))
            left = v % 16
        elif quad_pos == 2:
            quad_pos = 3
            out.append(left * 16 + _dv(v, 4))
            left = v % 4
        else:
            quad_pos = 0
            out.append(left * 64 + v)
            left = 0
    if not done and quad_pos != 0:
        if quad_pos == 1:
            raise _binascii.Error('Invalid base64-encoded string: number of '
                                  'data characters cannot be 1 more than a '
                                  'multiple of 4')
        raise _binascii.Error('Incorrect padding')
    return mkbytes([z3.simplify(x) if not isinstance(x, int) else x
                    for x in out])


def _dv(x, d):
    return x // d if isinstance(x, int) else x / d


FUNC_MODELS[id(_base64.b64decode)] = _b64decode_model
_KEEP.append(_base64.b64decode)


def _translate2(data, a, a2, b, b2):
    out = []
    for c in elems_of(data):
        if isinstance(c, int):
            out.append(a2 if c == a else (b2 if c == b else c))
        else:
            out.append(z3.If(c == a, a2, z3.If(c == b, b2, c)))
    return mkbytes(out)


def _urlsafe_b64encode_model(data):
    return _translate2(_b64encode_model(data), 43, 45, 47, 95)


def _urlsafe_b64decode_model(data):
    if isinstance(data, (str, SStr)):
        data = data.encode('ascii')
    return _b64decode_model(_translate2(data, 45, 43, 95, 47))


FUNC_MODELS[id(_base64.urlsafe_b64encode)] = _urlsafe_b64encode_model
FUNC_MODELS[id(_base64.urlsafe_b64decode)] = _urlsafe_b64decode_model
FUNC_MODELS[id(_base64.standard_b64encode)] = _b64encode_model
FUNC_MODELS[id(_base64.standard_b64decode)] = _b64decode_model
_KEEP.extend([_base64.urlsafe_b64encode, _base64.urlsafe_b64decode,
              _base64.standard_b64encode, _base64.standard_b64decode])


def _hexlify_model(data, *a):
    if a:
        raise Unsupported('hexlify sep')
    out = []
    for x in elems_of(data):
        for nib in ((x // 16, x % 16) if isinstance(x, int) else
                    (x / 16, x % 16)):
            if isinstance(nib, int):
                out.append(b'0123456789abcdef'[nib])
            else:
                out.append(z3.simplify(z3.If(nib < 10, nib + 48, nib + 87)))
    return mkbytes(out)


FUNC_MODELS[id(_binascii.hexlify)] = _hexlify_model
_KEEP.append(_binascii.hexlify)


# -- BytesIO / bytearray / memoryview models (always substituted so that
#    symbolic data can be written into them later)
class SBytesIO(_io.BytesIO):
    """io.BytesIO that also accepts symbolic bytes (append-only use); purely
    concrete use stays a real BytesIO (so the stdlib can wrap it)."""

    def __init__(self, initial=b''):
        if isinstance(initial, SBytes):
            _io.BytesIO.__init__(self)
            self._sx = [initial]
        else:
            _io.BytesIO.__init__(self, initial)
            self._sx = None
        self._sxpos = 0

    def write(self, data):
        if self._sx is None:
            if not isinstance(data, SBytes):
                if isinstance(data, (SByteArray, SMemoryView)):
                    data = mkbytes(data._sx_elems())
                    if not isinstance(data, SBytes):
                        return _io.BytesIO.write(self, data)
                else:
                    return _io.BytesIO.write(self, data)
            self._sx = [_io.BytesIO.getvalue(self)]
        if not isinstance(data, (bytes, bytearray, SBytes, memoryview)):
            raise TypeError("a bytes-like object is required, not '%s'" %
                            type(data).__name__)
        if len(data):
            self._sx.append(bytes(data) if isinstance(
                data, (bytearray, memoryview)) else data)
        return len(data)

    def getvalue(self):
        if self._sx is None:
            return _io.BytesIO.getvalue(self)
        if len(self._sx) > 1:
            self._sx = [SBytes(()).join(self._sx)]
        return self._sx[0] if self._sx else b''

    def read(self, n=-1):
        if self._sx is None:
            return _io.BytesIO.read(self, n)
        v = self.getvalue()
        if n is None or n < 0:
            r = v[self._sxpos:]
        else:
            r = v[self._sxpos:self._sxpos + n]
        self._sxpos += len(r)
        return r

    # readers the C code of the stdlib uses (TextIOWrapper, BytesParser,
    # pickle ...): the content is made concrete first, by forking over every
    # feasible value of at most 2 symbolic bytes (Unsupported beyond that)
    def _sx_materialize(self):
        if self._sx is None:
            return
        v = concretize_seq(self.getvalue(), 2)
        self._sx = None
        _io.BytesIO.seek(self, 0)
        _io.BytesIO.truncate(self)
        _io.BytesIO.write(self, v)
        _io.BytesIO.seek(self, self._sxpos)

    def read1(self, *a):
        self._sx_materialize()
        return _io.BytesIO.read1(self, *a)

    def readinto(self, b):
        self._sx_materialize()
        return _io.BytesIO.readinto(self, b)

    def readline(self, *a):
        self._sx_materialize()
        return _io.BytesIO.readline(self, *a)

    def readlines(self, *a):
        self._sx_materialize()
        return _io.BytesIO.readlines(self, *a)

    def __iter__(self):
        self._sx_materialize()
        return _io.BytesIO.__iter__(self)

    def __next__(self):
        self._sx_materialize()
        return _io.BytesIO.__next__(self)

    def getbuffer(self):
        self._sx_materialize()
        return _io.BytesIO.getbuffer(self)


class SByteArray(object):
    """bytearray of fixed concrete length with possibly symbolic elements."""
    _sx_symbolic = True

    def __init__(self, arg=0):
        if isinstance(arg, SymInt):
            arg = int(arg)            # forks over every feasible length
        if isinstance(arg, int):
            if arg < 0:
                raise ValueError('negative count')
            self._e = [0] * arg
        else:
            self._e = list(elems_of(arg))

    def _sx_elems(self):
        return tuple(self._e)

    def __len__(self):
        return len(self._e)

    def __getitem__(self, i):
        if isinstance(i, slice):
            return mkbytes(self._e[i])
        return mkint(self._e[i])

    def __setitem__(self, i, v):
        if isinstance(i, slice):
            new = list(elems_of(v))
            idx = range(*i.indices(len(self._e)))
            if len(idx) != len(new):
                # bytearray slice assignment may resize; memoryview may not
                self._e[i] = new
            else:
                for j, x in zip(idx, new):
                    self._e[j] = x
        else:
            self._e[i] = v.e if isinstance(v, SymInt) else v

    def __eq__(self, o):
        return lift(mkbytes(self._e)) == o

    def __ne__(self, o):
        return Not(self.__eq__(o))

    def __hash__(self):
        raise Unsupported('hash of bytearray')

    def __bytes__(self):
        raise Unsupported('bytes() of symbolic bytearray reached C code')

    def __iter__(self):
        for x in self._e:
            yield mkint(x)

    def extend(self, data):
        self._e.extend(elems_of(data))

    def append(self, v):
        self._e.append(v.e if isinstance(v, SymInt) else v)

    def __iadd__(self, data):
        self._e.extend(elems_of(data))
        return self

    def decode(self, *a, **k):
        return lift(mkbytes(self._e)).decode(*a, **k) \
            if isinstance(mkbytes(self._e), SBytes) \
            else mkbytes(self._e).decode(*a, **k)

    def startswith(self, p):
        return lift(mkbytes(self._e)).startswith(p)

    def endswith(self, p):
        return lift(mkbytes(self._e)).endswith(p)


class SMemoryView(object):
    """memoryview over an SByteArray (or bytes): slicing shares storage."""
    _sx_symbolic = True

    def __init__(self, obj, start=0, stop=None):
        if isinstance(obj, SMemoryView):
            self._base, start0 = obj._base, obj._start
            self._start = start0 + start
            self._stop = start0 + (stop if stop is not None else len(obj))
            return
        if not isinstance(obj, SByteArray):
            obj = SByteArray(obj)
        self._base = obj
        self._start = start
        self._stop = len(obj) if stop is None else stop

    def _sx_elems(self):
        return tuple(self._base._e[self._start:self._stop])

    def __len__(self):
        return self._stop - self._start

    def __getitem__(self, i):
        n = len(self)
        if isinstance(i, slice):
            a, b, st = i.indices(n)
            if st != 1:
                raise Unsupported('memoryview step slicing')
            return SMemoryView(self, a, max(a, b))
        if i < 0:
            i += n
        if not 0 <= i < n:
            raise IndexError('index out of bounds on dimension 1')
        return mkint(self._base._e[self._start + i])

    def __setitem__(self, i, v):
        n = len(self)
        if isinstance(i, slice):
            a, b, st = i.indices(n)
            new = list(elems_of(v))
            if st != 1 or len(new) != max(0, b - a):
                raise ValueError('memoryview assignment: lvalue and rvalue '
                                 'have different structures')
            for j, x in enumerate(new):
                self._base._e[self._start + a + j] = x
        else:
            if i < 0:
                i += n
            if not 0 <= i < n:
                raise IndexError('index out of bounds on dimension 1')
            self._base._e[self._start + i] = v.e if isinstance(v, SymInt) \
                else v

    def tobytes(self):
        return mkbytes(self._sx_elems())

    def __eq__(self, o):
        return lift(self.tobytes()) == o

    def __ne__(self, o):
        return Not(self.__eq__(o))

    def __hash__(self):
        raise Unsupported('hash of memoryview')

    def __bytes__(self):
        raise Unsupported('bytes() of symbolic memoryview reached C code')

    def release(self):
        pass

    def __enter__(self):
        return self

    def __exit__(self, *a):
        pass


class SOrderedDict(object):
    """insertion-ordered mapping whose keys may be symbolic strings: lookup
    compares the key with every stored key (solver-decided forks)"""
    _sx_symbolic = False

    def __init__(self, *a, **k):
        self._k = []
        self._v = []
        if a or k:
            for key, val in dict(*a, **k).items():
                self[key] = val

    def _find(self, key):
        for i, k in enumerate(self._k):
            if bool(k == key):
                return i
        return -1

    def __getitem__(self, key):
        i = self._find(key)
        if i < 0:
            raise KeyError(key)
        return self._v[i]

    def __setitem__(self, key, val):
        i = self._find(key)
        if i < 0:
            self._k.append(key)
            self._v.append(val)
        else:
            self._v[i] = val

    def __delitem__(self, key):
        i = self._find(key)
        if i < 0:
            raise KeyError(key)
        del self._k[i]
        del self._v[i]

    def __contains__(self, key):
        return self._find(key) >= 0

    def __len__(self):
        return len(self._k)

    def __iter__(self):
        return iter(list(self._k))

    def keys(self):
        return list(self._k)

    def values(self):
        return list(self._v)

    def items(self):
        return list(zip(self._k, self._v))

    def get(self, key, default=None):
        i = self._find(key)
        return default if i < 0 else self._v[i]

    def setdefault(self, key, default=None):
        i = self._find(key)
        if i < 0:
            self._k.append(key)
            self._v.append(default)
            return default
        return self._v[i]

    def pop(self, key, *d):
        i = self._find(key)
        if i < 0:
            if d:
                return d[0]
            raise KeyError(key)
        v = self._v[i]
        del self._k[i]
        del self._v[i]
        return v


CLASS_MODELS[_collections.OrderedDict] = SOrderedDict
CLASS_MODELS[_io.BytesIO] = SBytesIO
CLASS_MODELS[bytearray] = SByteArray
CLASS_MODELS[memoryview] = SMemoryView

_TYPE_ALIASES = {
    bytes: (SBytes,),
    str: (SStr,),
    int: (SymInt,),
    float: (SymReal,),
    bool: (SymBool,),
    bytearray: (SByteArray,),
    memoryview: (SMemoryView,),
    _io.BytesIO: (SBytesIO,),
}


def _sx_isinstance(obj, spec):
    if builtins.isinstance(obj, spec):
        return True
    if not (isinstance(obj, _PROXY) or
            type(obj) in (SByteArray, SMemoryView, SBytesIO)):
        return False
    if not isinstance(spec, tuple):
        spec = (spec,)
    for s in spec:
        if isinstance(s, tuple):
            if _sx_isinstance(obj, s):
                return True
            continue
        al = _TYPE_ALIASES.get(s)
        if al and builtins.isinstance(obj, al):
            return True
    return False


def _sx_int(x=0, base=None):
    if isinstance(x, SymInt):
        return x
    if isinstance(x, SymBool):
        return core.Ite(x, 1, 0)
    if isinstance(x, _SSeq):
        if base not in (None, 10):
            raise Unsupported('int(symbolic, base)')
        return int_of_seq(x)
    if isinstance(x, SymReal):
        raise Unsupported('int() of SymReal')
    if base is None:
        return int(x)
    return int(x, base)


INT_PARSE_MAXLEN = 12


def int_of_seq(s):
    """int(bytes/str) for a symbolic sequence.

    Exact for ASCII decimal digits (forking per element on digit / not);
    the lenient forms CPython accepts (surrounding white space, sign,
    underscores between digits, non-ASCII decimal digits in str) are decided
    too: white space is stripped exactly, a leading sign is honoured, and an
    underscore between two digits is skipped.  Non-ASCII digits in a str
    abort the path as Unsupported."""
    e = s.strip()._e if is_sseq(s.strip()) else elems_of(s.strip())
    if len(e) > INT_PARSE_MAXLEN + 1:
        raise Unsupported('int() of a long symbolic string')

    def d(c):
        return c if isinstance(c, bool) else bool(mkbool(c))

    def bad():
        raise ValueError('invalid literal for int() with base 10')
    i = 0
    neg = False
    if not e:
        bad()
    c0 = e[0]
    if d(c0 == 45):
        neg = True
        i = 1
    elif d(c0 == 43):
        i = 1
    if i >= len(e):
        bad()
    val = 0
    prev_digit = False
    while i < len(e):
        c = e[i]
        isdig = d((48 <= c <= 57) if isinstance(c, int) else
                  z3.And(c >= 48, c <= 57))
        if isdig:
            val = val * 10 + (c - 48)
            prev_digit = True
        elif d(c == 95) and prev_digit and i + 1 < len(e):
            prev_digit = False
        else:
            if not s._is_bytes and not isinstance(c, int) and d(c >= 128):
                raise Unsupported('int() of possibly non-ASCII digits')
            bad()
        i += 1
    if not prev_digit:
        bad()
    if neg:
        val = -val
    return mkint(z3.simplify(val)) if not isinstance(val, int) else val


def _sx_str(*a, **k):
    if a and isinstance(a[0], _PROXY):
        x = a[0]
        if isinstance(x, SStr):
            return x
        if isinstance(x, SBytes):
            if len(a) > 1 or k:
                return x.decode(*a[1:], **k)
            raise Unsupported('str(bytes) repr of symbolic bytes')
        if isinstance(x, SymInt):
            return str_of_int(x)
        raise Unsupported('str() of %s' % type(x).__name__)
    if len(a) == 1 and not k:
        x = a[0]
        if isinstance(x, BaseException) and len(x.args) == 1 and \
                isinstance(x.args[0], SStr) and \
                type(x).__str__ in (BaseException.__str__,
                                    Exception.__str__):
            return x.args[0]
        f = getattr(type(x), '__str__', None)
        if isinstance(f, types.FunctionType):
            r = f(x)
            if isinstance(r, (str, SStr)):
                return r
    return str(*a, **k)


def _sx_bytes(*a, **k):
    if a and (isinstance(a[0], _PROXY) or
              isinstance(a[0], (SByteArray, SMemoryView))):
        x = a[0]
        if isinstance(x, SBytes):
            return x
        if isinstance(x, SStr):
            return x.encode(*a[1:], **k)
        if isinstance(x, (SByteArray, SMemoryView)):
            return mkbytes(x._sx_elems())
        raise Unsupported('bytes() of %s' % type(x).__name__)
    if a and isinstance(a[0], (list, tuple)) and _has_proxy((a[0],), None):
        return mkbytes([v.e if isinstance(v, SymInt) else v for v in a[0]])
    return bytes(*a, **k)


def _sx_bool(x=False):
    return bool(x)


def _sx_repr(x):
    if isinstance(x, _PROXY):
        raise Unsupported('repr() of a symbolic value')
    return repr(x)


def _sx_float(x=0.0):
    if isinstance(x, SymReal):
        return x
    if isinstance(x, _PROXY):
        raise Unsupported('float() of a symbolic value')
    return float(x)


def _sx_len(x):
    return len(x)


def _sx_sorted(it, key=None, reverse=False):
    return sorted(it, key=key, reverse=reverse)


def _sx_type(*a):
    return type(*a)


def _sx_hash(x):
    return hash(x)


def _resolve_attr_name(obj, name):
    """concrete attribute name equal to the symbolic `name`, or None: the
    name is compared with every attribute of the object (forks)"""
    if not isinstance(name, SStr):
        return name
    n = len(name)
    for cand in sorted(set(dir(obj))):
        if len(cand) == n and bool(name == cand):
            return cand
    return None


def _sx_hasattr(obj, name):
    if isinstance(name, SStr):
        c = _resolve_attr_name(obj, name)
        return c is not None and hasattr(obj, c)
    return hasattr(obj, name)


_NODEFAULT = object()


def _sx_getattr(obj, name, default=_NODEFAULT):
    if isinstance(name, SStr):
        c = _resolve_attr_name(obj, name)
        if c is None:
            if default is _NODEFAULT:
                raise AttributeError('symbolic attribute name matches no '
                                     'attribute')
            return default
        name = c
    if default is _NODEFAULT:
        return getattr(obj, name)
    return getattr(obj, name, default)


BUILTIN_SUBST = {
    'isinstance': _sx_isinstance,
    'int': _sx_int,
    'str': _sx_str,
    'bytes': _sx_bytes,
    'repr': _sx_repr,
    'float': _sx_float,
}

REWRITE_CALL_NAMES = frozenset(['isinstance', 'int', 'str', 'bytes', 'repr',
                                'float', 'bytearray', 'memoryview',
                                'BytesIO', 'OrderedDict', 'hasattr',
                                'getattr'])


def _sxrt_call(f, args, kw):
    if f is builtins.isinstance:
        return _sx_isinstance(*args)
    if f is int:
        return _sx_int(*args, **kw)
    if f is str:
        return _sx_str(*args, **kw)
    if f is bytes:
        return _sx_bytes(*args, **kw)
    if f is repr:
        return _sx_repr(*args)
    if f is float:
        return _sx_float(*args)
    if f is hasattr:
        return _sx_hasattr(*args)
    if f is getattr:
        return _sx_getattr(*args)
    m = CLASS_MODELS.get(f)
    if m is not None:
        return m(*args, **kw)
    return f(*args, **kw)


_NOKW = {}


PYMETH_MODELS = {}     # id(python function) -> model(self, *args, **kw)


def _wsgiref_add_header(self, _name, _value, **_params):
    """wsgiref.headers.Headers.add_header with symbolic strings (the
    original asserts `type(v) is str`)"""
    parts = []
    if _value is not None:
        parts.append(_value)
    for k, v in _params.items():
        k = k.replace('_', '-')
        if v is None:
            parts.append(k)
        else:
            if len(v) > 0:
                v = lift(v).replace('\\', '\\\\').replace('"', '\\"') \
                    if isinstance(v, _SSeq) else \
                    v.replace('\\', '\\\\').replace('"', '\\"')
                parts.append(SStr(()).join([k, '="', v, '"']))
            else:
                parts.append(k + '=""' if False else k)
    self._headers.append((_name, SStr(()).join(
        [p for i, q in enumerate(parts)
         for p in ((['; '] if i else []) + [q])])))


try:
    import wsgiref.headers as _wh
    PYMETH_MODELS[id(_wh.Headers.add_header)] = _wsgiref_add_header
    _KEEP.append(_wh.Headers.add_header)
except ImportError:
    pass


def wrap_global(f):
    """wrapper for a C function imported by name into an instrumented module
    (`from base64 import b64encode`): model when an argument is symbolic"""
    fid = id(f)
    always = ALWAYS_FUNCS.get(fid)
    if always is not None:
        return always
    model = FUNC_MODELS.get(fid)
    if model is None:
        return f

    def wrapper(*args, **kw):
        if _has_proxy(args, kw):
            return model(*args, **kw)
        return f(*args, **kw)
    wrapper.__name__ = getattr(f, '__name__', 'wrapped')
    wrapper._sx_wraps = f
    return wrapper


def _sxrt_m(recv, name, args, kw):
    if kw is None:
        kw = _NOKW
    f = getattr(recv, name)
    tf = type(f)
    if tf is types.MethodType:
        if PYMETH_MODELS:
            m = PYMETH_MODELS.get(id(f.__func__))
            if m is not None and _has_proxy(args, kw):
                return m(f.__self__, *args, **kw)
        return f(*args, **kw)
    fid = id(f)
    if tf is types.FunctionType:
        m = ALWAYS_FUNCS.get(fid)
        if m is not None:
            return m(*args, **kw)
        m = FUNC_MODELS.get(fid)
        if m is not None and _has_proxy(args, kw):
            return m(*args, **kw)
        return f(*args, **kw)
    m = ALWAYS_FUNCS.get(fid)
    if m is not None:
        return m(*args, **kw)
    if tf is type:
        m = CLASS_MODELS.get(f)
        if m is not None:
            return m(*args, **kw)
        return f(*args, **kw)
    rp = isinstance(recv, _PROXY)
    if rp or _has_proxy(args, kw):
        m = FUNC_MODELS.get(fid)
        if m is not None:
            return m(*args, **kw)
        if rp:
            return f(*args, **kw)
        m = METH_MODELS.get((type(recv), name))
        if m is not None:
            return m(recv, *args, **kw)
        if tf in _CFUNC_TYPES:
            if fid in _TRANSPARENT_FUNCS:
                return f(*args, **kw)
            slf = getattr(f, '__self__', None)
            if type(slf) in _TRANSPARENT or (tf is not
                                              types.BuiltinFunctionType and
                                              type(recv) in _TRANSPARENT):
                return f(*args, **kw)
            raise Unsupported('symbolic value passed to C-level %s.%s' %
                              (type(recv).__name__, name))
        return f(*args, **kw)
    return f(*args, **kw)


_CFUNC_TYPES = (types.BuiltinFunctionType, types.BuiltinMethodType,
                types.MethodDescriptorType, types.WrapperDescriptorType,
                types.MethodWrapperType, types.ClassMethodDescriptorType)

# containers whose C methods only store / move references
_TRANSPARENT = frozenset([list, dict, tuple, set, frozenset,
                          _collections.deque, _collections.OrderedDict,
                          _collections.defaultdict])


import pickle as _pickle    # noqa: E402

# -- pickle: proxies travel through pickles as persistent ids (structural
#    box): loads(dumps(x)) == x with no sharing, bytes stay concrete
PICKLE_BOX = []


class _BoxPickler(_pickle.Pickler):
    def persistent_id(self, obj):
        if isinstance(obj, _PROXY):
            PICKLE_BOX.append(obj)
            return ('symx', len(PICKLE_BOX) - 1)
        return None


class _BoxUnpickler(_pickle.Unpickler):
    def persistent_load(self, pid):
        if isinstance(pid, tuple) and pid and pid[0] == 'symx':
            return PICKLE_BOX[pid[1]]
        raise _pickle.UnpicklingError('unsupported persistent id')


def _pickle_dumps(obj, protocol=None, **kw):
    f = _io.BytesIO()
    _BoxPickler(f, protocol, **kw).dump(obj)
    return f.getvalue()


def _pickle_loads(data, **kw):
    if isinstance(data, (SByteArray, SMemoryView)):
        data = mkbytes(data._sx_elems())
    if isinstance(data, SBytes):
        raise Unsupported('unpickling symbolic bytes')
    return _BoxUnpickler(_io.BytesIO(data), **kw).load()


ALWAYS_FUNCS[id(_pickle.dumps)] = _pickle_dumps
ALWAYS_FUNCS[id(_pickle.loads)] = _pickle_loads
_KEEP.extend([_pickle.dumps, _pickle.loads])

import bisect as _bisect    # noqa: E402
import heapq as _heapq      # noqa: E402
import operator as _operator  # noqa: E402
# C functions that only compare / move their arguments through the normal
# special-method protocol (comparisons fork through SymBool.__bool__)
_TRANSPARENT_FUNCS = set()
for _f in (_bisect.insort, _bisect.insort_left, _bisect.insort_right,
           _bisect.bisect, _bisect.bisect_left, _bisect.bisect_right,
           _heapq.heappush, _heapq.heappop, _heapq.heapify, _operator.eq,
           _operator.ne, _operator.lt, _operator.le, _operator.gt,
           _operator.ge, _operator.add, _operator.sub, _operator.itemgetter,
           max, min, sorted, zip, enumerate, len, iter, next, id, print,
           getattr, setattr, hasattr, callable, any, all, map, filter, list,
           tuple, dict, reversed):
    _TRANSPARENT_FUNCS.add(id(_f))
    _KEEP.append(_f)


def _sxrt_mod(a, b):
    if isinstance(a, (str, bytes)) and not isinstance(a, _PROXY):
        if _has_proxy((b,), None) or isinstance(b, _PROXY):
            return _percent_format(a, b)
    return a % b


def _percent_format(fmt, args):
    if not isinstance(args, tuple):
        args = (args,)
    isb = isinstance(fmt, bytes)
    out = []
    i = 0
    k = 0
    pct = b'%' if isb else '%'
    while True:
        j = fmt.find(pct, i)
        if j < 0:
            out.append(fmt[i:])
            break
        out.append(fmt[i:j])
        c = fmt[j + 1:j + 2]
        if c == pct:
            out.append(pct)
        elif c in (b's', 's', b'd', 'd'):
            v = args[k]
            k += 1
            if isinstance(v, _SSeq):
                out.append(v)
            elif isinstance(v, SymInt):
                sv = str_of_int(v)
                out.append(sv.encode() if isb else sv)
            elif isb:
                out.append(b'%' + c % (v,))
            else:
                out.append('%' + c % (v,))
        else:
            raise Unsupported('%%-format code %r with symbolic args' % c)
        i = j + 2
    return (SBytes(()) if isb else SStr(())).join(out)


def _sxrt_in(a, b):
    if isinstance(b, (bytes, str, bytearray)) and isinstance(a, _PROXY):
        return lift(b).__contains__(a)
    if isinstance(a, _PROXY) and isinstance(b, (dict, set, frozenset)):
        # membership of a symbolic key: compare against each concrete key
        for k in b:
            if bool(k == a):
                return True
        return False
    return a in b


def _sxrt_notin(a, b):
    return not _sxrt_in(a, b)


def _sxrt_fstr(parts):
    return SStr(()).join([p if isinstance(p, (str, SStr)) else _sx_str(p)
                          for p in parts])
