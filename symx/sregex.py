"""Backtracking regex matcher (CPython priorities) over symbolic elements.

The pattern source of the *real* compiled pattern object is parsed with
CPython's own re._parser; the matcher is written in continuation-passing style
so that greedy / lazy / alternation priorities are exactly CPython's.  Every
character test on a symbolic element is a solver-decided fork.
"""
import re
import re._parser as sre_parse
import re._constants as sc
import sys

from . import zt as z3

from .core import Unsupported, mkbool, SymInt
from .sseq import (SBytes, SStr, _SSeq, mkbytes, mkstr, elems_of, is_sseq,
                   _WS_BYTES)

sys.setrecursionlimit(max(sys.getrecursionlimit(), 20000))

MAX_CP = 0x10FFFF      # harnesses may lower it; api.sstr enforces hi <= MAX_CP

_REAL_COMPILE = re.compile
_PATTERN_TYPE = type(re.compile(''))

_unicode_sets = {}


def _unicode_ranges(kind):
    """code point ranges of \\s, \\d, \\w for str patterns, from the real re"""
    r = _unicode_sets.get(kind)
    if r is None:
        pat = _REAL_COMPILE({'s': r'\s', 'd': r'\d', 'w': r'\w'}[kind])
        r = []
        start = None
        for cp in range(0x110000):
            if pat.match(chr(cp)):
                if start is None:
                    start = cp
            elif start is not None:
                r.append((start, cp - 1))
                start = None
        if start is not None:
            r.append((start, 0x10FFFF))
        _unicode_sets[kind] = r
    return r


def _dec(c):
    if isinstance(c, bool):
        return c
    return bool(mkbool(c))


def _rng(x, lo, hi):
    if isinstance(x, int):
        return lo <= x <= hi
    if lo == hi:
        return x == lo
    return z3.And(x >= lo, x <= hi)


def _or(cs):
    es = []
    for c in cs:
        if c is True:
            return True
        if c is False:
            continue
        es.append(c)
    if not es:
        return False
    return z3.Or(*es) if len(es) > 1 else es[0]


def _not(c):
    if isinstance(c, bool):
        return not c
    return z3.Not(c)


class _Matcher(object):
    def __init__(self, pat):
        self.is_bytes = isinstance(pat.pattern, bytes)
        self.flags = pat.flags
        if self.flags & (re.IGNORECASE | re.VERBOSE | re.LOCALE):
            raise Unsupported('regex flags %r' % pat.flags)
        src = pat.pattern
        self.parsed = sre_parse.parse(src, pat.flags & ~re.UNICODE
                                      if self.is_bytes else pat.flags)
        self.ops = list(self.parsed)
        self.minwidth = self.parsed.getwidth()[0]
        self._memo = {}
        self.multiline = bool(self.flags & re.MULTILINE)
        self.dotall = bool(self.flags & re.DOTALL)

    # ---- character classes
    def _cat(self, av, x):
        neg = False
        if av in (sc.CATEGORY_NOT_SPACE, sc.CATEGORY_NOT_DIGIT,
                  sc.CATEGORY_NOT_WORD):
            neg = True
            av = {sc.CATEGORY_NOT_SPACE: sc.CATEGORY_SPACE,
                  sc.CATEGORY_NOT_DIGIT: sc.CATEGORY_DIGIT,
                  sc.CATEGORY_NOT_WORD: sc.CATEGORY_WORD}[av]
        if self.is_bytes:
            if av is sc.CATEGORY_SPACE:
                c = _or([_rng(x, 9, 13), _rng(x, 32, 32)])
            elif av is sc.CATEGORY_DIGIT:
                c = _rng(x, 48, 57)
            elif av is sc.CATEGORY_WORD:
                c = _or([_rng(x, 48, 57), _rng(x, 65, 90), _rng(x, 97, 122),
                         _rng(x, 95, 95)])
            else:
                raise Unsupported('regex category %s' % av)
        else:
            kind = {sc.CATEGORY_SPACE: 's', sc.CATEGORY_DIGIT: 'd',
                    sc.CATEGORY_WORD: 'w'}.get(av)
            if kind is None:
                raise Unsupported('regex category %s' % av)
            if isinstance(x, int):
                c = any(lo <= x <= hi for lo, hi in _unicode_ranges(kind))
            else:
                c = _or([_rng(x, lo, min(hi, MAX_CP))
                         for lo, hi in _unicode_ranges(kind) if lo <= MAX_CP])
        return _not(c) if neg else c

    def _in(self, items, x):
        it = list(items)
        neg = False
        if it and it[0][0] is sc.NEGATE:
            neg = True
            it = it[1:]
        cs = []
        for op, av in it:
            if op is sc.LITERAL:
                cs.append(_rng(x, av, av))
            elif op is sc.RANGE:
                cs.append(_rng(x, av[0], av[1]))
            elif op is sc.CATEGORY:
                cs.append(self._cat(av, x))
            else:
                raise Unsupported('regex set item %s' % op)
        c = _or(cs)
        return _not(c) if neg else c

    def _test1(self, op, av, x):
        """condition for a single-character op on element x (memoised per
        (pattern item, element): terms are interned, so ids are stable)"""
        if op is sc.IN or op is sc.CATEGORY:
            k = (id(av), x if isinstance(x, int) else -id(x) - 1)
            memo = self._memo
            r = memo.get(k)
            if r is None:
                r = memo[k] = (self._in(av, x),)
            return r[0]
        if op is sc.LITERAL:
            return _rng(x, av, av)
        if op is sc.NOT_LITERAL:
            return _not(_rng(x, av, av))
        if op is sc.ANY:
            return True if self.dotall else _not(_rng(x, 10, 10))
        return None

    def _is_word(self, x):
        return self._cat(sc.CATEGORY_WORD, x)

    # ---- matcher
    def run(self, s, pos, k_final, fullmatch=False):
        self.s = s
        self.n = len(s)

        def final(p, g):
            if fullmatch and p != self.n:
                return None
            return k_final(p, g)
        return self._m(self.ops, 0, pos, {}, final)

    def _m(self, ops, i, pos, groups, k):
        s = self.s
        n = self.n
        while True:
            if i == len(ops):
                return k(pos, groups)
            op, av = ops[i]
            if op in (sc.LITERAL, sc.NOT_LITERAL, sc.ANY, sc.IN):
                if pos < n and _dec(self._test1(op, av, s[pos])):
                    pos += 1
                    i += 1
                    continue
                return None
            if op is sc.AT:
                if self._at(av, pos):
                    i += 1
                    continue
                return None
            break

        def rest(p, g):
            return self._m(ops, i + 1, p, g, k)

        if op is sc.SUBPATTERN:
            gid, add_flags, del_flags, sub = av
            if add_flags or del_flags:
                raise Unsupported('inline regex flags')
            start = pos

            def after(p, g):
                if gid is not None:
                    g = dict(g)
                    g[gid] = (start, p)
                return rest(p, g)
            return self._m(list(sub), 0, pos, groups, after)
        if op is sc.BRANCH:
            for alt in av[1]:
                r = self._m(list(alt), 0, pos, groups, rest)
                if r is not None:
                    return r
            return None
        if op in (sc.MAX_REPEAT, sc.MIN_REPEAT):
            lo, hi, sub = av
            sub = list(sub)
            greedy = op is sc.MAX_REPEAT
            if len(sub) == 1 and sub[0][0] in (sc.LITERAL, sc.NOT_LITERAL,
                                              sc.ANY, sc.IN):
                sop, sav = sub[0]
                if greedy:
                    p = pos
                    c = 0
                    while c < hi and p < n and \
                            _dec(self._test1(sop, sav, s[p])):
                        p += 1
                        c += 1
                    while c >= lo:
                        r = rest(p, groups)
                        if r is not None:
                            return r
                        p -= 1
                        c -= 1
                    return None
                else:
                    p = pos
                    c = 0
                    while c < lo:
                        if p < n and _dec(self._test1(sop, sav, s[p])):
                            p += 1
                            c += 1
                        else:
                            return None
                    while True:
                        r = rest(p, groups)
                        if r is not None:
                            return r
                        if c < hi and p < n and \
                                _dec(self._test1(sop, sav, s[p])):
                            p += 1
                            c += 1
                        else:
                            return None

            def rep(count, p, g):
                def more():
                    if count < hi:
                        def again(p2, g2):
                            if p2 == p and count >= lo:
                                return None
                            return rep(count + 1, p2, g2)
                        return self._m(sub, 0, p, g, again)
                    return None

                def stop():
                    return rest(p, g) if count >= lo else None
                if greedy:
                    r = more()
                    return r if r is not None else stop()
                r = stop()
                return r if r is not None else more()
            return rep(0, pos, groups)
        if op is sc.GROUPREF:
            if av not in groups:
                return None
            a, b = groups[av]
            ln = b - a
            if pos + ln > n:
                return None
            for j in range(ln):
                x, y = s[a + j], s[pos + j]
                if not _dec((x == y) if not (isinstance(x, int) and
                                             isinstance(y, int)) else x == y):
                    return None
            return rest(pos + ln, groups)
        raise Unsupported('regex op %s' % op)

    def _at(self, av, pos):
        s, n = self.s, self.n
        if av is sc.AT_BEGINNING:
            if pos == 0:
                return True
            if self.multiline:
                return _dec(_rng(s[pos - 1], 10, 10))
            return False
        if av is sc.AT_BEGINNING_STRING:
            return pos == 0
        if av is sc.AT_END:
            if pos == n:
                return True
            if self.multiline:
                return _dec(_rng(s[pos], 10, 10))
            if pos == n - 1:
                return _dec(_rng(s[pos], 10, 10))
            return False
        if av is sc.AT_END_STRING:
            return pos == n
        if av in (sc.AT_BOUNDARY, sc.AT_NON_BOUNDARY):
            if n == 0:
                return av is sc.AT_NON_BOUNDARY
            before = _dec(self._is_word(s[pos - 1])) if pos > 0 else False
            after = _dec(self._is_word(s[pos])) if pos < n else False
            b = before != after
            return b if av is sc.AT_BOUNDARY else not b
        raise Unsupported('regex anchor %s' % av)


class SMatch(object):
    def __init__(self, spat, subject, elems, pos, end, groups):
        self.re = spat
        self.string = subject
        self._elems = elems
        self._is_bytes = spat._m.is_bytes
        self._span = (pos, end)
        self._groups = groups
        self.pos = pos

    def _idx(self, g):
        if isinstance(g, (str, bytes)):
            return self.re._real.groupindex[g]
        return g

    def span(self, g=0):
        g = self._idx(g)
        if g == 0:
            return self._span
        if g > self.re._real.groups:
            raise IndexError('no such group')
        return self._groups.get(g, (-1, -1))

    def start(self, g=0):
        return self.span(g)[0]

    def end(self, g=0):
        return self.span(g)[1]

    def _get(self, g, default=None):
        a, b = self.span(g)
        if a < 0:
            return default
        e = self._elems[a:b]
        return mkbytes(e) if self._is_bytes else mkstr(e)

    def group(self, *gs):
        if not gs:
            return self._get(0)
        if len(gs) == 1:
            return self._get(gs[0])
        return tuple(self._get(g) for g in gs)

    def __getitem__(self, g):
        return self._get(g)

    def groups(self, default=None):
        return tuple(self._get(i, default)
                     for i in range(1, self.re._real.groups + 1))

    @property
    def lastindex(self):
        raise Unsupported('Match.lastindex')

    def expand(self, template):
        return self.re._expand(self, template)


class SPattern(object):
    """Wrapper around a real compiled pattern; concrete subjects go to the
    real re module, symbolic ones to the matcher."""

    def __init__(self, real):
        self._real = real
        self.pattern = real.pattern
        self.flags = real.flags
        self.groups = real.groups
        self.groupindex = real.groupindex
        self._mm = None

    @property
    def _m(self):
        if self._mm is None:
            self._mm = _Matcher(self._real)
        return self._mm

    def __repr__(self):
        return 'SPattern(%r)' % (self.pattern,)

    def __eq__(self, o):
        if isinstance(o, SPattern):
            return self._real == o._real
        return self._real == o

    def __hash__(self):
        return hash(self._real)

    def _conc(self, s):
        return not is_sseq(s)

    def _norm_pos(self, n, pos, endpos):
        if endpos is not None and endpos < n:
            raise Unsupported('regex endpos')
        if isinstance(pos, SymInt):
            pos = int(pos)
        if pos < 0:
            pos = 0
        return min(pos, n)

    def _match_at(self, s, elems, pos, full=False):
        def fin(p, g):
            return SMatch(self, s, elems, pos, p, g)
        return self._m.run(elems, pos, fin, fullmatch=full)

    def match(self, s, pos=0, endpos=None):
        if self._conc(s):
            return self._real.match(s, pos) if endpos is None else \
                self._real.match(s, pos, endpos)
        e = s._e
        return self._match_at(s, e, self._norm_pos(len(e), pos, endpos))

    def fullmatch(self, s, pos=0, endpos=None):
        if self._conc(s):
            return self._real.fullmatch(s, pos)
        e = s._e
        return self._match_at(s, e, self._norm_pos(len(e), pos, endpos), True)

    def search(self, s, pos=0, endpos=None):
        if self._conc(s):
            return self._real.search(s, pos) if endpos is None else \
                self._real.search(s, pos, endpos)
        e = s._e
        p0 = self._norm_pos(len(e), pos, endpos)
        for p in range(p0, len(e) + 1):
            m = self._match_at(s, e, p)
            if m is not None:
                return m
        return None

    def _iter(self, s, pos=0):
        if self._m.minwidth == 0:
            raise Unsupported('iterating a possibly-empty regex over a '
                              'symbolic subject')
        e = s._e
        p = pos
        n = len(e)
        while p <= n:
            m = None
            for q in range(p, n + 1):
                m = self._match_at(s, e, q)
                if m is not None:
                    break
            if m is None:
                return
            yield m
            p = m.end()

    def finditer(self, s, pos=0, endpos=None):
        if self._conc(s):
            return self._real.finditer(s, pos)
        return self._iter(s, self._norm_pos(len(s._e), pos, endpos))

    def findall(self, s, pos=0, endpos=None):
        if self._conc(s):
            return self._real.findall(s, pos)
        out = []
        for m in self._iter(s, pos):
            if self.groups == 0:
                out.append(m.group(0))
            elif self.groups == 1:
                out.append(m.group(1) if m.start(1) >= 0 else
                           (b'' if self._m.is_bytes else ''))
            else:
                out.append(m.groups(b'' if self._m.is_bytes else ''))
        return out

    def _expand(self, m, template):
        empty = b'' if self._m.is_bytes else ''
        tpl = sre_parse.parse_template(template, self._real)
        # 3.12: [literal, group, literal, group, ..., literal]
        if isinstance(tpl, list):
            out = []
            for idx, item in enumerate(tpl):
                if idx % 2 == 0:
                    out.append(item if item is not None else empty)
                else:
                    g = m.group(item)
                    out.append(g if g is not None else empty)
            return empty.join(out) if all(not is_sseq(x) for x in out) else \
                (SBytes(()) if self._m.is_bytes else SStr(())).join(out)
        raise Unsupported('regex template format')

    def subn(self, repl, s, count=0):
        if self._conc(s) and not (is_sseq(repl)):
            if callable(repl):
                # the callable may return symbolic data; run our own loop
                pass
            else:
                return self._real.subn(repl, s, count)
        if not is_sseq(s):
            from .sseq import lift
            s = lift(s)
        e = s._e
        mk = mkbytes if self._m.is_bytes else mkstr
        out = []
        last = 0
        nsub = 0
        for m in self._iter(s, 0):
            if count and nsub >= count:
                break
            out.append(mk(e[last:m.start()]))
            if callable(repl):
                out.append(repl(m))
            elif is_sseq(repl):
                raise Unsupported('symbolic replacement template')
            else:
                out.append(self._expand(m, repl))
            last = m.end()
            nsub += 1
        out.append(mk(e[last:]))
        base = SBytes(()) if self._m.is_bytes else SStr(())
        return base.join(out), nsub

    def sub(self, repl, s, count=0):
        if self._conc(s) and not is_sseq(repl) and not callable(repl):
            return self._real.sub(repl, s, count)
        return self.subn(repl, s, count)[0]

    def split(self, s, maxsplit=0):
        if self._conc(s):
            return self._real.split(s, maxsplit)
        e = s._e
        mk = mkbytes if self._m.is_bytes else mkstr
        out = []
        last = 0
        k = 0
        for m in self._iter(s, 0):
            if maxsplit and k >= maxsplit:
                break
            out.append(mk(e[last:m.start()]))
            for gi in range(1, self.groups + 1):
                out.append(m.group(gi))
            last = m.end()
            k += 1
        out.append(mk(e[last:]))
        return out


_cache = {}


def wrap(real):
    if isinstance(real, SPattern):
        return real
    p = _cache.get(id(real))
    if p is None or p._real is not real:
        p = _cache[id(real)] = SPattern(real)
    return p


def compile_(pattern, flags=0):
    if isinstance(pattern, SPattern):
        return pattern
    if is_sseq(pattern):
        raise Unsupported('symbolic regex source')
    return wrap(_REAL_COMPILE(pattern, flags))


def _mod_fn(name):
    def f(pattern, *a, **k):
        flags = k.pop('flags', 0)
        return getattr(compile_(pattern, flags), name)(*a, **k)
    f.__name__ = name
    return f


match = _mod_fn('match')
search = _mod_fn('search')
fullmatch = _mod_fn('fullmatch')
sub = _mod_fn('sub')
subn = _mod_fn('subn')
split = _mod_fn('split')
findall = _mod_fn('findall')
finditer = _mod_fn('finditer')
