"""symx: instrumented symbolic execution of the real python-slimta code.

See /verif/DESIGN.md section 2.  Sub-modules:

  core    decision tree, z3 interface, SymBool / SymInt / SymReal
  sseq    SBytes / SStr (concrete length, symbolic elements) + codecs
  sregex  backtracking regex matcher over symbolic elements
  rt      runtime entry points the AST rewriter targets, models of C code
  loader  import hook that rewrites slimta modules loaded from $VERIF_REPO
  vloop   virtual-time event loop for the real gevent
  api     what harnesses use (works in symbolic and in concrete replay mode)
  driver  cells, process pool, native replay, evidence, known findings
"""
