"""What harnesses use.  Works in two modes:

  sym       values are proxies over z3 terms, prove() asks the solver
  concrete  (native replay) values come from an assignment, prove() is a
            plain Python truth test; slimta is loaded UNinstrumented
"""
import os
from fractions import Fraction

MODE = os.environ.get('SYMX_MODE', 'sym')

if MODE == 'sym':
    from . import core as _core
    from .core import (And, Or, Not, Implies, Ite, Unsupported, PathAbort,
                       StepBudget, is_sym)
    from .sseq import SBytes, SStr, mkbytes, mkstr, is_sseq, lift, elems_of
else:
    class Unsupported(BaseException):
        pass

    class PathAbort(BaseException):
        pass

    class StepBudget(BaseException):
        pass

    def And(*xs):
        return all(xs)

    def Or(*xs):
        return any(xs)

    def Not(x):
        return not x

    def Implies(a, b):
        return (not a) or b

    def Ite(c, a, b):
        return a if c else b

    def is_sym(x):
        return False

    def is_sseq(x):
        return False

    def mkbytes(e):
        return bytes(e)

    def mkstr(e):
        return ''.join(map(chr, e))

    def lift(x):
        return x

    def elems_of(x):
        return tuple(x) if isinstance(x, (bytes, bytearray)) else \
            tuple(map(ord, x))

ASSIGN = {}
_names = {}
FAILED = []          # concrete mode: failed obligations
OBSERVED = []        # both modes: (key, value) pairs in program order
NOTES = {}
PROVED = [0]


def reset_concrete(assign):
    global ASSIGN
    ASSIGN = dict(assign)
    _names.clear()
    del FAILED[:]
    del OBSERVED[:]
    NOTES.clear()
    PROVED[0] = 0


def reset_path():
    del OBSERVED[:]
    NOTES.clear()


def _uname(name):
    n = _names.get(name, 0)
    _names[name] = n + 1
    return name if n == 0 else '%s#%d' % (name, n)


def _ctx():
    c = _core.current()
    if c is None or not c.active:
        raise RuntimeError('no active symbolic path')
    return c


def _cval(name, default=0):
    name = _uname(name)
    v = ASSIGN.get(name, default)
    if isinstance(v, str) and '/' in v:
        a, b = v.split('/')
        v = Fraction(int(a), int(b))
    return v


def sym_int(name, lo, hi):
    if MODE == 'sym':
        return _core.mkint(_ctx().fresh_int(name, lo, hi))
    return int(_cval(name, lo))


def byte(name):
    return sym_int(name, 0, 255)


def boolean(name):
    if MODE == 'sym':
        return _core.mkbool(_ctx().fresh_bool(name))
    return bool(_cval(name, False))


def real(name, lo=0, hi=None):
    if MODE == 'sym':
        return _core.mkreal(_ctx().fresh_real(name, lo, hi))
    v = _cval(name, lo)
    return v if isinstance(v, Fraction) else Fraction(v)


def choice(name, n):
    """small finite choice, explored by forking (concrete on every path)"""
    if MODE == 'sym':
        return _ctx().choice(name, n)
    return int(_cval(name, 0))


def sbytes(name, n, lo=0, hi=255):
    if MODE == 'sym':
        c = _ctx()
        return mkbytes([c.fresh_int('%s[%d]' % (name, i), lo, hi)
                        for i in range(n)])
    return bytes(int(_cval('%s[%d]' % (name, i), lo)) for i in range(n))


def sstr(name, n, lo=0, hi=0x7FF):
    if MODE == 'sym':
        from . import sregex
        assert hi <= sregex.MAX_CP
        c = _ctx()
        return mkstr([c.fresh_int('%s[%d]' % (name, i), lo, hi)
                      for i in range(n)])
    return ''.join(chr(int(_cval('%s[%d]' % (name, i), lo)))
                   for i in range(n))


def join(sep, parts):
    """sep.join(parts) that also works when parts are symbolic"""
    parts = list(parts)
    if MODE == 'sym' and any(is_sseq(p) for p in parts):
        return lift(sep).join(parts)
    return sep.join(parts)


def assume(cond):
    if MODE == 'sym':
        _ctx().assume(cond)
    elif not cond:
        raise PathAbort()


def decide(cond):
    """truth value of cond on this path (forks in symbolic mode)"""
    return bool(cond)


def conc(x):
    """concrete value of a symbolic int/real on this path (forks)"""
    if MODE == 'sym' and is_sym(x):
        return x.concretize()
    return x


def prove(cond, label, **info):
    """Obligation: cond must hold for every value on this path."""
    PROVED[0] += 1
    if MODE == 'sym':
        return _ctx().prove(cond, label, info or None) is None
    if not cond:
        FAILED.append({'label': label, 'info': _plain(info)})
        return False
    return True


def fail(label, **info):
    return prove(False, label, **info)


def observe(key, value):
    """Record an observable result (encoding validation compares the value
    under the path's witness model with the native run)."""
    OBSERVED.append((key, value))


def note(key, value):
    NOTES[key] = value


def _plain(x):
    if isinstance(x, dict):
        return dict((str(k), _plain(v)) for k, v in x.items())
    if isinstance(x, (list, tuple)):
        return [_plain(v) for v in x]
    if isinstance(x, bytes):
        return {'bytes': x.decode('latin-1')}
    if isinstance(x, Fraction):
        return '%d/%d' % (x.numerator, x.denominator)
    if isinstance(x, (int, str, bool, float)) or x is None:
        return x
    return repr(x)


def evaluate(x, model):
    """Concrete value of a (possibly symbolic) observation under a model."""
    from . import zt
    from .core import SymBool, SymInt, SymReal
    from .sseq import SBytes as _SB, SStr as _SS

    def ev(e):
        return zt.from_model(model, e)
    if isinstance(x, (SymBool, SymInt, SymReal)):
        return ev(x.e)
    if isinstance(x, _SB):
        return bytes(v if isinstance(v, int) else ev(v) for v in x._e)
    if isinstance(x, _SS):
        return ''.join(chr(v if isinstance(v, int) else ev(v)) for v in x._e)
    if isinstance(x, (list, tuple)):
        return [evaluate(v, model) for v in x]
    if isinstance(x, dict):
        return dict((k, evaluate(v, model)) for k, v in x.items())
    if hasattr(x, '_sx_elems'):
        return bytes(v if isinstance(v, int) else ev(v)
                     for v in x._sx_elems())
    return x


def shards(cell, n, depth=6):
    """Split one cell over n processes: sub-cell i explores the decision
    prefixes of the given depth whose hash is i mod n (together: all)."""
    out = []
    for i in range(n):
        c = dict(cell)
        c['_shard'] = [i, n, depth]
        out.append(c)
    return out
