"""Engine self-test (encoding validation, part a): every model is compared
with CPython on concrete inputs.  Run by every check before anything else."""
import ast
import base64
import itertools
import os
import random
import re
import struct
import sys


def _patterns(repo):
    """constant regex sources compiled anywhere in the slimta tree"""
    out = set()
    base = os.path.join(repo, 'slimta')
    for dp, dn, fn in os.walk(base):
        for f in fn:
            if not f.endswith('.py'):
                continue
            try:
                tree = ast.parse(open(os.path.join(dp, f), 'rb').read())
            except SyntaxError:
                continue
            for node in ast.walk(tree):
                if isinstance(node, ast.Call) and \
                        isinstance(node.func, ast.Attribute) and \
                        isinstance(node.func.value, ast.Name) and \
                        node.func.value.id == 're' and node.args and \
                        isinstance(node.args[0], ast.Constant) and \
                        isinstance(node.args[0].value, (str, bytes)):
                    flags = 0
                    for a in list(node.args[1:2]) + [k.value for k in
                                                     node.keywords]:
                        for n in ast.walk(a):
                            if isinstance(n, ast.Attribute) and \
                                    hasattr(re, n.attr):
                                flags |= getattr(re, n.attr)
                    out.add((node.args[0].value, flags))
    return sorted(out, key=repr)


def _match_repr(m):
    if m is None:
        return None
    n = m.re.groups
    return (m.span(), tuple(m.span(i) for i in range(1, n + 1)))


def run(quiet=False, repo=None):
    from symx import sregex, rt
    from symx.core import Unsupported
    from symx.sseq import SBytes, SStr, mkbytes, mkstr, utf8_decode, \
        utf8_encode
    repo = repo or os.environ.get('VERIF_REPO', '/repo')
    ok = True
    rng = random.Random(12345)

    def fail(msg):
        nonlocal ok
        ok = False
        print('SELFTEST-FAIL ' + msg)

    # ---- 1. regex matcher vs real re
    alpha_b = [b'.', b'\r', b'\n', b'a', b' ', b'5', b'-', b'<', b'=', b'Z',
               b'\t', b'2', b':', b'\xff']
    alpha_s = ['.', '\r', '\n', 'a', ' ', '5', '-', ';', '=', '"', '2',
               'é', '٣', ' ', ',']
    npat = 0
    for src, flags in _patterns(repo):
        try:
            real = re.compile(src, flags)
            sp = sregex.SPattern(real)
            sp._m
        except Unsupported:
            continue
        except re.error:
            continue
        npat += 1
        isb = isinstance(src, bytes)
        alpha = alpha_b if isb else alpha_s
        subjects = []
        for n in range(0, 4):
            for t in itertools.product(alpha[:6], repeat=n):
                subjects.append((b'' if isb else '').join(t))
        for _ in range(150):
            n = rng.randint(0, 9)
            subjects.append((b'' if isb else '').join(
                rng.choice(alpha) for _ in range(n)))
        # a few realistic lines
        if isb:
            subjects += [b'250-Hello\r\n250 Ok\r\n', b'MAIL FROM:<a@b> X=1',
                         b'FROM:<a@b> SIZE=10 BODY=8BITMIME', b'.\r\n',
                         b'EHLO there\r\n', b'a\r\n\r\nb', b' SIZE=5 X']
        else:
            subjects += ['2.1.0 Ok', '250 ; msg="x" foo = "y"', '5.1.1 bad',
                         ' PIPELINING\r\nSIZE 10\r\n', '550']
        for s in subjects:
            e = tuple(s) if isb else tuple(map(ord, s))
            for pos in (0, 1):
                if pos > len(e):
                    continue
                try:
                    got = _match_repr(sp._match_at(s, e, pos))
                except Unsupported:
                    continue
                exp = _match_repr(real.match(s, pos))
                if got != exp:
                    fail('regex %r match(%r,%d): %r != %r' %
                         (src, s, pos, got, exp))
                    break
            # search
            try:
                got = None
                for p in range(0, len(e) + 1):
                    m = sp._match_at(s, e, p)
                    if m is not None:
                        got = _match_repr(m)
                        break
                exp = _match_repr(real.search(s))
                if got != exp:
                    fail('regex %r search(%r): %r != %r' % (src, s, got, exp))
            except Unsupported:
                pass
            if sp._m.minwidth > 0:
                ls = SBytes(e) if isb else SStr(e)
                got = [_match_repr(m) for m in sp._iter(ls, 0)]
                exp = [_match_repr(m) for m in real.finditer(s)]
                if got != exp:
                    fail('regex %r finditer(%r): %r != %r' %
                         (src, s, got, exp))
    if npat < 20:
        fail('only %d regex patterns found/supported' % npat)

    # ---- 2. sequence methods
    def lb(b):
        return SBytes(tuple(b))

    def ls(s):
        return SStr(tuple(map(ord, s)))
    words = [b'', b'a', b'ab.c', b' a b  c ', b'\r\n.\r\n', b'a@b@C.d',
             b'x\ny\n.z', b'..', b'a\n.b\n.c', b'   ', b'A-b_C', b'\t x \n']
    for w in words + [b'a\r\n', b'a\r\r\nb', b'\r', b'\n\r', b'x\ry',
                      b'a\r\n\r\n', b'\x0bq\x0c', b'a\x1cb']:
        for keep in (False, True):
            if list(lb(w).splitlines(keep)) != w.splitlines(keep):
                fail('bytes.splitlines %r' % w)
            t = w.decode('latin-1') + '\u2028z\x85'
            if list(ls(t).splitlines(keep)) != t.splitlines(keep):
                fail('str.splitlines %r' % t)
    for w in words:
        for sub in (b'.', b'\n.', b'@', b' ', b'ab', b''):
            for name in ('find', 'rfind', 'count', 'startswith', 'endswith'):
                if name == 'count' and not sub:
                    continue
                got = getattr(lb(w), name)(sub)
                got = bool(got) if name.endswith('with') else got
                if got != getattr(w, name)(sub):
                    fail('bytes.%s(%r,%r) -> %r' % (name, w, sub, got))
            if sub:
                for name in ('split', 'rsplit', 'partition', 'rpartition',
                             'replace'):
                    args = (sub, b'XY') if name == 'replace' else (sub,)
                    got = getattr(lb(w), name)(*args)
                    exp = getattr(w, name)(*args)
                    if (list(got) if not isinstance(got, bytes) else got) != \
                            (list(exp) if not isinstance(exp, bytes) else exp):
                        fail('bytes.%s(%r,%r) -> %r != %r' %
                             (name, w, sub, got, exp))
                for k in (0, 1, 2):
                    if lb(w).split(sub, k) != w.split(sub, k) or \
                            lb(w).rsplit(sub, k) != w.rsplit(sub, k):
                        fail('bytes.split maxsplit %r %r %d' % (w, sub, k))
        for name in ('strip', 'lstrip', 'rstrip', 'lower', 'upper', 'split'):
            if getattr(lb(w), name)() != getattr(w, name)():
                fail('bytes.%s(%r)' % (name, w))
        if lb(w).strip(b' .') != w.strip(b' .'):
            fail('bytes.strip(chars) %r' % w)
        if bool(lb(w).isdigit()) != w.isdigit():
            fail('isdigit %r' % w)
        s = w.decode('latin-1')
        for name in ('strip', 'lower', 'upper', 'split'):
            if getattr(ls(s), name)() != getattr(s, name)():
                fail('str.%s(%r)' % (name, s))
        if ls(s).rsplit('@', 1) != s.rsplit('@', 1):
            fail('str.rsplit %r' % s)
    if lb(b'abc')[1] != 98 or lb(b'abc')[1:] != b'bc' or \
            ls('abc')[1] != 'b' or (lb(b'a') + b'b') != b'ab' or \
            (b'a' + lb(b'b')) != b'ab' or SBytes(()).join(
                [b'a', lb(b'b')]) != b'ab':
        fail('basic sequence protocol')

    # ---- 3. utf-8
    samples = ['', 'abc', 'é', '߿ࠀ', '￿', '\U0001f600x',
               'a٣ ']
    for s in samples:
        b = s.encode('utf-8')
        if utf8_encode(tuple(map(ord, s))) != b:
            fail('utf8 encode %r' % s)
        if utf8_decode(tuple(b)) != s:
            fail('utf8 decode %r' % s)
    for _ in range(400):
        n = rng.randint(1, 5)
        b = bytes(rng.choice([0x41, 0x80, 0xbf, 0xc0, 0xc2, 0xdf, 0xe0, 0xa0,
                              0xed, 0x9f, 0xef, 0xf0, 0x90, 0xf4, 0x8f, 0xf5,
                              0xff, 0x0a]) for _ in range(n))
        for errors in ('strict', 'replace'):
            try:
                exp = b.decode('utf-8', errors)
            except UnicodeDecodeError as e:
                exp = ('err', e.start, e.end)
            try:
                got = utf8_decode(tuple(b), errors)
            except UnicodeDecodeError as e:
                got = ('err', e.start, e.end)
            if got != exp:
                fail('utf8 decode %r %s: %r != %r' % (b, errors, got, exp))
    try:
        utf8_encode((0xD800,))
        fail('surrogate encode')
    except UnicodeEncodeError:
        pass

    # ---- 4. int(), struct, base64, hexlify, format models
    for t in [b'0', b'80', b'+80', b'-1', b'8_0', b'80\n', b' 7 ', b'',
              b'a', b'1a', b'_1', b'1_', b'1__2', b'+', b'65535', b'00080',
              b'\x0080', b'8\x000']:
        for conv in (lambda x: x, lambda x: x.decode('latin-1')):
            v = conv(t)
            try:
                exp = int(v)
            except ValueError:
                exp = 'ValueError'
            try:
                got = rt.int_of_seq(lb(v) if isinstance(v, bytes) else ls(v))
            except ValueError:
                got = 'ValueError'
            if got != exp:
                fail('int(%r): %r != %r' % (v, got, exp))
    for fmt, n in (('!H', 2), ('!4s4sHH', 12), ('!16s16sHH', 36),
                   ('!108s108s', 216), ('!BBH', 4)):
        b = bytes(rng.randrange(256) for _ in range(n))
        if rt._unpack_model(fmt, lb(b)) != struct.unpack(fmt, b):
            fail('struct.unpack %s' % fmt)
    for n in range(0, 8):
        b = bytes(rng.randrange(256) for _ in range(n))
        enc = base64.b64encode(b)
        if rt._b64encode_model(lb(b)) != enc:
            fail('b64encode %r' % b)
        if rt._b64decode_model(lb(enc)) != b:
            fail('b64decode %r' % enc)
        if rt._hexlify_model(lb(b)) != b.hex().encode():
            fail('hexlify %r' % b)
        b2 = b + b'\xfb\xff\xfe'
        if rt._urlsafe_b64encode_model(lb(b2)) != base64.urlsafe_b64encode(b2):
            fail('urlsafe_b64encode %r' % b2)
        if rt._urlsafe_b64decode_model(
                lb(base64.urlsafe_b64encode(b2))) != b2:
            fail('urlsafe_b64decode %r' % b2)
    for t in [b'', b'=', b'a', b'ab', b'abc', b'ab=', b'ab==', b'abc=',
              b'a b c d', b'ab\nc=', b'!!!!', b'YQ', b'YQ=', b'=YQ==',
              b'YWJj\xff', b'YQ==YQ==', b'YQ=a', b'YQ=a=', b'Y=Q==', b'=',
              b'==', b'a=', b'ab=c', b'ab=cd', b'abc=d', b'ab==cd', b'*!!!',
              b'*', b'YWJjZA', b'YWJjZA=', b'YWJjZA==', b'YW Jj\nZA==x']:
        try:
            exp = base64.b64decode(t)
        except Exception as e:
            exp = type(e).__name__
        try:
            got = rt._b64decode_model(lb(t))
        except Unsupported:
            continue
        except Exception as e:
            got = type(e).__name__
        if got != exp:
            fail('b64decode(%r): %r != %r' % (t, got, exp))
        # strict mode (validate=True), same inputs and every short string
    for t in [bytes(x) for n in range(0, 6)
              for x in itertools.product(b'Aa=!', repeat=n)]:
        try:
            exp = base64.b64decode(t, validate=True)
        except Exception as e:
            exp = type(e).__name__
        try:
            got = rt._b64decode_model(lb(t), validate=True)
        except Unsupported:
            continue
        except Exception as e:
            got = type(e).__name__
        if got != exp:
            fail('b64decode(%r, validate=True): %r != %r' % (t, got, exp))
    import socket
    for t in ['1.2.3.4', '0.0.0.0', '255.255.255.255', '256.1.1.1', '01.2.3.4',
              '1.2.3', '1.2.3.4.5', '1..2.3', '', '1.2.3.4 ', 'a.b.c.d',
              '1.2.3.04', '1.2.3.0', '0001.2.3.4', '1.2.3.4\x00', '.1.2.3',
              '1.2.3.', '999.1.1.1', '1.2.3.4\n', '+1.2.3.4']:
        try:
            exp = socket.inet_pton(socket.AF_INET, t)
        except Exception as e:
            exp = type(e).__name__
        try:
            got = rt._inet_pton_model(socket.AF_INET, ls(t))
        except Exception as e:
            got = type(e).__name__
        if got != exp:
            fail('inet_pton(%r): %r != %r' % (t, got, exp))
    if rt._str_format('a{0}b{1!r}c{x}', ls('Q'), 5, x='z') != 'aQb5cz':
        fail('str.format model')
    if rt._percent_format(b'a%sb%%', (lb(b'Q'),)) != b'aQb%':
        fail('percent format model')
    if not quiet:
        print('selftest %s (%d regex patterns)' % ('ok' if ok else 'FAILED',
                                                  npat))
    return ok


if __name__ == '__main__':
    sys.exit(0 if run() else 1)
