#!/bin/sh
# tools/seed_all.sh [--confirm] [--lane i/n] : run every seeded change against
# its check(s).  With --lane, only every n-th seed (used by seed_lanes.sh, which
# runs n copies of /verif against n scratch worktrees of /repo in parallel).
# SEED_GLOB='C??-1[12]' restricts the seeds (shell pattern under seeded/).
cd "$(dirname "$0")/.."
conf="--skip-confirm"; lane=0; nl=1
while [ $# -gt 0 ]; do
  case $1 in --confirm) conf="";; --lane) lane=${2%/*}; nl=${2#*/}; shift;; esac
  shift
done
k=0
for d in seeded/${SEED_GLOB:-C[0-9][0-9]-[0-9]*}; do
  k=$((k+1))
  [ $((k % nl)) -eq $lane ] || continue
  s=$(basename $d)
  props=""
  case $s in C07-3) props="--props C07,C08";; C01-6|C01-7|C01-10) props="--props C01,C11";;
    C01-8) props="--props C01,C03,C12";; C07-8|C07-10) props="--props C07,C09";;
    C02-10) props="--props C02,C16";; C13-10) props="--props C13,C12,C01";;
    C08-10) props="--props C08,C11";; C01-11) props="--props C01,C19";;
    C01-12) props="--props C01,C11";; C19-12) props="--props C19,C11";; esac
  [ -f $d/NOTE.md ] && { echo "$s neutralised (see NOTE.md)"; continue; }
  [ "${SEED_REPO:-/repo}" = /repo ] && tools/rebase_seed.sh $d >/dev/null 2>&1
  r=$(python3 tools/seedtest.py $d $conf $props 2>&1 | grep -E '"confirmed"|"caught"' | tr -d ' \n')
  echo "$s $r"
done
