#!/bin/sh
# tools/seed_all.sh [--confirm] : run every seeded change against its check(s)
cd "$(dirname "$0")/.."
conf="--skip-confirm"; [ "$1" = "--confirm" ] && conf=""
for d in seeded/C*-[0-9]; do
  s=$(basename $d)
  props=""
  case $s in C07-3) props="--props C07,C08";; C01-6|C01-7) props="--props C01,C11";;
    C01-8) props="--props C01,C03,C12";; C07-8) props="--props C07,C09";; esac
  [ -f $d/NOTE.md ] && { echo "$s neutralised (see NOTE.md)"; continue; }
  tools/rebase_seed.sh $d >/dev/null 2>&1
  r=$(python3 tools/seedtest.py $d $conf $props 2>&1 | grep -E '"confirmed"|"caught"' | tr -d ' \n')
  echo "$s $r"
done
