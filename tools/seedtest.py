#!/usr/bin/env python3
"""Confirm a seeded mutation and run a check against it.

usage: tools/seedtest.py seeded/C05-1 [--tier quick] [--skip-confirm] [--props C05,C09]

1. in a scratch worktree of /repo (HEAD): demo passes; with the patch the demo
   fails and the 449-test suite is unchanged;
2. apply the patch to /repo, run ./check for the property, undo (git checkout).
Writes seeded/<id>/result.json.
"""
import json
import os
import subprocess
import sys
import tempfile
import shutil

ROOT = os.path.dirname(os.path.dirname(os.path.abspath(__file__)))


def sh(cmd, cwd=None, timeout=3600):
    p = subprocess.run(cmd, shell=True, cwd=cwd, stdout=subprocess.PIPE,
                       stderr=subprocess.STDOUT, timeout=timeout)
    return p.returncode, p.stdout.decode('utf-8', 'replace')


def suite(wt):
    rc, out = sh('/venv/bin/python -m pytest -q -p no:cacheprovider '
                 '--timeout=900 --continue-on-collection-errors test/ '
                 '2>&1 | tail -25', cwd=wt)
    lines = [l for l in out.splitlines() if l.startswith(('FAILED', 'ERROR'))]
    summ = out.strip().splitlines()[-1] if out.strip() else ''
    return sorted(lines), summ


def main():
    d = os.path.abspath(sys.argv[1])
    tier = 'quick'
    skip = '--skip-confirm' in sys.argv
    if '--tier' in sys.argv:
        tier = sys.argv[sys.argv.index('--tier') + 1]
    meta = json.load(open(os.path.join(d, 'meta.json')))
    props = [meta['property']]
    if '--props' in sys.argv:
        props = sys.argv[sys.argv.index('--props') + 1].split(',')
    patch = os.path.join(d, 'patch.diff')
    res = {'property': meta['property'], 'tier': tier}
    if not skip:
        wt = tempfile.mkdtemp(prefix='seedwt-', dir='/var/tmp')
        os.rmdir(wt)
        rc, out = sh('git -C /repo worktree add --detach %s HEAD' % wt)
        assert rc == 0, out
        try:
            os.makedirs(os.path.join(wt, 'SEED', 'X'))
            shutil.copy(os.path.join(d, 'demo.py'),
                        os.path.join(wt, 'SEED', 'X', 'demo.py'))
            base_fail, base_sum = suite(wt)
            rc0, out0 = sh('/venv/bin/python SEED/X/demo.py', cwd=wt, timeout=300)
            rc, out = sh('git apply %s' % patch, cwd=wt)
            res['applies_on_head'] = rc == 0
            if rc != 0:
                res['apply_error'] = out[-500:]
            rc1, out1 = sh('/venv/bin/python SEED/X/demo.py', cwd=wt, timeout=300)
            mut_fail, mut_sum = suite(wt)
            res.update({'demo_pristine_rc': rc0, 'demo_mutated_rc': rc1,
                        'demo_mutated_tail': out1[-400:],
                        'suite_pristine': base_sum, 'suite_mutated': mut_sum,
                        'suite_same_failures': base_fail == mut_fail})
            res['confirmed'] = (rc0 == 0 and rc1 != 0 and
                                base_fail == mut_fail and rc == 0)
        finally:
            sh('git -C /repo worktree remove --force %s' % wt)
    # run the checks against /repo with the patch applied
    repo = os.environ.get('SEED_REPO', '/repo')
    os.environ['VERIF_REPO'] = repo
    rc, out = sh('git -C %s status --porcelain' % repo)
    assert out.strip() == '', repo + ' not clean: ' + out
    rc, out = sh('git -C %s apply %s' % (repo, patch))
    assert rc == 0, out
    res['checks'] = {}
    try:
        for p in props:
            rc, out = sh('./check %s --tier %s' % (p, tier), cwd=ROOT)
            viol = [l for l in out.splitlines() if l.startswith('VIOLATION')]
            res['checks'][p] = {'rc': rc, 'violations': len(viol),
                                'tail': out[-1500:]}
    finally:
        sh('git -C %s checkout -- .' % repo)
    res['caught'] = any(c['rc'] == 1 for c in res['checks'].values())
    json.dump(res, open(os.path.join(d, 'result.json'), 'w'), indent=1)
    print(json.dumps({k: v for k, v in res.items() if k != 'checks'}, indent=1))
    for p, c in res['checks'].items():
        print(p, 'rc=%d violations=%d' % (c['rc'], c['violations']))
        print('\n'.join(c['tail'].splitlines()[-6:]))


if __name__ == '__main__':
    main()
