#!/bin/sh
# tools/rebase_seed.sh seeded/CXX-N : if patch.diff no longer applies to /repo HEAD
# (because of later fix: commits), re-create it with fuzzy patch and keep the
# original as patch.orig.diff
d="$(cd "$1" && pwd)"
cd /repo || exit 1
[ -z "$(git status --porcelain)" ] || { echo "/repo not clean"; exit 1; }
if git apply --check "$d/patch.diff" 2>/dev/null; then echo "applies cleanly"; exit 0; fi
[ -f "$d/patch.orig.diff" ] || cp "$d/patch.diff" "$d/patch.orig.diff"
cp "$d/patch.diff" "$d/.patch.cur"
if patch -p1 --fuzz=3 --no-backup-if-mismatch < "$d/.patch.cur" >/dev/null 2>&1 || { git checkout -- .; git clean -fdq -- slimta; patch -p1 --fuzz=3 --no-backup-if-mismatch < "$d/patch.orig.diff" >/dev/null; }; then
  rm -f "$d/.patch.cur"
  find . -name '*.orig' -newer "$d/patch.orig.diff" -delete 2>/dev/null
  git diff > "$d/patch.diff"; git checkout -- .; git clean -fdq -- slimta; echo "rebased with fuzz"
else
  rm -f "$d/.patch.cur"; git checkout -- .; git clean -fdq -- slimta; echo "MANUAL REBASE NEEDED"; exit 2
fi
