#!/usr/bin/env python3
"""Regenerate /verif/MANIFEST.json from the props modules' metadata."""
import ast
import json
import os
import sys

ROOT = os.path.dirname(os.path.dirname(os.path.abspath(__file__)))
ALL = ['C%02d' % i for i in range(1, 21)]


def meta(pid):
    p = os.path.join(ROOT, 'props', pid.lower() + '.py')
    if not os.path.exists(p):
        return None
    tree = ast.parse(open(p).read())
    out = {}
    for node in tree.body:
        if isinstance(node, ast.Assign) and len(node.targets) == 1 and \
                isinstance(node.targets[0], ast.Name):
            try:
                out[node.targets[0].id] = ast.literal_eval(node.value)
            except Exception:
                pass
    return out


def main():
    na_path = os.path.join(ROOT, 'tools', 'not_applicable.json')
    na = json.load(open(na_path)) if os.path.exists(na_path) else {}
    checks = []
    not_app = []
    for pid in ALL:
        m = meta(pid)
        if m is None or m.get('DISABLED'):
            not_app.append({'property_id': pid, 'reason': na.get(
                pid, 'no sound solver-based check built yet for this '
                     'property (see DESIGN.md)')})
            continue
        checks.append({
            'property_id': pid,
            'quick_cmd': './check %s --tier quick' % pid,
            'thorough_cmd': './check %s --tier thorough' % pid,
            'evidence_file': 'evidence/%s.json' % pid,
            'replay_cmd_template': './check %s --replay {path}' % pid,
            'engine': 'symx',
            'level_claimed': {
                'category': 'model_checking',
                'text': m.get('LEVEL_TEXT', 'Bounded symbolic execution of '
                              'the real code: every input within the stated '
                              'bounds is covered by a solver-decided path; '
                              'each obligation is discharged by z3 or a '
                              'counterexample is replayed natively.'),
                'design_ref': 'DESIGN.md section 3, ' + pid},
            'level_note': m.get('LEVEL_NOTE', 'Trusted: symx engine (AST '
                                'rewriter, proxies, regex/codec models, '
                                'validated by selftest + native replays), '
                                'z3, the stubs listed in the evidence; '
                                'bounds as stated in the evidence.'),
            'technique': m.get('TECHNIQUE', 'solver-based bounded symbolic '
                               'execution of the real Python code (z3)'),
        })
    man = {
        'version': 1,
        'setup_cmd': 'sh ./setup.sh',
        'hooks': {'guard': 'SLIMTA_VERIF',
                  'enable': 'no source hooks: checks import /repo/slimta '
                            'through an AST-rewriting import hook '
                            '(symx.loader); nothing in /repo is guarded',
                  'baseline_off_cmd': 'cd /repo && /venv/bin/python -m pytest '
                                      '-ra -q -p no:cacheprovider '
                                      '--timeout=900 '
                                      '--continue-on-collection-errors',
                  'source_commits': [], 'add_only': True},
        'engines': [{'name': 'symx', 'path': 'symx/',
                     'serves_properties': [c['property_id'] for c in checks],
                     'kind_free_text': 'instrumented symbolic execution of '
                     'the real slimta modules (AST rewrite at import, '
                     'symbolic bytes/str/int/real proxies, decision-tree '
                     'exploration, z3 decides every branch and every '
                     'obligation, native replay of counterexamples)'}],
        'checks': checks,
        'not_applicable': not_app,
        'notes': 'All checks: exit 0 held / 1 VIOLATION (replayed natively) '
                 '/ 3 engine error (nothing claimed). See DESIGN.md.',
    }
    with open(os.path.join(ROOT, 'MANIFEST.json'), 'w') as f:
        json.dump(man, f, indent=1)
    print('checks: %s' % [c['property_id'] for c in checks])


if __name__ == '__main__':
    main()
