#!/bin/sh
# tools/seed_lanes.sh N : seed regression in N parallel lanes.  Each lane is a
# copy of /verif plus a scratch worktree of /repo under /var/tmp; results are
# copied back to seeded/<id>/result.json and the lanes are removed.
cd "$(dirname "$0")/.."
N=${1:-3}
base=/var/tmp/seedlane
i=0
while [ $i -lt $N ]; do
  rm -rf $base$i; mkdir -p $base$i
  rsync -a --exclude .git --exclude counterexamples ./ $base$i/verif/
  git -C /repo worktree add --detach $base$i/repo HEAD >/dev/null 2>&1
  ( cd $base$i/verif && SEED_REPO=$base$i/repo tools/seed_all.sh $SEED_ALL_ARGS --lane $i/$N > $base$i/out.log 2>&1 ) &
  i=$((i+1))
done
wait
i=0
while [ $i -lt $N ]; do
  cat $base$i/out.log
  for d in $base$i/verif/seeded/C*; do
    s=$(basename $d)
    [ -f $d/result.json ] && cmp -s $d/result.json seeded/$s/result.json || cp $d/result.json seeded/$s/result.json 2>/dev/null
  done
  git -C /repo worktree remove --force $base$i/repo
  rm -rf $base$i
  i=$((i+1))
done
