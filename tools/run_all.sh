#!/bin/sh
# tools/run_all.sh [quick|thorough]  - run every registered check, print one line each
tier=${1:-quick}
cd "$(dirname "$0")/.."
for p in 01 02 03 04 05 06 07 08 09 10 11 12 13 14 15 16 17 18 19 20; do
  s=$(date +%s)
  out=$(./check C$p --tier $tier 2>&1); rc=$?
  e=$(date +%s)
  echo "C$p rc=$rc $((e-s))s $(echo "$out" | grep -E '^C[0-9]+ tier' | cut -c1-160)"
  echo "$out" | grep -E '^(VIOLATION|ENGINE|VACUOUS|INCONCLUSIVE|KNOWN-FINDING)' | cut -c1-200 | head -5
done
