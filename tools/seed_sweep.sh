#!/bin/sh
# run every quick check under several VERIF_SEED values; print anything that is not a clean pass
cd "$(dirname "$0")/.."
for seed in "$@"; do
  for p in 01 02 03 04 05 06 07 08 09 10 11 12 13 14 15 16 17 18 19 20; do
    out=$(VERIF_SEED=$seed ./check C$p --tier quick 2>&1); rc=$?
    n=$(echo "$out" | grep -cE '^(ENGINE|VACUOUS|VIOLATION|INCONCLUSIVE)')
    echo "seed=$seed C$p rc=$rc flagged=$n"
    echo "$out" | grep -E '^(ENGINE|VACUOUS|VIOLATION|INCONCLUSIVE)' | head -3 | cut -c1-700
  done
done
