"""C14 - no peer can hold a session or delivery attempt beyond its configured
timeouts (exact, in virtual time).

Real code executed: Server.handle/_recv_command/_get_message_data/
_command_AUTH, AuthSession._server_challenge, SmtpRelayClient._run and every
@current_command step, LmtpRelayClient, PipeRelay._try_pipe_*,
HttpRelayClient._handle_request/_run - with the real gevent.Timeout on the
virtual-time loop.
"""
from symx import api
from symx.api import And, Or, Not
from . import qcommon as qc
from . import netcommon as nc
from .common import quiet_logging
from .c07 import Rec

PROPERTY = 'C14'
EXPECT_ENTERED = ['Server.handle', 'Server._recv_command',
                  'Server._get_message_data', 'SmtpRelayClient._run',
                  'SmtpRelayClient._send_message_data',
                  'SmtpRelayClient._banner', 'SmtpRelayClient._disconnect',
                  'PipeRelay._try_pipe_all_rcpts',
                  'HttpRelayClient._handle_request', 'HttpRelayClient._run']
BOUNDS = {
    'quick': 'server: the client goes silent after each of the 12 units of a '
             'full session script (before the banner is answered, after every '
             'command, in the middle of a command line, after part of the '
             'message, after the content without the final dot), or trickles '
             'up to 4 bytes of a line / of the content at symbolic intervals '
             '0 < d < timeout, or stalls inside an AUTH challenge; commands '
             'before the stall arrive at symbolic instants; relay: the peer '
             'goes silent (or trickles its reply) at every stage of an SMTP '
             'or LMTP conversation (also after the EHLO-500 -> HELO fallback), '
             'PIPELINING on/off, also on the second '
             'message of a reused connection; the same with the peer refusing '
             'the sender / every recipient / the first recipient (4xx or 5xx) '
             'and answering DATA with 354 or 503 before it goes silent at '
             'DATA, end of data, RSET or QUIT; a peer that sends an unsolicited '
             'reply (421 / 250 / 451) behind the EHLO reply of every '
             'connection it accepts, connections taking a symbolic time below '
             'the connect timeout; pipe relay: the program hangs for one '
             'recipient (and possibly every later one); '
             'HTTP relay: the server never responds',
    'thorough': 'trickles of 6 bytes, 2 recipients',
}
OUTSIDE = ('time spent inside a real TLS handshake or the DNS library; '
           'connect() itself (socket creator returns at once or after a '
           'delay below the connect timeout); a peer that stops READING '
           '(sendall() on the fake sockets never blocks; the library sends '
           'outside its timers); a peer that floods an unfinished line so '
           'fast that recv() never has to wait (the reading greenlet then '
           'never yields to the hub and no timer fires); reading a PROXY '
           'protocol header in front of the session')
STUBS = ['PipeSocket / ScriptedPeer', 'virtual-time loop with the real '
         'gevent.Timeout', 'Popen stub', 'fake HTTP connection',
         'gevent.socket.create_connection -> cooperative PipeSocket; '
         'socket.create_connection (standard library) -> a PipeSocket whose '
         'recv() with nothing to read ends the calling greenlet for good '
         '(a blocking read: the process sits in recv() and no gevent timeout '
         'can fire)']
ASSUMPTIONS = []
CELL_BUDGET_S = {'quick': 240, 'thorough': 2400}
SAMPLE_P = 0.02
MAX_WITNESSES = 10
CMD_T = 10
DATA_T = 30


def cells(tier):
    out = []
    out.append({'kind': 'server_stall'})
    out.append({'kind': 'server_trickle', 'where': 'command', 'k': 4})
    out.append({'kind': 'server_trickle', 'where': 'data', 'k': 4})
    out.append({'kind': 'server_auth'})
    for lmtp in (0, 1):
        for pipe in (0, 1):
            out.append({'kind': 'relay_stall', 'lmtp': lmtp, 'pipe': pipe,
                        'n': 1})
    out.append({'kind': 'relay_stall', 'lmtp': 0, 'pipe': 1, 'n': 2,
                'reuse': 1})
    # EHLO refused with 500: the HELO fallback and what follows it
    out.append({'kind': 'relay_stall', 'lmtp': 0, 'pipe': 0, 'n': 1,
                'helo': 1})
    # no socket_creator given: the relay's own default
    for lmtp in (0, 1):
        out.append({'kind': 'relay_stall', 'lmtp': lmtp, 'pipe': 1, 'n': 1,
                    'default_creator': 1})
    for lmtp in (0, 1):
        for pipe in (0, 1):
            out.append({'kind': 'relay_reject_stall', 'lmtp': lmtp,
                        'pipe': pipe})
    out.append({'kind': 'relay_unsolicited', 'lmtp': 0})
    out.append({'kind': 'relay_unsolicited', 'lmtp': 1})
    out.append({'kind': 'relay_idle_fragment', 'lmtp': 0, 'pipe': 0})
    out.append({'kind': 'relay_idle_fragment', 'lmtp': 1, 'pipe': 1})
    out.append({'kind': 'relay_trickle', 'k': 4})
    out.append({'kind': 'pipe'})
    out.append({'kind': 'http'})
    return out


# what the default socket creators hand out (set per path)
DEFAULT = {}
_REAL = {}


def _coop_create_connection(address, *a, **kw):
    return DEFAULT['coop'](address)


def _blocking_create_connection(address, *a, **kw):
    return DEFAULT['blocking'](address)


def setup(mode):
    quiet_logging()
    # a relay built without socket_creator: gevent's create_connection gives
    # a cooperative socket, the standard library's a blocking one (a read
    # with nothing to read never returns and no timeout can fire)
    import socket as _s
    import gevent.socket as _gs
    if not _REAL:
        _REAL['std'] = _s.create_connection
        _REAL['gevent'] = _gs.create_connection
    _s.create_connection = _blocking_create_connection
    _gs.create_connection = _coop_create_connection
    import slimta.relay.smtp.client as rc
    for name, val in list(vars(rc).items()):
        if val is _REAL['std']:
            setattr(rc, name, _blocking_create_connection)
        elif val is _REAL['gevent']:
            setattr(rc, name, _coop_create_connection)
    import slimta.smtp.server
    import slimta.relay.smtp.static
    import slimta.relay.pipe
    import slimta.relay.http
    import slimta.smtp.client as sc
    sc.wait_read = nc.fake_wait_read


def run(cell):
    return globals()['run_' + cell['kind']](cell)


UNITS = [b'EHLO c\r\n', b'NOOP\r\nRS', b'ET\r\nMAIL FROM:<a@b>\r\n',
         b'RCPT TO:<c@d>\r\n', b'DATA\r\n',
         b'Subject: x\r\n\r\npart one\r\n', b'part two\r\n', b'.\r\nQU',
         b'IT\r\n']
# (index of the unit after which the peer falls silent) -> what must happen
PARTIAL_AFTER = {2: 1, 8: 7}     # unit k-1 ended with a partial command line


def serve(sock, auth=False):
    from slimta.smtp.server import Server
    from slimta.smtp import ConnectionLost
    handlers = Rec(lambda name: None)
    server = Server(sock, handlers, ('10.0.0.1', 1), auth=auth,
                    command_timeout=CMD_T, data_timeout=DATA_T)
    state = {'ended': None, 'at': None}

    def session():
        try:
            server.handle()
            state['ended'] = 'returned'
        except ConnectionLost:
            state['ended'] = 'connection-lost'
        except api.Unsupported:
            raise
        except Exception as e:
            state['ended'] = 'raised:' + type(e).__name__
        state['at'] = qc.now()
    return server, handlers, state, session


def replies_of(sock):
    out = []
    for t, data in sock.sent_log:
        for line in data.split(b'\r\n'):
            if len(line) >= 4 and line[3:4] == b' ':
                out.append((line[0:3], t))
    return out


def run_server_stall(cell):
    import gevent
    qc.fresh_hub()
    qc.patch_env()
    nc.reset()
    client, srv_sock = nc.socketpair()
    server, handlers, state, session = serve(srv_sock)
    k = api.choice('stall_after', len(UNITS) + 1)   # units sent before
    gaps = [api.real('gap%d' % i, 0, CMD_T - 1) for i in range(k)]
    if k > 2:
        # the line cut in two ("RS" + "ET") still arrives within the timeout
        api.assume(gaps[2] < CMD_T - 1)
    sent_at = []

    def peer():
        for i in range(k):
            gevent.sleep(gaps[i])
            client.sendall(UNITS[i])
            sent_at.append(qc.now())
        # ... and now silent forever
    gevent.spawn(session)
    gevent.spawn(peer)
    qc.run_until_quiescent()
    info = dict(stall_after=k)
    if not api.prove(state['ended'] is not None, 'session-never-ended',
                     **info):
        return
    reps = replies_of(srv_sock)
    api.observe('ended', state['ended'])
    in_data = 5 <= k <= 7
    if k == len(UNITS):
        api.prove(state['ended'] == 'returned', 'session-did-not-quit', **info)
        return
    api.prove(len(reps) >= 1 and reps[-1][0] == b'421',
              'no-421-on-timeout', last=[r[0] for r in reps[-2:]], **info)
    last_complete = sent_at[-1] if sent_at else 0
    if in_data:
        t354 = [t for c, t in reps if c == b'354']
        if api.prove(len(t354) == 1, 'no-354', **info):
            api.prove(state['at'] == t354[0] + DATA_T,
                      'data-timeout-not-cumulative', **info)
    else:
        # the command timer starts when the server begins to wait for the
        # next command, i.e. when the last complete command was processed -
        # also when part of the next line arrived in the same segment
        api.prove(state['at'] == last_complete + CMD_T,
                  'command-timeout-not-exact', **info)


def run_server_trickle(cell):
    import gevent
    qc.fresh_hub()
    qc.patch_env()
    nc.reset()
    client, srv_sock = nc.socketpair()
    server, handlers, state, session = serve(srv_sock)
    kk = cell['k']
    where = cell['where']
    prefix = UNITS[:1] if where == 'command' else UNITS[:5]
    limit = CMD_T if where == 'command' else DATA_T
    ds = [api.real('d%d' % i, 0, limit) for i in range(kk)]
    for d in ds:
        api.assume(d > 0)
    marks = {}

    def peer():
        for u in prefix:
            client.sendall(u)
        gevent.sleep(0)
        marks['start'] = qc.now()
        junk = b'NOOPNOOPNOOP' if where == 'command' else b'abcdefghijkl'
        for i in range(kk):
            gevent.sleep(ds[i])
            if client.peer_closed or client.peer.closed:
                return
            try:
                client.sendall(junk[i:i + 1])
            except OSError:
                return
    gevent.spawn(session)
    gevent.spawn(peer)
    qc.run_until_quiescent()
    info = dict(where=where, k=kk)
    if not api.prove(state['ended'] is not None, 'session-never-ended',
                     **info):
        return
    reps = replies_of(srv_sock)
    api.prove(len(reps) >= 1 and reps[-1][0] == b'421', 'no-421-on-timeout',
              **info)
    api.prove(state['at'] == marks['start'] + limit,
              'trickle-extends-the-timeout', **info)


def run_server_auth(cell):
    import gevent
    qc.fresh_hub()
    qc.patch_env()
    nc.reset()
    from .c08 import fake_tls_class
    client, srv_sock = nc.socketpair()
    from gevent.ssl import SSLSocket

    class TlsPipe(SSLSocket):
        def __init__(self, inner):
            self.inner = inner

        def recv(self, n=4096):
            return self.inner.recv(n)

        def sendall(self, d):
            return self.inner.sendall(d)
        send = sendall

        def close(self):
            self.inner.close()

        def unwrap(self):
            return self.inner

        def getpeername(self):
            return ('10.0.0.1', 1)

        def fileno(self):
            return -1

        def __del__(self):
            pass
    tls = TlsPipe(srv_sock)
    server, handlers, state, session = serve(tls, auth=[b'PLAIN', b'LOGIN'])
    mech = [b'AUTH PLAIN\r\n', b'AUTH LOGIN\r\n'][api.choice('mech', 2)]
    marks = {}

    def peer():
        client.sendall(b'EHLO c\r\n')
        gevent.sleep(api.real('gap', 0, CMD_T - 1))
        client.sendall(mech)
        marks['sent'] = qc.now()
        # never answers the 334 challenge
    gevent.spawn(session)
    gevent.spawn(peer)
    qc.run_until_quiescent()
    info = dict(mech=mech.decode().strip())
    if not api.prove(state['ended'] is not None,
                     'session-stalled-in-AUTH-challenge', **info):
        return
    reps = replies_of(srv_sock)
    api.prove(len(reps) >= 1 and reps[-1][0] == b'421', 'no-421-on-timeout',
              **info)
    api.prove(state['at'] <= marks['sent'] + CMD_T + CMD_T,
              'command-timeout-exceeded', **info)


# ------------------------------------------------------------------ relay
def run_relay_stall(cell):
    import gevent
    from .c11 import make_relay, attempt, RC
    from slimta.relay import TransientRelayError
    qc.fresh_hub()
    qc.patch_env()
    nc.reset()
    lmtp, pipe, n = cell['lmtp'], cell['pipe'], cell['n']
    rcpts = RC[:n]
    stages = [('banner', 0), ('LHLO' if lmtp else 'EHLO', 0), ('MAIL', 0)] + \
        [('RCPT', i) for i in range(n)] + [('DATA', 0)] + \
        [('EOD', i) for i in range(n if lmtp else 1)]
    if cell.get('helo'):
        stages[1] = ('HELO', 0)
    which_msg = api.choice('msg', 2) if cell.get('reuse') else 0
    f = api.choice('stall_stage', len(stages) if not which_msg
                   else len(stages) - 2)
    fault = stages[f] if not which_msg else stages[f + 2]
    idx = fault[1] + (1 if which_msg and fault[0] != 'RCPT' else 0)
    if which_msg and fault[0] == 'RCPT':
        idx = fault[1] + n
    over = {(fault[0], idx): ('stall',)}
    if cell.get('helo'):
        over[('EHLO', None)] = ('reply', '500', ['unknown command'])
    ext = ('PIPELINING', '8BITMIME') if pipe else ('8BITMIME',)
    peers = []

    def creator(address):
        p = nc.ScriptedPeer(nc.ok_script(ext, over), lmtp=bool(lmtp))
        peers.append(p)
        return p.start()
    kw = {'idle_timeout': 50} if cell.get('reuse') else {}
    if cell.get('default_creator'):
        import gevent

        class BlockedForever(gevent.GreenletExit):
            pass

        def blocking(address):
            sock = creator(address)

            class Blocking(type(sock)):
                def recv(self, n=4096):
                    if not self.inbuf and not self.peer_closed \
                            and not self.closed:
                        # the whole process would sit in recv() for good
                        raise BlockedForever()
                    return super(Blocking, self).recv(n)
            sock.__class__ = Blocking
            return sock
        DEFAULT['coop'] = creator
        DEFAULT['blocking'] = blocking
        relay = make_relay(lmtp, None, **kw)
    else:
        relay = make_relay(lmtp, creator, **kw)
    outs = [[], []]
    done_at = [None, None]
    t0 = api.real('t_start', 0, 5)

    def go(i, delay):
        gevent.sleep(delay)
        attempt(relay, qc.make_envelope('m%d' % i, 's@z', rcpts), outs[i])
        done_at[i] = qc.now()
    gevent.spawn(go, 0, t0)
    if cell.get('reuse'):
        gevent.spawn(go, 1, t0 + 3)
    qc.run_until_quiescent()
    info = dict(lmtp=lmtp, pipe=pipe, stage=fault, msg=which_msg)
    i = which_msg
    if not api.prove(len(outs[i]) == 1, 'attempt-never-finished', **info):
        return
    kind, val = outs[i][0]
    api.observe('kind', kind)
    api.prove(kind == 'relay-error' and isinstance(val, TransientRelayError),
              'stall-not-reported-as-transient-failure',
              got=type(val).__name__, **info)
    # when did the peer fall silent?  the moment it received the command it
    # does not answer (banner: the connect)
    peer = peers[0]
    t_stall = None
    for t, data in peer.client.sent_log:
        pass
    limit = 20 if fault[0] == 'EOD' else 10      # data_timeout / command
    start = t0 if not which_msg else t0 + 3
    # budget: every step performed before the stalled one completes at once
    # in virtual time, so the attempt must end exactly `limit` after start
    api.prove(done_at[i] == start + limit, 'attempt-outlived-its-timeout',
              **info)


def run_relay_reject_stall(cell):
    """the error paths of a delivery: the peer refuses the sender or every
    recipient (4xx/5xx), answers DATA with 354 or an error, and falls silent
    at a later stage (end of data, RSET, or the next command)"""
    import gevent
    from .c11 import make_relay, attempt, RC
    qc.fresh_hub()
    qc.patch_env()
    nc.reset()
    lmtp, pipe = cell['lmtp'], cell['pipe']
    rcpts = RC[:2]
    what = api.choice('refused', 3)      # MAIL, every RCPT, first RCPT
    code = ['450', '550'][api.choice('code', 2)]
    over = {}
    if what == 0:
        over[('MAIL', None)] = ('reply', code, ['no'])
    elif what == 1:
        over[('RCPT', None)] = ('reply', code, ['no'])
    else:
        over[('RCPT', 0)] = ('reply', code, ['no'])
    if api.choice('data_reply', 2):
        over[('DATA', None)] = ('reply', '503', ['bad sequence'])
    stall = [('EOD', 0), ('RSET', 0), ('QUIT', 0), ('DATA', 0)][
        api.choice('stall_stage', 4)]
    over[stall] = ('stall',)
    ext = ('PIPELINING', '8BITMIME') if pipe else ('8BITMIME',)
    peers = []

    def creator(address):
        p = nc.ScriptedPeer(nc.ok_script(ext, over), lmtp=bool(lmtp))
        peers.append(p)
        return p.start()
    relay = make_relay(lmtp, creator)
    out = []
    done = {}
    t0 = api.real('t_start', 0, 5)

    def go():
        gevent.sleep(t0)
        attempt(relay, qc.make_envelope('m0', 's@z', rcpts), out)
        done['at'] = qc.now()
    gevent.spawn(go)
    qc.run_until_quiescent()
    info = dict(lmtp=lmtp, pipe=pipe, refused=what, code=code,
                stall=stall[0], data_error=('DATA', None) in over)
    if not api.prove(len(out) == 1, 'attempt-never-finished', **info):
        return
    kind, val = out[0]
    api.observe('kind', kind)
    api.prove(kind in ('value', 'relay-error'), 'non-relay-exception',
              got=type(val).__name__, **info)
    # at most one blocking step is outstanding when the peer stalls: the
    # attempt ends within data_timeout (20) of its start if the stalled
    # step is the end-of-data reply, else within command_timeout (10)
    stalled = peers and peers[0].stalled
    api.observe('stalled', bool(stalled))
    if not stalled:
        api.prove(done['at'] == t0, 'attempt-outlived-its-timeout', **info)
    else:
        api.prove(done['at'] <= t0 + 20, 'attempt-outlived-its-timeout',
                  at=done['at'], **info)


def run_relay_unsolicited(cell):
    """every connection the peer accepts takes d < connect timeout to open
    and carries an unsolicited reply right behind the EHLO reply (a server
    announcing that it is about to close, or a stray line)"""
    import gevent
    from .c11 import make_relay, attempt, RC
    qc.fresh_hub()
    qc.patch_env()
    nc.reset()
    lmtp = cell['lmtp']
    extra = [b'421 4.4.2 closing\r\n', b'250 stray\r\n',
             b'451 4.3.0 hiccup\r\n'][api.choice('unsolicited', 3)]
    d = api.real('connect_delay', 0, 10)
    api.assume(d > 0)
    peers = []
    MAXC = 12

    def creator(address):
        if len(peers) >= MAXC:
            raise OSError(111, 'Connection refused')
        gevent.sleep(d)
        over = {('LHLO' if lmtp else 'EHLO', None):
                ('reply', '250', ['hello', '8BITMIME'], extra)}
        p = nc.ScriptedPeer(nc.ok_script(('8BITMIME',), over),
                            lmtp=bool(lmtp))
        p.client.use_fd = True
        peers.append(p)
        return p.start()
    relay = make_relay(lmtp, creator)
    out = []
    done = {}

    def go():
        attempt(relay, qc.make_envelope('m0', 's@z', RC[:1]), out)
        done['at'] = qc.now()
    gevent.spawn(go)
    qc.run_until_quiescent()
    info = dict(lmtp=lmtp, unsolicited=extra.decode().strip(),
                connections=len(peers))
    if not api.prove(len(out) == 1, 'attempt-never-finished', **info):
        return
    kind, val = out[0]
    api.observe('kind', kind)
    api.prove(kind in ('value', 'relay-error'), 'non-relay-exception',
              got=type(val).__name__, **info)
    # one attempt = one connect (10) + banner, EHLO, MAIL, RCPT, DATA (10
    # each) + end of data (20) + RSET, QUIT (10 each): whatever the peer does,
    # the attempt is over after the sum of its steps' timeouts
    api.prove(done['at'] <= 10 + 5 * 10 + 20 + 2 * 10,
              'attempt-outlived-its-timeout', at=done['at'], **info)


def run_relay_idle_fragment(cell):
    """connection reuse: while the connection is idle the server sends part
    of a reply line (no CRLF) and goes silent; the next attempt must still
    end within the command timeout"""
    import gevent
    from .c11 import make_relay, attempt, RC
    from slimta.relay import RelayError
    qc.fresh_hub()
    qc.patch_env()
    nc.reset()
    lmtp, pipe = cell['lmtp'], cell['pipe']
    ext = ('PIPELINING', '8BITMIME') if pipe else ('8BITMIME',)
    peers = []

    def creator(address):
        p = nc.ScriptedPeer(nc.ok_script(ext), lmtp=bool(lmtp))
        p.client.use_fd = True
        peers.append(p)
        return p.start()
    relay = make_relay(lmtp, creator, idle_timeout=50)
    outs = [[], []]
    done = {}
    frag = [b'421 4.4.2 Connection timed', b'4', b'421-bye\r\n421 '][
        api.choice('fragment', 3)]
    t2 = api.real('t_second', 2, 40)

    def first():
        attempt(relay, qc.make_envelope('m0', 's@z', RC[:1]), outs[0])
        gevent.sleep(1)
        peers[0].client._feed(frag)
        peers[0].stalled = True

    def second():
        gevent.sleep(t2)
        attempt(relay, qc.make_envelope('m1', 's@z', RC[:1]), outs[1])
        done['at'] = qc.now()
    gevent.spawn(first)
    gevent.spawn(second)
    qc.run_until_quiescent()
    info = dict(lmtp=lmtp, pipe=pipe, frag=frag.decode())
    api.prove(len(outs[0]) == 1 and outs[0][0][0] == 'value',
              'first-message-failed', **info)
    if not api.prove(len(outs[1]) == 1, 'attempt-never-finished', **info):
        return
    kind, val = outs[1][0]
    api.prove(kind in ('value', 'relay-error'), 'non-relay-exception',
              **info)
    # the stale connection costs at most one command timeout; the request is
    # then served on a fresh connection or fails transiently
    api.prove(done['at'] <= t2 + 10 + 10, 'attempt-outlived-its-timeout',
              **info)


def run_relay_trickle(cell):
    """the peer trickles its banner / a reply one byte per d < timeout"""
    import gevent
    from .c11 import make_relay, attempt, RC
    from slimta.relay import TransientRelayError
    qc.fresh_hub()
    qc.patch_env()
    nc.reset()
    kk = cell['k']
    ds = [api.real('d%d' % i, 0, 10) for i in range(kk)]
    for d in ds:
        api.assume(d > 0)
    where = api.choice('where', 2)      # banner or MAIL reply
    peers = []

    def creator(address):
        over = {('banner', 0) if where == 0 else ('MAIL', 0): ('stall',)}
        p = nc.ScriptedPeer(nc.ok_script(('8BITMIME',), over))
        peers.append(p)
        return p.start()
    relay = make_relay(0, creator)
    out = []
    done = {}

    def go():
        attempt(relay, qc.make_envelope('m', 's@z', RC[:1]), out)
        done['at'] = qc.now()

    def trickler():
        gevent.sleep(0)
        while not peers:
            gevent.sleep(0)
        p = peers[0]
        junk = b'250-slow reply'
        for i in range(kk):
            gevent.sleep(ds[i])
            if p.client.closed:
                return
            p.client._feed(junk[i:i + 1])
    gevent.spawn(go)
    gevent.spawn(trickler)
    qc.run_until_quiescent()
    info = dict(where=where, k=kk)
    if not api.prove(len(out) == 1, 'attempt-never-finished', **info):
        return
    kind, val = out[0]
    api.prove(kind == 'relay-error' and isinstance(val, TransientRelayError),
              'stall-not-reported-as-transient-failure', **info)
    api.prove(done['at'] == 10, 'trickle-extends-the-timeout', **info)


def run_pipe(cell):
    import gevent
    import slimta.relay.pipe as rp
    from .c11 import FakePopen, attempt, RC
    from slimta.relay import TransientRelayError
    qc.fresh_hub()
    qc.patch_env()

    class Sub(object):
        PIPE = -1
        Popen = FakePopen
    rp.subprocess = Sub
    cls = api.choice('cls', 3)
    hang_at = api.choice('hang_at', 2)
    # the program may hang for every later recipient as well: ONE timeout
    # bounds the whole attempt, not each process
    later_hang = api.choice('later_hang', 2)
    calls = []

    def script(args):
        i = len(calls)
        calls.append(args)
        return 0, b'', b'', (i == hang_at or (later_hang and i > hang_at))
    FakePopen.script = staticmethod(script)
    if cls == 0:
        relay = rp.PipeRelay(['deliver', '{recipient}'], timeout=30)
        rcpts = RC[:2]
    elif cls == 1:
        relay = rp.MaildropRelay(timeout=30)
        rcpts = RC[:1]
    else:
        relay = rp.DovecotLdaRelay(timeout=30)
        rcpts = RC[:2]
    out = []
    done = {}

    def go():
        attempt(relay, qc.make_envelope('m', 's@z', rcpts), out)
        done['at'] = qc.now()
    gevent.spawn(go)
    qc.run_until_quiescent()
    info = dict(cls=cls, hang_at=hang_at, later_hang=later_hang)
    if hang_at >= len(rcpts):
        return
    if not api.prove(len(out) == 1, 'attempt-never-finished', **info):
        return
    api.prove(done['at'] == 30, 'attempt-outlived-its-timeout',
              at=done['at'], **info)
    kind, val = out[0]
    if kind == 'value' and isinstance(val, dict):
        api.prove(isinstance(val[rcpts[hang_at]], TransientRelayError),
                  'stall-not-reported-as-transient-failure', **info)
        for r in rcpts[hang_at + 1:]:
            # never reached (or hanging too): not delivered
            api.prove(isinstance(val[r], TransientRelayError),
                      'unreached-recipient-not-reported-as-transient',
                      rcpt=r, **info)
    else:
        api.prove(kind == 'relay-error' and
                  isinstance(val, TransientRelayError),
                  'stall-not-reported-as-transient-failure', **info)


def run_http(cell):
    import gevent
    import slimta.relay.http as rh
    from .c11 import attempt, RC
    from slimta.relay import TransientRelayError
    qc.fresh_hub()
    qc.patch_env()
    where = api.choice('where', 3)

    class FakeConn(object):
        def __init__(self):
            self.closed = False

        def _maybe(self, k):
            if where == k:
                gevent.sleep(100000)

        def putrequest(self, *a):
            pass

        def putheader(self, *a):
            pass

        def endheaders(self, *a):
            self._maybe(0)

        def send(self, *a):
            self._maybe(1)

        def getresponse(self):
            self._maybe(2)
            raise AssertionError('unreachable')

        def close(self):
            self.closed = True
    rh.get_connection = lambda url, context: FakeConn()
    relay = rh.HttpRelay('http://testhost:8025/path', timeout=15,
                         ehlo_as='me')
    out = []
    done = {}

    def go():
        attempt(relay, qc.make_envelope('m', 's@z', RC[:1]), out)
        done['at'] = qc.now()
    gevent.spawn(go)
    qc.run_until_quiescent()
    info = dict(where=where)
    if not api.prove(len(out) == 1, 'attempt-never-finished', **info):
        return
    kind, val = out[0]
    api.prove(kind == 'relay-error' and isinstance(val, TransientRelayError),
              'stall-not-reported-as-transient-failure',
              got=type(val).__name__, **info)
    api.prove(done['at'] == 15, 'attempt-outlived-its-timeout', **info)


def classify(cell, inputs, failure):
    return {'kind': cell['kind']}
