"""Shared environment for the queue-family harnesses (C01 C02 C03 C04 C12 C13
C15 C16): virtual-time gevent hub, scripted relay, storage substrates
(fake redis, fake object store + message queue, fake POSIX file system with
pyaio), deterministic ids.  Everything here is an environment stub and part of
the claims of those checks."""
import copy
import fnmatch
import itertools
import pickle

from symx import api, vloop

_uuid_counter = itertools.count(1)


class CrashPoint(BaseException):
    """Simulated kill -9: raised at the chosen file-system effect."""


class FakeUUIDModule(object):
    class _U(object):
        def __init__(self, n):
            self.hex = 'id%04d' % n

        def __str__(self):
            return self.hex

    def uuid4(self):
        return self._U(next(_uuid_counter))


def reset_ids():
    global _uuid_counter
    _uuid_counter = itertools.count(1)


def fresh_hub():
    """Destroy the current hub/loop (if any) and start a new virtual one."""
    import gevent
    from gevent.hub import _get_hub
    hub = _get_hub()
    if hub is not None:
        try:
            hub.destroy(destroy_loop=True)
        except Exception:
            pass
    vloop.loop.CURRENT = None
    reset_ids()
    hub = gevent.get_hub()
    # engine control exceptions raised inside any greenlet must reach the
    # main greenlet (gevent would print and swallow them otherwise)
    ctl = [CrashPoint, api.PathAbort, api.Unsupported, api.StepBudget,
           vloop.LoopBudget]
    if api.MODE == 'sym':
        from symx.core import EngineError
        ctl.append(EngineError)
    hub.SYSTEM_ERROR = tuple(hub.SYSTEM_ERROR) + tuple(ctl)
    del ERRORS[:]

    def record(context, type, value, tb):
        import traceback
        ERRORS.append({'type': type.__name__, 'value': str(value)[:200],
                       'where': ''.join(traceback.format_tb(tb)[-2:])[-400:],
                       'context': repr(context)[:100]})
    hub.print_exception = record
    YIELDS[0] = 0
    INJECT.clear()
    return hub


ERRORS = []


def run_until_quiescent():
    """Run the loop until no callback and no timer is left."""
    import gevent
    hub = gevent.get_hub()
    hub.join()


def now():
    return vloop.now()


def patch_env():
    """Route time / uuid of the slimta modules to the virtual environment."""
    import time as _time
    shim = vloop.TimeShim(_time)
    fake_uuid = FakeUUIDModule()
    import slimta.queue as q
    import slimta.queue.dict as qd
    q.time = shim
    qd.uuid = fake_uuid
    for name in ('slimta.bounce', 'slimta.redisstorage', 'slimta.diskstorage',
                 'slimta.cloudstorage', 'slimta.policy.headers',
                 'slimta.relay.smtp.mx', 'slimta.edge.smtp',
                 'slimta.edge.wsgi', 'slimta.relay.pool'):
        import sys
        m = sys.modules.get(name)
        if m is None:
            continue
        if hasattr(m, 'time') and not isinstance(m.time, vloop.TimeShim):
            if hasattr(m.time, 'time'):
                m.time = shim
        if hasattr(m, 'uuid'):
            m.uuid = fake_uuid


YIELDS = [0]
INJECT = {}        # yield index -> callable (run inside the yielding op)


def yield_point(latency=None):
    """A blocking substrate operation: other greenlets may run.  Harnesses
    may inject an external event (announcement, flush, ...) at the k-th
    yield of a run: INJECT[k] = fn."""
    import gevent
    k = YIELDS[0]
    YIELDS[0] = k + 1
    fn = INJECT.pop(k, None)
    if fn is not None:
        fn()
    gevent.sleep(0 if latency is None else latency)


# ------------------------------------------------------------ scripted relay
class Outcome(object):
    OK, OK_REPLY, TRANSIENT, PERMANENT, OTHER, MAPPING, SEQUENCE = range(7)
    NAMES = ['none', 'reply', 'transient', 'permanent', 'other-exception',
             'mapping', 'sequence']


class ScriptRelay(object):
    """Relay whose every attempt draws its outcome from `decide(envelope,
    attempts, n_call)`; logs every call with virtual start/finish times."""

    def __init__(self, decide, duration=None):
        from slimta.relay import Relay
        self.decide = decide
        self.duration = duration
        self.calls = []
        self.in_flight = {}
        self.relay_policies = []
        self._base = Relay
        self.mapping_order = 'envelope'

    def _attempt(self, envelope, attempts):
        return self.attempt(envelope, attempts)

    def kill(self):
        pass

    def attempt(self, envelope, attempts):
        from slimta.relay import PermanentRelayError, TransientRelayError
        from slimta.smtp.reply import Reply
        tag = envelope.client.get('tag') if envelope.client else None
        rec = {'tag': tag, 'sender': envelope.sender,
               'rcpts': list(envelope.recipients), 'attempts': attempts,
               'start': now(), 'finish': None, 'n': len(self.calls),
               'outcome': None}
        self.calls.append(rec)
        self.in_flight[tag] = self.in_flight.get(tag, 0) + 1
        rec['concurrent'] = self.in_flight[tag]
        try:
            if self.duration is not None:
                d = self.duration(rec)
                if d is not None:
                    yield_point(d)
            kind, detail = self.decide(rec)
            rec['outcome'] = (kind, detail)
        finally:
            rec['finish'] = now()
            self.in_flight[tag] -= 1
        if kind == Outcome.OK:
            return None
        if kind == Outcome.OK_REPLY:
            return Reply('250', '2.0.0 Delivered')
        if kind == Outcome.TRANSIENT:
            raise TransientRelayError('try later', Reply('450', detail or
                                                         '4.0.0 transient'))
        if kind == Outcome.PERMANENT:
            raise PermanentRelayError('rejected', Reply('550', detail or
                                                        '5.0.0 permanent'))
        if kind == Outcome.OTHER:
            if detail == 'oserror':
                raise OSError(111, 'Connection refused')
            raise RuntimeError('unexpected relay failure')
        # per-recipient: detail = list of 'ok' | ('perm', text) | ('temp', t)
        results = []
        for r in detail:
            if r == 'ok':
                results.append(None)
            elif r[0] == 'perm':
                results.append(PermanentRelayError('rejected',
                                                   Reply('550', r[1])))
            else:
                results.append(TransientRelayError('later',
                                                   Reply('450', r[1])))
        if kind == Outcome.SEQUENCE:
            return results
        pairs = list(zip(envelope.recipients, results))
        if self.mapping_order == 'reversed':
            pairs.reverse()
        return dict(pairs)


# -------------------------------------------------------------- fake redis
class FakeRedis(object):
    """The redis commands RedisStorage uses, each atomic, each preceded by a
    yield (network round trip).  Replies have the types redis-py gives with
    its default decode_responses=False: keys and string values come back as
    bytes, numbers as their decimal text in bytes; a hash command on the list
    key fails with WRONGTYPE.  (Symbolic values are kept as given.)"""

    def __init__(self, yields=True):
        self.h = {}        # key (str) -> dict
        self.lists = {}    # key (str) -> list
        self.yields = yields
        self.blocked = []

    def _y(self):
        if self.yields:
            yield_point()

    @staticmethod
    def _k(key):
        return key.decode('utf-8') if isinstance(key, bytes) else key

    @staticmethod
    def _out(v):
        if isinstance(v, bool):
            return str(int(v)).encode()
        if isinstance(v, str):
            return v.encode('utf-8')
        if isinstance(v, int):
            return str(v).encode()
        if isinstance(v, float):
            return repr(v).encode()
        return v

    def _hash(self, key, create=False):
        key = self._k(key)
        if self.lists.get(key):
            import redis
            raise redis.ResponseError('WRONGTYPE Operation against a key '
                                      'holding the wrong kind of value')
        if create:
            return self.h.setdefault(key, {})
        return self.h.get(key, {})

    def hsetnx(self, key, field, value):
        self._y()
        d = self._hash(key, True)
        if field in d:
            return 0
        d[field] = value
        return 1

    def hset(self, key, field, value):
        self._y()
        self._hash(key, True)[field] = value
        return 1

    def hmset(self, key, mapping):
        self._y()
        self._hash(key, True).update(mapping)
        return True

    def hget(self, key, field):
        self._y()
        return self._out(self._hash(key).get(field))

    def hmget(self, key, *fields):
        self._y()
        d = self._hash(key)
        return [self._out(d.get(f)) for f in fields]

    def hincrby(self, key, field, amount=1):
        self._y()
        d = self._hash(key, True)
        d[field] = int(d.get(field, 0)) + amount
        return d[field]

    def delete(self, key):
        self._y()
        key = self._k(key)
        n = 0
        if key in self.h:
            del self.h[key]
            n += 1
        if key in self.lists:
            del self.lists[key]
            n += 1
        return n

    def keys(self, pattern='*'):
        self._y()
        ks = list(self.h.keys()) + [k for k, v in self.lists.items() if v]
        return [k.encode('utf-8') for k in ks
                if fnmatch.fnmatchcase(k, self._k(pattern))]

    def rpush(self, key, value):
        self._y()
        key = self._k(key)
        self.lists.setdefault(key, []).append(value)
        self._wake()
        return len(self.lists[key])

    def _wake(self):
        for ev in self.blocked:
            ev.set()

    def blpop(self, keys, timeout=0):
        from gevent.event import Event
        while True:
            self._y()
            for k in keys:
                lst = self.lists.get(self._k(k))
                if lst:
                    return (self._k(k).encode('utf-8'), lst.pop(0))
            ev = Event()
            self.blocked.append(ev)
            try:
                ev.wait()
            finally:
                self.blocked.remove(ev)

    def pipeline(self):
        return _FakePipeline(self)


class _FakePipeline(object):
    def __init__(self, r):
        self.r = r
        self.ops = []

    def hmset(self, key, mapping):
        self.ops.append(('hmset', key, dict(mapping)))

    def rpush(self, key, value):
        self.ops.append(('rpush', key, value))

    def execute(self):
        self.r._y()
        y, self.r.yields = self.r.yields, False
        try:
            out = [getattr(self.r, op[0])(*op[1:]) for op in self.ops]
        finally:
            self.r.yields = y
        self.ops = []
        return out


def make_redis_storage(fake):
    import slimta.redisstorage as rs
    st = rs.RedisStorage.__new__(rs.RedisStorage)
    rs.QueueStorage.__init__(st)
    st.redis = fake
    st.prefix = 'slimta:'
    st.queue_key = 'slimta:queue'
    return st


# ------------------------------------------------- fake object store / queue
class FakeObjectStore(object):
    """Object store with the interface CloudStorage relies on.  Like the
    shipped S3 driver (slimta/cloudstorage/aws.py: 'attempts' and
    'delivered_indexes' are written as '' and left out of the meta dict while
    empty) a fresh message's meta holds the timestamp only - which is what
    CloudStorage.get() allows for with meta.get('attempts', 0)."""

    def __init__(self, yields=True):
        self.objs = {}
        self.yields = yields
        self.n = itertools.count(1)

    def _y(self):
        if self.yields:
            yield_point()

    def write_message(self, envelope, timestamp):
        self._y()
        key = 'obj%04d' % next(self.n)
        self.objs[key] = {'env': pickle.dumps(envelope),
                          'meta': {'timestamp': timestamp}}
        return key

    def _get(self, id):
        if id not in self.objs:
            raise KeyError(id)
        return self.objs[id]

    def set_message_meta(self, id, timestamp=None, attempts=None,
                         delivered_indexes=None):
        self._y()
        o = self._get(id)
        if timestamp is not None:
            o['meta']['timestamp'] = timestamp
        if attempts is not None:
            o['meta']['attempts'] = attempts
        if delivered_indexes is not None:
            o['meta']['delivered_indexes'] = copy.deepcopy(delivered_indexes)

    def get_message_meta(self, id):
        self._y()
        return copy.deepcopy(self._get(id)['meta'])

    def get_message(self, id):
        self._y()
        o = self._get(id)
        return pickle.loads(o['env']), copy.deepcopy(o['meta'])

    def delete_message(self, id):
        self._y()
        self._get(id)
        del self.objs[id]

    def list_messages(self):
        self._y()
        return [(o['meta']['timestamp'], k) for k, o in
                sorted(self.objs.items())]


class FakeMessageQueue(object):
    def __init__(self):
        self.msgs = []
        self.n = itertools.count(1)
        from gevent.event import Event
        self.ev = Event()

    def queue_message(self, storage_id, timestamp):
        yield_point()
        self.msgs.append((timestamp, storage_id, next(self.n)))
        self.ev.set()

    def poll(self):
        yield_point()
        out, self.msgs = list(self.msgs), []
        return out

    def delete(self, message_id):
        yield_point()

    def sleep(self):
        self.ev.wait()
        self.ev.clear()


# ------------------------------------------------ fake file system + pyaio
class FakeFS(object):
    """POSIX subset DiskStorage uses.  rename/unlink are atomic; data written
    through aio_write is in the file once the callback fired.  Every effect
    is counted; when the counter reaches `crash_at` the state freezes."""

    def __init__(self, crash_at=None):
        self.files = {}       # path -> bytearray
        self.fds = {}         # fd -> path
        self.nfd = itertools.count(10)
        self.ntmp = itertools.count(1)
        self.effects = 0
        self.crash_at = crash_at
        self.frozen = None
        self.effect_log = []

    def snapshot(self):
        return dict((p, bytes(d)) for p, d in self.files.items())

    def effect(self, what):
        """called BEFORE a file-system effect takes place"""
        if self.frozen is not None:
            raise CrashPoint()
        if self.crash_at is not None and self.effects == self.crash_at:
            self.frozen = self.snapshot()
            self.effect_log.append('CRASH before ' + what)
            raise CrashPoint()
        self.effects += 1
        self.effect_log.append(what)

    # -- os module subset
    O_RDONLY = 0

    class _Path(object):
        @staticmethod
        def join(*a):
            import os
            return os.path.join(*a)

    def lexists(self, path):
        return path in self.files

    def open(self, path, flags=0, mode=0o600):
        if path not in self.files:
            raise FileNotFoundError(2, 'No such file or directory', path)
        fd = next(self.nfd)
        self.fds[fd] = self.files[path]      # open fds survive unlink/rename
        return fd

    def close(self, fd):
        self.fds.pop(fd, None)

    def mkstemp(self, dir=None):
        self.effect('mkstemp')
        path = '%s/tmp%04d' % (dir or '/tmp', next(self.ntmp))
        self.files[path] = bytearray()
        fd = next(self.nfd)
        self.fds[fd] = self.files[path]
        return fd, path

    def rename(self, src, dst):
        self.effect('rename %s' % dst)
        self.files[dst] = self.files.pop(src)

    def remove(self, path):
        if path not in self.files:
            raise FileNotFoundError(2, 'No such file or directory', path)
        self.effect('unlink %s' % path)
        del self.files[path]

    unlink = remove

    def listdir(self, d):
        d = d.rstrip('/') + '/'
        return sorted(p[len(d):] for p in self.files
                      if p.startswith(d) and '/' not in p[len(d):])

    def strerror(self, n):
        return 'error %d' % n

    # -- pyaio subset (completion delivered through the event loop)
    def aio_write(self, fd, data, offset, callback):
        import gevent
        data = bytes(data.tobytes() if hasattr(data, 'tobytes') else data)
        self.effect('write %d bytes' % len(data))
        self._yp()
        f = self.fds[fd]
        if len(f) < offset:
            f.extend(b'\0' * (offset - len(f)))
        f[offset:offset + len(data)] = data
        gevent.get_hub().loop.run_callback(callback, len(data), 0)

    def _yp(self):
        k = YIELDS[0]
        YIELDS[0] = k + 1
        fn = INJECT.pop(k, None)
        if fn is not None:
            fn()

    def aio_read(self, fd, offset, size, callback):
        import gevent
        self._yp()
        f = self.fds[fd]
        buf = bytes(f[offset:offset + size])
        gevent.get_hub().loop.run_callback(callback, buf, len(buf), 0)


class _FakeOS(object):
    def __init__(self, fs):
        import os
        self._fs = fs
        self.path = _FakeOSPath(fs)
        self.O_RDONLY = os.O_RDONLY
        self.strerror = os.strerror

    def __getattr__(self, name):
        return getattr(self._fs, name)


class _FakeOSPath(object):
    def __init__(self, fs):
        self._fs = fs

    def join(self, *a):
        import os
        return os.path.join(*a)

    def lexists(self, p):
        return self._fs.lexists(p)

    exists = lexists


def make_disk_storage(fs, chunk_size=None):
    """DiskStorage over the fake file system (module globals of
    slimta.diskstorage are re-pointed; the storage code itself is real)."""
    import slimta.diskstorage as ds
    ds.os = _FakeOS(fs)
    ds.mkstemp = fs.mkstemp
    ds.aio_read = fs.aio_read
    ds.aio_write = fs.aio_write
    if chunk_size:
        ds.AioFile.chunk_size = chunk_size
    # the keep-awake greenlet (a 1 ms ticker that only exists to wake the
    # real event loop for pyaio's thread callbacks) is disabled: the fake
    # pyaio completes through the loop itself, and a ticker would keep the
    # virtual loop from ever becoming quiescent
    ds.AioFile._start_keep_awake_thread = classmethod(lambda cls: None)
    ds.AioFile._stop_keep_awake_thread = classmethod(lambda cls: None)
    return ds.DiskStorage('/q/env', '/q/meta', '/q/tmp')


class CopyDict(dict):
    """Mapping that stores and returns copies, like a shelve.Shelf (the
    persistent mapping DictStorage is meant to be used with): changing an
    object obtained from it changes nothing until it is stored again."""

    def __setitem__(self, key, value):
        dict.__setitem__(self, key, copy.deepcopy(value))

    def __getitem__(self, key):
        return copy.deepcopy(dict.__getitem__(self, key))


def make_storage(kind, substrate=None):
    """-> (storage, substrate)"""
    if kind == 'dict':
        from slimta.queue.dict import DictStorage
        return DictStorage(), None
    if kind == 'shelf':
        from slimta.queue.dict import DictStorage
        return DictStorage(CopyDict(), CopyDict()), None
    if kind == 'redis':
        sub = substrate or FakeRedis()
        return make_redis_storage(sub), sub
    if kind == 'cloud':
        from slimta.cloudstorage import CloudStorage
        sub = substrate or FakeObjectStore()
        return CloudStorage(sub), sub
    if kind == 'disk':
        sub = substrate or FakeFS()
        return make_disk_storage(sub), sub
    raise ValueError(kind)


def make_envelope(tag, sender, rcpts, body=b'test body\r\n'):
    from slimta.envelope import Envelope
    env = Envelope(sender, list(rcpts))
    env.parse(b'From: ' + (sender or 'nobody').encode() +
              b'\r\nSubject: ' + tag.encode() + b'\r\n\r\n' + body)
    env.client['tag'] = tag
    return env
