"""One queued message driven through a symbolic outcome history on the real
Queue (shared by C01 and C13)."""
from symx import api
from . import qcommon as qc

RCPTS = ['a@x', 'b@x', 'c@y']
REPLIES = {'permA': ('perm', '5.1.1 no such user'),
           'permB': ('perm', '5.2.2 mailbox full'),
           # differs from permA / tempA in the enhanced status code only
           'permC': ('perm', '5.1.2 no such user'),
           'tempC': ('temp', '4.2.1 mailbox busy'),
           'tempA': ('temp', '4.2.0 mailbox busy'),
           'tempB': ('temp', '4.3.0 try again later')}


class RecQueue(object):
    """stand-in bounce queue: records what is handed to enqueue()"""

    def __init__(self):
        self.got = []

    def enqueue(self, envelope):
        self.got.append(envelope)
        return [(envelope, 'bounce%d' % len(self.got))]


def run_history(cell):
    """-> dict(relay, factory_calls, bounces, stored_ids, errors, ...)"""
    import gevent
    from slimta.queue import Queue
    from slimta.bounce import Bounce
    qc.fresh_hub()
    qc.patch_env()
    store, sub = qc.make_storage(cell['backend'])
    n = cell['n']
    R = cell['rounds']
    opts = cell.get('opts', ['ok', 'permA', 'tempA'])
    kinds = cell.get('kinds', ['none', 'reply', 'transient', 'permanent',
                               'other', 'mapping'])
    sender = '' if cell.get('null_sender') else 'sender@z'
    backoff_log = []

    def decide(rec):
        if rec['sender'] == '':
            if rec['tag'] is None:
                # a bounce being delivered (bounce queue = self)
                k = api.choice('bounce_out%d' % rec['n'], 3)
                return [(qc.Outcome.OK, None), (qc.Outcome.PERMANENT, None),
                        (qc.Outcome.TRANSIENT, None)][k]
        k = kinds[api.choice('kind%d' % rec['n'], len(kinds))]
        if k == 'none':
            return qc.Outcome.OK, None
        if k == 'reply':
            return qc.Outcome.OK_REPLY, None
        if k == 'transient':
            return qc.Outcome.TRANSIENT, '4.0.0 whole message deferred'
        if k == 'permanent':
            return qc.Outcome.PERMANENT, '5.0.0 whole message rejected'
        if k == 'other':
            return qc.Outcome.OTHER, None
        if k == 'oserror':
            return qc.Outcome.OTHER, 'oserror'
        detail = []
        for i, r in enumerate(rec['rcpts']):
            o = opts[api.choice('o%d_%d' % (rec['n'], i), len(opts))]
            detail.append('ok' if o == 'ok' else REPLIES[o])
        return (qc.Outcome.SEQUENCE if k == 'sequence'
                else qc.Outcome.MAPPING), detail

    relay = qc.ScriptRelay(decide)

    def backoff(envelope, attempts):
        if attempts >= R:
            w = None
        else:
            b = api.choice('backoff%d_%s' % (attempts, envelope.sender != ''),
                           3 if cell.get('sym_delay') else 2)
            w = None if b == 0 else (0 if b == 1 else
                                     api.real('delay%d' % attempts, 0))
        backoff_log.append((envelope.sender, list(envelope.recipients),
                            attempts, w is not None))
        return w

    factory_calls = []

    def factory(envelope, reply):
        rec = {'rcpts': list(envelope.recipients), 'sender': envelope.sender,
               'code': reply.code, 'message': reply.message, 'bounce': None}
        factory_calls.append(rec)
        if cell.get('factory_none') and api.choice(
                'fnone%d' % len(factory_calls), 2):
            return None
        b = Bounce(envelope, reply, headers_only=bool(cell.get('hdr_only')))
        rec['bounce'] = b
        return b

    recq = None
    kw = {}
    if cell.get('bounce_queue', 'separate') == 'separate':
        recq = RecQueue()
        kw['bounce_queue'] = recq
    bq = None
    got2 = []
    if cell.get('bounce_queue') == 'queue':
        # a real Queue object as the separate bounce queue, constructed (as
        # applications do) before anything is started
        from slimta.queue.dict import DictStorage
        bq = Queue(DictStorage(), qc.ScriptRelay(
            lambda rec: (qc.Outcome.OK, None)))
        orig2 = bq.enqueue

        def enqueue2(envelope):
            got2.append(envelope)
            return orig2(envelope)
        bq.enqueue = enqueue2
        kw['bounce_queue'] = bq
    if cell.get('pools'):
        kw['store_pool'] = 2
        kw['relay_pool'] = 1
    if cell.get('store_pool'):
        kw['store_pool'] = cell['store_pool']
    if cell.get('relay_pool'):
        kw['relay_pool'] = cell['relay_pool']
    if cell.get('rev_map'):
        # the per-recipient mapping lists the recipients in another order
        # than envelope.recipients (a relay that groups by destination)
        relay.mapping_order = 'reversed'
    queue = Queue(store, relay, backoff=backoff, bounce_factory=factory, **kw)
    if cell.get('split'):
        # a splitting queue policy, and a store whose writes take an
        # arbitrary number of scheduler turns (uneven latency)
        from slimta.policy.split import RecipientSplit
        queue.add_policy(RecipientSplit())
        orig_write = store.write
        nwrites = [0]

        def write(envelope, timestamp):
            k = nwrites[0]
            nwrites[0] += 1
            for _ in range(api.choice('wlat%d' % k, 2)):
                qc.yield_point()
            return orig_write(envelope, timestamp)
        store.write = write
    enq = []
    if recq is None and bq is None:
        orig = queue.enqueue

        def enqueue(envelope):
            enq.append(envelope)
            return orig(envelope)
        queue.enqueue = enqueue
    queue.start()
    if bq is not None:
        bq.start()
    qc.run_until_quiescent()
    env = qc.make_envelope('m1', sender, RCPTS[:n],
                           body=b'caf\xc3\xa9 \xff body\r\n.\r\n')
    res = queue.enqueue(env)
    qid = res[0][1]
    qc.run_until_quiescent()
    stored = []

    def lister():
        stored.extend(i for _, i in store.load())
    g = gevent.spawn(lister)
    qc.run_until_quiescent()
    queue.kill()
    if bq is not None:
        bq.kill()
    bounces = list(recq.got) if recq is not None else (
        list(got2) if bq is not None else [e for e in enq if e is not env])
    return {'relay': relay, 'factory_calls': factory_calls,
            'bounces': bounces, 'stored': stored, 'qid': qid, 'result': res,
            'errors': list(qc.ERRORS), 'sender': sender, 'env': env,
            'backoff_log': backoff_log, 'queue': queue,
            'accepted': not isinstance(qid, BaseException)}


def reference(h, rcpts, calls=None):
    """Final disposition each recipient must have, and the bounce groups the
    history calls for, derived from the relay script alone.

    -> (disp: {rcpt: 'delivered'|'failed'|'outstanding'}, groups: list of
        (sorted rcpts, code, message-prefix))"""
    disp = dict((r, 'outstanding') for r in rcpts)
    groups = []
    granted = {}
    for s, rc, attempts, ok in h['backoff_log']:
        if s != '' and (calls is None or rc == list(rcpts)):
            granted[attempts] = ok
    n_fail = 0
    if calls is None:
        calls = [c for c in h['relay'].calls if c['tag'] == 'm1']
    for c in calls:
        kind, detail = c['outcome']
        cur = c['rcpts']
        temps = []
        if kind in (qc.Outcome.OK, qc.Outcome.OK_REPLY):
            for r in cur:
                disp[r] = 'delivered'
            continue
        if kind == qc.Outcome.PERMANENT:
            for r in cur:
                disp[r] = 'failed'
            groups.append((sorted(cur), '550', detail))
            continue
        if kind in (qc.Outcome.TRANSIENT, qc.Outcome.OTHER):
            n_fail += 1
            msg = detail if kind == qc.Outcome.TRANSIENT else (
                '4.0.0 Unhandled delivery error: ' +
                ('[Errno 111] Connection refused' if detail == 'oserror'
                 else 'unexpected relay failure'))
            if not granted.get(n_fail, False):
                for r in cur:
                    disp[r] = 'failed'
                groups.append((sorted(cur), '450',
                               msg + ' (Too many retries)'))
            continue
        perm = {}
        temp = {}
        for r, o in zip(cur, detail):
            if o == 'ok':
                disp[r] = 'delivered'
            elif o[0] == 'perm':
                disp[r] = 'failed'
                perm.setdefault(o[1], []).append(r)
            else:
                temp.setdefault(o[1], []).append(r)
        for msg, rs in perm.items():
            groups.append((sorted(rs), '550', msg))
        if temp:
            n_fail += 1
            if not granted.get(n_fail, False):
                for msg, rs in temp.items():
                    for r in rs:
                        disp[r] = 'failed'
                    groups.append((sorted(rs), '450',
                                   msg + ' (Too many retries)'))
    return disp, groups
