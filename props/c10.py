"""C10 - the pipelining client pairs every reply with the command that caused
it and never reads past the last reply it is owed.

Real code executed: Client.* / LmtpClient.* command methods, _flush_pipeline,
get_reply, Reply.recv, IO.recv_reply/buffered_recv/flush_send/send_command,
DataSender, Extensions.parse_string.
"""
from symx import api
from symx.api import And, Or, Not
from .common import OverRead, quiet_logging

PROPERTY = 'C10'
EXPECT_ENTERED = ['Client._flush_pipeline', 'Client.mailfrom', 'Client.rcptto',
                  'Client.send_data', 'Client.ehlo', 'LmtpClient.send_data',
                  'LmtpClient.rcptto', 'LmtpClient.lhlo', 'IO.recv_reply',
                  'Reply.recv', 'Extensions.parse_string']
BOUNDS = {
    'quick': 'client programs: (A) banner EHLO MAIL RCPTxn DATA content QUIT, '
             '(B) ... RCPT RSET MAIL RCPT DATA empty-content QUIT, (D) ... RCPT '
             'DATA(refused) MAIL RCPT DATA content QUIT without RSET, (C) custom '
             'command + NOOP + MAIL + RSET + QUIT, (E) pipelined MAIL RCPT '
             'RCPT RSET where any ONE of the four replies is a malformed '
             'single line (code 6xx..9xx: BadReply) and the caller goes on '
             'with QUIT; n<=2 recipients (LMTP also '
             'the same address twice); SMTP and '
             'LMTP; PIPELINING advertised or not; any ONE reply of the script '
             'is symbolic (3-digit code, first digit 2..5, 1..3 lines of one '
             'symbolic printable character each; EHLO: one line + the '
             'extension lines), the others are the usual success replies; '
             'the reply stream is cut at any one position inside or next to '
             'the symbolic reply; the scripted server only releases a reply '
             'once the command that causes it has been received',
    'thorough': 'n<=3 recipients, 2 symbolic characters per line of the one '
                'symbolic reply; plus any TWO replies symbolic (1 character '
                'per line) for program A with one recipient',
}
OUTSIDE = 'AUTH and STARTTLS exchanges (C08); more recipients / lines'
STUBS = ['ScriptedServer socket (SMTP/LMTP framing automaton: one scripted '
         'reply per command line, DATA content consumed up to the lone dot '
         'when the scripted DATA reply is 354, LMTP: one end-of-data reply '
         'per RCPT it answered with 2xx)', 'slimta.logging -> no-ops']
ASSUMPTIONS = ['reply text first characters are not white space']
CELL_BUDGET_S = {'quick': 240, 'thorough': 1500}
SAMPLE_P = 0.02
MAX_WITNESSES = 10
MAX_DECISIONS = 40000


def cells(tier):
    out = []
    q = tier == 'quick'
    for lmtp in (0, 1):
        for pipe in (0, 1):
            for prog in ('A', 'B', 'C', 'D'):
                for n in ((1, 2) if q else (1, 2, 3)):
                    if prog in ('C', 'D') and n > 1:
                        continue
                    out.append({'prog': prog, 'lmtp': lmtp, 'pipe': pipe,
                                'n': n, 'c': 1, 'chars': 1 if q else 2,
                                'nsym': 1})
            if not q:
                # two symbolic replies at once (one character per line)
                out.append({'prog': 'A', 'lmtp': lmtp, 'pipe': pipe, 'n': 1,
                            'c': 1, 'chars': 1, 'nsym': 2})
    # more commands in flight than any fixed-size buffer would hold
    out.append({'prog': 'A', 'lmtp': 0, 'pipe': 1, 'n': 102, 'c': 0,
                'chars': 1, 'nsym': 1})
    for lmtp in (0, 1):
        # program E: one MALFORMED reply (code outside 1xx..5xx) among the
        # pipelined MAIL RCPT RCPT RSET replies raises BadReply; the caller
        # goes on with QUIT and every later reply must still reach the
        # object of its own command
        out.append({'prog': 'E', 'lmtp': lmtp, 'pipe': 1, 'n': 2, 'c': 1,
                    'chars': 1, 'nsym': 1})
    for pipe in (0, 1):
        # the same address given to RCPT twice (LMTP owes one end-of-data
        # reply per accepted RCPT command, not per distinct address)
        out.append({'prog': 'A', 'lmtp': 1, 'pipe': pipe, 'n': 2, 'c': 1,
                    'chars': 1, 'nsym': 1, 'dup': 1})
    return out


def setup(mode):
    quiet_logging()
    import slimta.smtp.client


class ScriptedServer(object):
    """fake peer: releases scripted replies as their commands arrive"""

    def __init__(self, lmtp, make_reply, cuts):
        self.lmtp = lmtp
        self.make_reply = make_reply     # (index, kind) -> (code, [lines])
        self.inbuf = b''
        self.mode = 'cmd'
        self.out = b''                   # released, unread reply bytes
        self.released = 0                # total bytes released so far
        self.read = 0
        self.cuts = sorted(cuts)
        self.script = []                 # [(kind, code, lines)]
        if not hasattr(self, 'cut_hook'):
            self.cut_hook = None
        self.accepted = 0
        self.overread = False
        self._release('banner')

    def _release(self, kind):
        code, lines = self.make_reply(len(self.script), kind)
        self.script.append((kind, code, lines))
        wire = b''
        for i, ln in enumerate(lines):
            sep = b' ' if i == len(lines) - 1 else b'-'
            wire = wire + code.encode('ascii') + sep + ln.encode('utf-8') + \
                b'\r\n'
        if self.cut_hook is not None:
            self.cut_hook(self, len(self.script) - 1, len(wire))
        self.out = self.out + wire
        self.released += len(wire)
        return code

    def sendall(self, data):
        self.inbuf = self.inbuf + data
        while True:
            i = self.inbuf.find(b'\n')
            if i < 0:
                return
            line, self.inbuf = self.inbuf[:i + 1], self.inbuf[i + 1:]
            if self.mode == 'data':
                if line in (b'.\r\n', b'.\n'):
                    self.mode = 'cmd'
                    k = self.accepted if self.lmtp else 1
                    for _ in range(k):
                        self._release('eod')
                    self.accepted = 0
                continue
            verb = line.split(None, 1)[0].upper() if line.strip() else b''
            code = self._release(verb.decode('ascii', 'replace'))
            if verb == b'DATA' and api.decide(code == '354'):
                self.mode = 'data'
            elif verb == b'RCPT' and api.decide(code[0:1] == '2'):
                self.accepted += 1
            elif verb in (b'RSET', b'LHLO', b'EHLO'):
                self.accepted = 0
            elif verb == b'MAIL' and api.decide(code[0:1] == '2'):
                # an accepted MAIL starts a new transaction with an empty
                # forward-path buffer (RFC 5321 4.1.1.2)
                self.accepted = 0

    send = sendall

    def recv(self, n=4096):
        if len(self.out) == 0:
            self.overread = True
            raise OverRead('client reads a reply it is not owed')
        k = len(self.out)
        for c in self.cuts:
            if self.read < c < self.read + k:
                k = c - self.read
                break
        chunk, self.out = self.out[:k], self.out[k:]
        self.read += len(chunk)
        return chunk

    def fileno(self):
        return -1

    def getpeername(self):
        return ('192.0.2.1', 25)

    def close(self):
        pass


def run(cell):
    from slimta.smtp.client import Client, LmtpClient
    from slimta.smtp.reply import Reply
    lmtp, pipe, n = cell['lmtp'], cell['pipe'], cell['n']
    nch = cell['chars']
    # which replies are symbolic (the others: the usual success replies)
    nsym = cell.get('nsym', 2)
    sym_at = set()
    lo = 0
    if cell['prog'] == 'E':
        sym_at.add(2 + api.choice('bad_at', 4))
        nsym = 0
    for j in range(nsym):
        k = lo + api.choice('sym_at%d' % j, 12 - lo)
        sym_at.add(k)
        lo = k + 1
        if lo >= 12:
            break
    DEFAULT = {'banner': '220', 'DATA': '354', 'QUIT': '221'}
    seen_data = []

    def make_reply(i, kind):
        if i in sym_at:
            code = api.sstr('c%d_0' % i, 1, 0x32, 0x35) + \
                api.sstr('c%d_12' % i, 2, 0x30, 0x39)
            if cell['prog'] == 'E':
                code = api.sstr('c%d_0' % i, 1, 0x36, 0x39) + \
                    api.sstr('c%d_12' % i, 2, 0x30, 0x39)
            nlines = 1 if kind in ('EHLO', 'LHLO') or cell['prog'] == 'E' \
                else 1 + api.choice('nl%d' % i, 3)
            lines = [api.sstr('t%d_%d' % (i, j), nch, 0x21, 0x7e)
                     for j in range(nlines)]
        else:
            code = DEFAULT.get(kind, '250')
            if cell['prog'] == 'D' and kind == 'DATA' and not seen_data:
                seen_data.append(1)
                code = '554'
            lines = ['ok %d' % i]
        if kind in ('EHLO', 'LHLO'):
            lines.append('SIZE 1000')
            if pipe:
                lines.append('PIPELINING')
        return code, lines

    # cut positions: every offset inside / next to a symbolic reply
    cuts = []

    def cut_hook(srv, index, wire_len):
        if index in sym_at and len(cuts) < cell['c']:
            off = api.choice('cut%d' % len(cuts), wire_len + 3)
            cuts.append(srv.released + off - 1)
            srv.cuts = sorted(cuts)
    ScriptedServer.cut_hook_default = None
    srv = ScriptedServer.__new__(ScriptedServer)
    srv.cut_hook = cut_hook
    ScriptedServer.__init__(srv, lmtp, make_reply, cuts)
    client = (LmtpClient if lmtp else Client)(srv, ('192.0.2.1', 25))
    got = []          # (script kind expected, Reply object, options)
    rcpts = ['r%d@x' % (0 if cell.get('dup') else i) for i in range(n)]
    lm_pairs = []
    info = dict(prog=cell['prog'], lmtp=lmtp, pipe=pipe, n=n, cuts=cuts)
    try:
        got.append(('banner', client.get_banner(), 'noesc'))
        hello = client.lhlo if lmtp else client.ehlo
        got.append(('LHLO' if lmtp else 'EHLO', hello('me'), 'ehlo'))
        if cell['prog'] == 'E':
            _prog_e(client, srv, sym_at, rcpts, info)
            return
        if cell['prog'] == 'C':
            got.append(('XCUSTOM', client.custom_command(b'XCUSTOM', b'arg'),
                        ''))
            got.append(('NOOP', client.custom_command(b'NOOP'), ''))
            got.append(('MAIL', client.mailfrom('s@z'), ''))
            got.append(('RSET', client.rset(), ''))
            got.append(('QUIT', client.quit(), ''))
        else:
            got.append(('MAIL', client.mailfrom('s@z', 10), ''))
            for r in rcpts:
                got.append(('RCPT', client.rcptto(r), ''))
            if cell['prog'] == 'B':
                got.append(('RSET', client.rset(), ''))
                got.append(('MAIL', client.mailfrom('s2@z'), ''))
                got.append(('RCPT', client.rcptto(rcpts[0]), ''))
            if cell['prog'] == 'D':
                # DATA is refused; the client starts over without RSET
                d1 = client.data()
                # (a symbolic first DATA reply of 354 is program A's case)
                api.assume(d1.code != '354')
                got.append(('DATA', d1, ''))
                m2 = client.mailfrom('s2@z')
                got.append(('MAIL', m2, ''))
                got.append(('RCPT', client.rcptto('other@x'), ''))
            d = client.data()
            if cell['prog'] == 'D':
                # a client that goes on after a refused second MAIL is not
                # a case the property speaks about
                api.assume(m2.code[0:1] == '2')
            got.append(('DATA', d, ''))
            if api.decide(d.code == '354'):
                if cell['prog'] == 'B':
                    res = client.send_empty_data()
                else:
                    res = client.send_data(b'Subject: x\r\n\r\n',
                                           b'.dot\r\nbody\r\n')
                if lmtp:
                    lm_pairs = list(res)
                    for addr, rep in res:
                        got.append(('eod', rep, ''))
                else:
                    got.append(('eod', res, ''))
            got.append(('QUIT', client.quit(), ''))
    except OverRead:
        api.fail('client-read-past-owed-replies', at=len(got), **info)
        return
    except Exception as e:
        api.fail('client-raised', exc=type(e).__name__, msg=str(e)[:120],
                 at=len(got), **info)
        return
    script = srv.script
    api.observe('kinds', [k for k, _, _ in script])
    if not api.prove(len(script) == len(got), 'reply-count-mismatch',
                     script=[k for k, _, _ in script],
                     got=[k for k, _, _ in got], **info):
        return
    last_err = None
    for i, ((kind, rep, opt), (skind, code, lines)) in enumerate(
            zip(got, script)):
        rinfo = dict(index=i, kind=kind, **info)
        if not api.prove(kind == skind, 'reply-paired-with-wrong-command',
                         server_kind=skind, **rinfo):
            return
        ref = Reply(command=rep.command)
        if opt in ('noesc', 'ehlo'):
            ref.enhanced_status_code = False
        ref.code = code
        ref.message = api.join('\r\n', lines)
        want_msg = ref.message
        if opt == 'ehlo' and api.decide(code == '250'):
            want_msg = lines[0]
        if not api.prove(rep.code is not None, 'reply-never-filled',
                         **rinfo):
            continue
        api.prove(rep.code == code, 'reply-code-mismatch', **rinfo)
        api.prove(rep.message == want_msg, 'reply-text-mismatch', **rinfo)
        if api.decide(Or(code[0:1] == '4', code[0:1] == '5')):
            last_err = rep
    api.prove(client.last_error is last_err, 'last-error-wrong', **info)
    api.prove(len(srv.out) == 0 and len(client.io.recv_buffer) == 0,
              'replies-left-unread', **info)
    if lmtp and lm_pairs:
        # data replies pair, in order, with the recipients answered 2xx
        rc = [(k, c) for (k, c, l) in script]
        # recipients of the last transaction, in order of RCPT commands
        last_mail = max(i for i, (k, c) in enumerate(rc) if k == 'MAIL')
        rcpt_codes = [c for k, c in rc[last_mail:] if k == 'RCPT']
        sent = rcpts[:len(rcpt_codes)]
        if cell['prog'] == 'D':
            sent = ['other@x']
        want = [a for a, c in zip(sent, rcpt_codes)
                if api.decide(c[0:1] == '2')]
        api.prove([a for a, _ in lm_pairs] == want,
                  'lmtp-data-replies-paired-with-wrong-recipients',
                  got=[a for a, _ in lm_pairs], want=want, **info)


def _prog_e(client, srv, sym_at, rcpts, info):
    from slimta.smtp import BadReply
    bad = list(sym_at)[0]
    objs = {2: client.mailfrom('s@z'), 3: client.rcptto(rcpts[0]),
            4: client.rcptto(rcpts[1])}
    raised = 0
    try:
        objs[5] = client.rset()
    except BadReply:
        raised += 1
    try:
        objs[6] = client.quit()
    except BadReply:
        raised += 1
    script = srv.script
    api.observe('kinds', [k for k, _, _ in script])
    api.prove(raised == 1, 'malformed-reply-not-reported-once', bad=bad,
              raised=raised, **info)
    if not api.prove(len(script) == 7, 'reply-count-mismatch',
                     script=[k for k, _, _ in script], **info):
        return
    for i in sorted(objs):
        if i == bad:
            continue
        rep = objs[i]
        kind, code, lines = script[i]
        rinfo = dict(index=i, kind=kind, bad=bad, **info)
        if not api.prove(rep.code is not None, 'reply-never-filled',
                         **rinfo):
            continue
        api.prove(rep.code == code, 'reply-code-mismatch', **rinfo)
        api.prove(rep.message.endswith(lines[-1]), 'reply-text-mismatch',
                  **rinfo)
    api.prove(len(srv.out) == 0 and len(client.io.recv_buffer) == 0,
              'replies-left-unread', bad=bad, **info)


def classify(cell, inputs, failure):
    return {'prog': cell['prog'], 'lmtp': cell['lmtp']}
