"""C18 - PROXY protocol headers are parsed exactly and never over-read.

Real code executed symbolically: every function of slimta/util/proxyproto.py
(ProxyProtocolV1.__read_pp_line / parse_pp_line / __get_pp_family / __get_pp_ip
/ __get_pp_port / process_pp_v1 / handle, ProxyProtocolV2.__read_pp_data /
__parse_pp_data / __parse_pp_addresses / process_pp_v2 / handle,
ProxyProtocol.__read_pp_initial / handle), mixed into a recording edge.

The oracle is a reference decoder written from the PROXY protocol
specification (haproxy proxy-protocol.txt 2.1/2.2), run on the same symbolic
bytes.  Where the specification leaves room (leading zeros in numbers) the
reference accepts either answer.
"""
import socket

from symx import api
from symx.api import And, Or, Not
from .common import quiet_logging

PROPERTY = 'C18'
EXPECT_ENTERED = ['ProxyProtocolV1.__read_pp_line', 'ProxyProtocolV1.parse_pp_line',
                  'ProxyProtocolV1.__get_pp_ip', 'ProxyProtocolV1.__get_pp_port',
                  'ProxyProtocolV2.__read_pp_data', 'ProxyProtocolV2.__parse_pp_data',
                  'ProxyProtocolV2.__parse_pp_addresses', 'ProxyProtocolV2.process_pp_v2',
                  'ProxyProtocol.__read_pp_initial', 'ProxyProtocol.handle',
                  'ProxyProtocolV1.handle', 'ProxyProtocolV2.handle']
BOUNDS = {
    'quick': 'v2: all 16 header bytes symbolic, declared length <= 48 (every '
             'value), all address bytes and 2 payload bytes symbolic, full '
             'reads; UNIX family with length 214..218 (12 symbolic bytes at '
             'the field boundaries, the rest concrete); truncation at every '
             'position of 2 valid headers; one short read (every call index, '
             'every size) over 3 valid headers. v1: TCP4 lines with symbolic '
             'digits (3 length configurations), every single-byte corruption '
             '(position x 256 values) of 5 valid lines (incl. TCP6 with a '
             'zone-id-shaped corruption in reach and an IPv4-mapped address), '
             'truncation at every position, one short read at every call, 8 '
             'arbitrary leading bytes through the version detector; two '
             'connections, the second header read entirely while the first '
             'waits inside any one of its reads (every read, one short read)',
    'thorough': 'v2 declared length <= 80 and 214..224, two short reads; v1 '
                'corruptions of 7 valid lines, two corrupted '
                'bytes on the short TCP4 line, two short reads',
}
OUTSIDE = ('IPv6 text is concrete except for one corrupted character '
           '(inet_pton(AF_INET6) is called natively on the concretised text); '
           'headers longer than the stated declared lengths; more than two '
           'short reads per header; more than two concurrent connections or '
           'more than one switch between them')
STUBS = ['PPSocket.recv_into (in-memory stream; returns min(requested, '
         'available) or the scripted short read; 0 at EOF)',
         'PPSocket hook: another connection is driven to completion inside '
         'one recv_into call (a greenlet switch at the only yield point)',
         'str() of a text with one symbolic character entering stdlib code '
         '= fork over its feasible values',
         'struct.unpack exact model', 'inet_pton(AF_INET) exact glibc model '
         '(strict dotted quad; ValueError on NUL)', 'inet_ntop = injective '
         'opaque function of the packed bytes', 'int(bytes) exact model',
         'slimta.logging -> no-ops']
ASSUMPTIONS = ['recv_into never returns more than requested',
               'the documented module constants unknown_pp_* and invalid_pp_* '
               'are set to different values',
               'reference decoder follows proxy-protocol.txt: unassigned '
               'v2 command / family+protocol values and non-digit port '
               'characters are malformed']
CELL_BUDGET_S = {'quick': 200, 'thorough': 2400}
SAMPLE_P = 0.02
MAX_DECISIONS = 60000

SIG = b'\r\n\r\n\x00\r\nQUIT\n'
# the two documented module constants are given different values, so that
# "accepted as UNKNOWN" and "invalid" can be told apart
INVALID = ('invalid-src', 1)
UNKNOWN = ('unknown-src', 2)

V1_LINES = [
    b'PROXY TCP4 1.2.3.4 5.6.7.8 80 25\r\n',
    b'PROXY UNKNOWN\r\n',
    b'PROXY TCP6 ::1 fe80::2:34 65535 0\r\n',
    b'PROXY TCP4 255.255.255.255 255.255.255.255 65535 65535\r\n',
    b'PROXY TCP6 ::ffff:10.1.2.3 64:ff9b::a01:203 1 2\r\n',
    b'PROXY UNKNOWN ffff:f...f:ffff ffff:f...f:ffff 65535 65535\r\n',
    b'PROXY TCP6 ffff:ffff:ffff:ffff:ffff:ffff:ffff:ffff '
    b'ffff:ffff:ffff:ffff:ffff:ffff:ffff:ffff 65535 65535\r\n',
]


def v2_header(fam, proto, body, cmd=1):
    n = len(body)
    return SIG + bytes([0x20 | cmd, (fam << 4) | proto, n >> 8, n & 255]) + \
        body


V2_HEADERS = [
    v2_header(1, 1, bytes([1, 2, 3, 4, 5, 6, 7, 8, 0, 80, 0, 25])),
    v2_header(1, 1, bytes([1, 2, 3, 4, 5, 6, 7, 8, 0, 80, 0, 25]) +
              b'\x03\x00\x02hi'),
    v2_header(2, 1, bytes(range(16)) + bytes(range(16, 32)) +
              bytes([1, 187, 0, 25])),
    v2_header(0, 0, b''),
]


def cells(tier):
    q = tier == 'quick'
    out = []
    # --- v2 content
    lmax = 48 if q else 80
    out.append({'kind': 'v2sig'})
    for fam in (0, 1, 2, 3, 'other'):
        out.append({'kind': 'v2', 'fam': fam, 'lmin': 0, 'lmax': lmax})
    out.append({'kind': 'v2', 'fam': 3, 'lmin': 214, 'lmax': 218 if q else 224,
                'sparse': [0, 1, 105, 106, 107, 108, 109, 213, 214, 215, 216,
                           217]})
    for i in range(len(V2_HEADERS) if not q else 2):
        out.append({'kind': 'v2trunc', 'hdr': i})
    for i in range(3):
        out.append({'kind': 'v2short', 'hdr': i, 'k': 1, 'via': 'v2'})
        out.append({'kind': 'v2short', 'hdr': i, 'k': 1, 'via': 'detect'})
        if not q:
            out.append({'kind': 'v2short', 'hdr': i, 'k': 2, 'via': 'v2'})
    # --- v1
    for cfg in ([1, 1, 1, 1, 1], [3, 2, 1, 3, 5], [2, 3, 3, 1, 4]):
        out.append({'kind': 'v1digits', 'cfg': cfg})
    nlines = 5 if q else 7
    for i in range(nlines):
        out.append({'kind': 'v1corrupt', 'line': i, 'k': 1, 'via': 'v1'})
        out.append({'kind': 'v1trunc', 'line': i})
        out.append({'kind': 'v1short', 'line': i, 'k': 1,
                    'via': 'v1' if i % 2 == 0 else 'detect'})
    out.append({'kind': 'v1corrupt', 'line': 0, 'k': 1, 'via': 'detect'})
    if not q:
        out.append({'kind': 'v1corrupt', 'line': 0, 'k': 2, 'via': 'v1'})
        out.append({'kind': 'v1short', 'line': 0, 'k': 2, 'via': 'v1'})
        out.append({'kind': 'v1short', 'line': 2, 'k': 2, 'via': 'detect'})
    out.append({'kind': 'v1pair', 'a': 0, 'b': 3, 'via': 'v1'})
    out.append({'kind': 'v1pair', 'a': 2, 'b': 0, 'via': 'detect'})
    # two connections whose 8-byte signatures differ ('PROXY TC' / 'PROXY
    # UN'): state shared between connections during auto-detection shows
    out.append({'kind': 'v1pair', 'a': 0, 'b': 1, 'via': 'detect'})
    out.append({'kind': 'v1pair', 'a': 1, 'b': 0, 'via': 'detect'})
    out.append({'kind': 'detect8'})
    return out


def setup(mode):
    quiet_logging()
    from slimta.util import proxyproto as pp
    pp.invalid_pp_source_address = INVALID
    pp.invalid_pp_dest_address = ('invalid-dst', 1)
    pp.unknown_pp_source_address = UNKNOWN
    pp.unknown_pp_dest_address = ('unknown-dst', 2)


# ----------------------------------------------------------------- stubs
class PPSocket(object):
    def __init__(self, stream, shorts=None):
        self.stream = stream
        self.pos = 0
        self.calls = 0
        self.shorts = shorts or {}
        self.hooks = None

    def recv_into(self, view, nbytes=0):
        i = self.calls
        self.calls += 1
        avail = len(self.stream) - self.pos
        r = min(nbytes or len(view), avail, len(view))
        if r <= 0:
            return 0
        hook = self.hooks.pop(i, None) if self.hooks else None
        if hook is not None:
            hook()          # another connection runs while this one waits
        lim = self.shorts.get(i)
        if lim is not None and lim < r:
            r = lim
        view[0:r] = self.stream[self.pos:self.pos + r]
        self.pos += r
        return r


class Rec(object):
    called = None

    def handle(self, sock, addr):
        self.called = (addr, sock.pos)


def drive(via, sock):
    from slimta.util import proxyproto as pp
    base = {'v1': pp.ProxyProtocolV1, 'v2': pp.ProxyProtocolV2,
            'detect': pp.ProxyProtocol}[via]
    edge = type('T', (base, Rec), {})()
    try:
        edge.handle(sock, ('9.9.9.9', 9))
    except api.Unsupported:
        raise
    except Exception as e:
        return ('exc', type(e).__name__, sock.pos)
    if edge.called is None:
        return ('dropped', None, sock.pos)
    return ('handled', edge.called[0], edge.called[1])


def ntop(family, packed):
    """expected text form of a packed address"""
    if api.MODE == 'sym' and api.is_sseq(packed):
        from symx.rt import OpaqueText
        return OpaqueText(family, packed)
    return socket.inet_ntop(family, bytes(packed))


def eq_addr(a, b):
    if a is None or b is None:
        return a is b
    if isinstance(a, tuple) != isinstance(b, tuple):
        return False
    if isinstance(a, tuple):
        if len(a) != len(b):
            return False
        return And(*[eq_addr(x, y) for x, y in zip(a, b)])
    if isinstance(a, str) and not isinstance(b, str) and b is not None:
        return b == a
    return a == b


def shorts_choice(ncalls_hint, k, maxreq):
    """k short reads: call index and size by forking"""
    shorts = {}
    for j in range(k):
        i = api.choice('short_at%d' % j, ncalls_hint)
        r = 1 + api.choice('short_len%d' % j, maxreq)
        shorts[i] = r
    return shorts


# ------------------------------------------------------------ reference v2
def ref_v2(hdr, body):
    """-> (kind, addr, consumed): kind in handled/dropped/either-dropped;
    consumed None = 'at most 16 + declared length'."""
    d = api.decide
    if not d(hdr[0:12] == SIG):
        return ('invalid', None, None)
    b12, b13 = hdr[12], hdr[13]
    ln = hdr[14] * 256 + hdr[15]
    if not d(And(b12 >= 0x20, b12 <= 0x2f)):
        return ('invalid', None, None)
    cmd = b12 - 0x20
    if d(cmd == 0):
        # LOCAL: receiver discards the block; dropped (the implementation
        # parses the address block first, so a short block may also be
        # reported as invalid)
        return ('local', None, 16 + ln)
    if not d(cmd == 1):
        return ('invalid', None, None)
    fam = b13 // 16
    proto = b13 % 16
    if d(fam == 0):
        if d(proto == 0):
            return ('handled', UNKNOWN, 16 + ln)
        if d(proto <= 2):
            # AF_UNSPEC with STREAM / DGRAM: not in the table of the
            # specification; treating it as UNSPEC is tolerated
            return ('either', UNKNOWN, 16 + ln)
        return ('invalid', None, None)
    if d(fam > 3):
        return ('invalid', None, None)
    if not d(Or(proto == 1, proto == 2)):
        return ('invalid', None, None)
    if d(fam == 1):
        if d(ln < 12):
            return ('invalid', None, None)
        src = (ntop(socket.AF_INET, body[0:4]), body[8] * 256 + body[9])
        return ('handled', src, 16 + ln)
    if d(fam == 2):
        if d(ln < 36):
            return ('invalid', None, None)
        src = (ntop(socket.AF_INET6, body[0:16]),
               body[32] * 256 + body[33])
        return ('handled', src, 16 + ln)
    if d(ln < 216):
        return ('invalid', None, None)
    src = body[0:108].rstrip(b'\x00')
    return ('handled', src, 16 + ln)


def judge(got, ref, info, maxlen):
    kind, addr, consumed = ref
    api.observe('got', [got[0], got[2]])
    if not api.prove(got[0] != 'exc', 'exception-escaped', exc=got[1],
                     **info):
        return
    api.prove(got[2] <= maxlen, 'over-read', **info)
    if kind == 'invalid':
        api.prove(And(got[0] == 'handled', eq_addr(got[1], INVALID)),
                  'malformed-not-invalid', outcome=got[0], **info)
    elif kind == 'local':
        api.prove(Or(got[0] == 'dropped',
                     And(got[0] == 'handled', eq_addr(got[1], INVALID))),
                  'local-not-dropped', outcome=got[0], **info)
    elif kind == 'either':
        api.prove(Or(And(got[0] == 'handled', eq_addr(got[1], INVALID)),
                     And(got[0] == 'handled', eq_addr(got[1], addr),
                         got[2] == consumed)),
                  'lenient-form-wrong-value', **info)
    else:
        if not api.prove(got[0] == 'handled', 'wellformed-not-handled',
                         outcome=got[0], **info):
            return
        api.prove(eq_addr(got[1], addr), 'address-mismatch', **info)
        api.prove(got[2] == consumed, 'consumed-mismatch', **info)


# ------------------------------------------------------------ reference v1
def _digits(tok, maxval, maxlen):
    """-> ('ok', value) | ('lenient', value) | ('bad',)"""
    d = api.decide
    if len(tok) == 0:
        return ('bad',)
    val = 0
    for c in tok:
        if not d(And(c >= 48, c <= 57)):
            return ('bad',)
        val = val * 10 + (c - 48)
    if len(tok) > 12:
        return ('bad',)
    if d(val > maxval):
        return ('bad',)
    if len(tok) > 1 and d(tok[0] == 48) or len(tok) > maxlen:
        return ('lenient', val)
    return ('ok', val)


def _split(data, sep):
    """exact bytes.split(sep) for a 1-byte separator, forking"""
    out = []
    cur = 0
    for i in range(len(data)):
        if api.decide(data[i] == sep):
            out.append(data[cur:i])
            cur = i + 1
    out.append(data[cur:])
    return out


def _ip4(tok):
    parts = _split(tok, 46)
    if len(parts) != 4:
        return ('bad',)
    vals = []
    lenient = False
    for p in parts:
        r = _digits(p, 255, 3)
        if r[0] == 'bad':
            return ('bad',)
        if r[0] == 'lenient':
            lenient = True
        vals.append(r[1])
    return ('lenient' if lenient else 'ok', api.mkbytes([_e(v) for v in vals]))


def _ip6(tok):
    if api.MODE == 'sym':
        from symx.rt import concretize_seq
        tok = concretize_seq(tok, 2)
    try:
        text = bytes(tok).decode('ascii')
        return ('ok', socket.inet_pton(socket.AF_INET6, text))
    except (UnicodeDecodeError, OSError, ValueError):
        return ('bad',)


def ref_v1(stream):
    d = api.decide
    n = min(len(stream), 107)
    end = None
    for i in range(1, n):
        if d(And(stream[i - 1] == 13, stream[i] == 10)):
            end = i + 1
            break
    if end is None:
        return ('invalid', None, None)
    # the reader looks for CRLF only after the first 8 bytes
    if end <= 8:
        return ('invalid', None, None)
    line = stream[:end]
    if not d(line[0:6] == b'PROXY '):
        return ('invalid', None, None)
    parts = _split(line[6:-2], 32)
    if d(parts[0] == b'UNKNOWN'):
        return ('handled', UNKNOWN, end)
    if d(parts[0] == b'TCP4'):
        fam = socket.AF_INET
    elif d(parts[0] == b'TCP6'):
        fam = socket.AF_INET6
    else:
        return ('invalid', None, None)
    if len(parts) != 5:
        return ('invalid', None, None)
    ipf = _ip4 if fam == socket.AF_INET else _ip6
    src = ipf(parts[1])
    dst = ipf(parts[2])
    sp = _digits(parts[3], 65535, 5)
    dp = _digits(parts[4], 65535, 5)
    if 'bad' in (src[0], dst[0], sp[0], dp[0]):
        return ('invalid', None, None)
    addr = (ntop(fam, src[1]), sp[1])
    if 'lenient' in (src[0], dst[0], sp[0], dp[0]):
        return ('either', addr, end)
    return ('handled', addr, end)


# ------------------------------------------------------------------- cells
def run(cell):
    return globals()['run_' + cell['kind']](cell)


def run_v2sig(cell):
    hdr = api.sbytes('h', 16)
    body = api.sbytes('b', 2)
    pay = api.sbytes('p', 2)
    api.assume(hdr[14] == 0)
    api.assume(hdr[15] <= 2)
    api.assume(Not(hdr[0:12] == SIG))
    sock = PPSocket(hdr + body + pay)
    got = drive('v2', sock)
    judge(got, ('invalid', None, None), {'kind': 'v2sig'}, 18)


def run_v2(cell):
    fam = cell['fam']
    lmin, lmax = cell['lmin'], cell['lmax']
    b12 = api.byte('h12')
    b13 = api.byte('h13')
    hi = api.byte('len_hi')
    lo = api.byte('len_lo')
    ln = hi * 256 + lo
    api.assume(And(ln >= lmin, ln <= lmax))
    if fam == 'other':
        api.assume(b13 >= 0x40)
    else:
        api.assume(And(b13 >= fam * 16, b13 < fam * 16 + 16))
    if cell.get('sparse'):
        # long blocks: symbolic only where the UNIX-address code looks
        # (first / last bytes of each 108-byte field and the TLV tail)
        el = [0x61] * lmax
        for i in cell['sparse']:
            if i < lmax:
                el[i] = _e(api.byte('b[%d]' % i))
        body = api.mkbytes(el)
    else:
        body = api.sbytes('b', lmax)
    pay = api.sbytes('p', 2)
    hdr = SIG + api.mkbytes([_e(b12), _e(b13), _e(hi), _e(lo)])
    sock = PPSocket(hdr + body + pay)
    got = drive('v2', sock)
    ref = ref_v2(hdr, body)
    lnc = api.conc(ln)
    judge(got, ref, {'kind': 'v2', 'fam': fam, 'len': lnc}, 16 + lnc)


def _e(x):
    return x.e if hasattr(x, 'e') else x


def run_v2trunc(cell):
    h = V2_HEADERS[cell['hdr']]
    k = api.choice('cut', len(h))
    sock = PPSocket(h[:k])
    got = drive('v2', sock)
    judge(got, ('invalid', None, None), {'kind': 'v2trunc', 'cut': k}, k)


def run_v2short(cell):
    h = V2_HEADERS[cell['hdr']]
    pay = api.sbytes('p', 2)
    shorts = shorts_choice(6, cell['k'], 15)
    sock = PPSocket(h + pay, shorts)
    got = drive(cell['via'], sock)
    body = h[16:]
    ref = ref_v2(h[:16], body)
    judge(got, ref, {'kind': 'v2short', 'shorts': shorts}, len(h))
    api.prove(sock.stream[got[2]:] == pay if got[2] == len(h) else True,
              'payload-intact')


def run_v1digits(cell):
    cfg = cell['cfg']

    def digs(name, n):
        return api.sbytes(name, n, 48, 57)
    o = [digs('o%d' % i, cfg[i % 4]) for i in range(4)]
    o2 = [digs('q%d' % i, cfg[(i + 1) % 4]) for i in range(4)]
    sp = digs('sp', cfg[4])
    dp = digs('dp', max(1, cfg[4] - 1))
    line = b'PROXY TCP4 ' + o[0] + b'.' + o[1] + b'.' + o[2] + b'.' + o[3] + \
        b' ' + o2[0] + b'.' + o2[1] + b'.' + o2[2] + b'.' + o2[3] + b' ' + \
        sp + b' ' + dp + b'\r\n'
    pay = api.sbytes('p', 2)
    sock = PPSocket(line + pay)
    got = drive('v1', sock)
    ref = ref_v1(line + pay)
    judge(got, ref, {'kind': 'v1digits', 'cfg': cfg}, 107)


def run_v1corrupt(cell):
    base = V1_LINES[cell['line']]
    elems = list(base)
    where = []
    for j in range(cell['k']):
        p = api.choice('pos%d' % j, len(base))
        elems[p] = _e(api.byte('val%d' % j))
        where.append(p)
    line = api.mkbytes(elems)
    pay = api.sbytes('p', 2, 0, 255)
    sock = PPSocket(line + pay)
    got = drive(cell['via'], sock)
    ref = ref_v1(line + pay)
    judge(got, ref, {'kind': 'v1corrupt', 'line': cell['line'],
                     'pos': where}, 107)


def run_v1trunc(cell):
    base = V1_LINES[cell['line']]
    k = api.choice('cut', len(base))
    sock = PPSocket(base[:k])
    got = drive('v1', sock)
    judge(got, ('invalid', None, None), {'kind': 'v1trunc', 'cut': k}, k)


def run_v1short(cell):
    base = V1_LINES[cell['line']]
    pay = api.sbytes('p', 2)
    ncalls = 2 + (len(base) - 8 + 1)
    shorts = shorts_choice(ncalls, cell['k'], 7)
    sock = PPSocket(base + pay, shorts)
    got = drive(cell['via'], sock)
    ref = ref_v1(base + pay)
    judge(got, ref, {'kind': 'v1short', 'line': cell['line'],
                     'shorts': shorts}, 107)


def run_v1pair(cell):
    """two connections: the second one's whole header is read while the
    first waits inside one of its reads (any read, by forking)"""
    la, lb = V1_LINES[cell['a']], V1_LINES[cell['b']]
    pa = api.sbytes('pa', 2)
    pb = api.sbytes('pb', 2)
    ncalls = 2 + (len(la) - 8 + 1)
    at = api.choice('switch_at', ncalls)
    shorts = shorts_choice(ncalls, 1, 7)
    sa = PPSocket(la + pa, shorts)
    sb = PPSocket(lb + pb)
    other = {}
    sa.hooks = {at: lambda: other.__setitem__('got', drive(cell['via'], sb))}
    got = drive(cell['via'], sa)
    if 'got' not in other:
        other['got'] = drive(cell['via'], sb)
    info = {'kind': 'v1pair', 'a': cell['a'], 'b': cell['b'], 'at': at,
            'shorts': shorts}
    judge(got, ref_v1(la + pa), dict(info, conn='first'), 107)
    judge(other['got'], ref_v1(lb + pb), dict(info, conn='second'), 107)


def run_detect8(cell):
    ini = api.sbytes('i', 8)
    rest = api.sbytes('r', 2)
    api.assume(Not(ini[0:6] == b'PROXY '))
    api.assume(Not(ini == b'\r\n\r\n\x00\r\nQ'))
    sock = PPSocket(ini + rest)
    got = drive('detect', sock)
    judge(got, ('invalid', None, None), {'kind': 'detect8'}, 8)


def classify(cell, inputs, failure):
    return {'kind': cell['kind']}
