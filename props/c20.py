"""C20 - envelope parsing keeps the body byte-exact and the headers intact
(partial claim, see OUTSIDE).

Real code executed symbolically: Envelope.parse (_HEADER_BOUNDARY search and
split), _merge_payloads, flatten, copy, encode_7bit (no-encoder path).  The
header block handed to the stdlib email parser is concrete on every path, so
the stdlib runs natively; the body is symbolic.
"""
import pickle

from symx import api
from symx.api import And, Or, Not
from .common import quiet_logging

PROPERTY = 'C20'
EXPECT_ENTERED = ['Envelope.parse', 'Envelope._merge_payloads',
                  'Envelope.flatten', 'Envelope.copy', 'Envelope.encode_7bit']
BOUNDS = {
    'quick': 'every body of n<=4 arbitrary bytes (NUL, lone CR, leading blank '
             'or white-space-only lines, dot lines, 8-bit) behind each of 12 '
             'well-formed header blocks (single field, folded value, duplicate '
             'names, lines of exactly 77 / 78 octets, 8-bit value, LF line ends, Content-Transfer-Encoding '
             'present), separated by CRLF CRLF or LF LF: parse + flatten, '
             'copy(), pickle round trip, re-parse of the flattened output; '
             'encode_7bit() without encoder; 18 malformed header blocks (no '
             'colon, stray 8-bit line, over-long lines, NUL, empty) x 4 '
             'separators (CRLF CRLF, LF LF: every body of 2 bytes; single '
             'CRLF or none: 1 arbitrary byte appended) - parse/flatten/copy/'
             'pickle never raise; encode_7bit(encoder) on 6 '
             'concrete UTF-8 bodies x 2 encoders x 5 header blocks (Content-'
             'Transfer-Encoding absent, 8bit, 8BIT, Binary)',
    'thorough': 'n<=6',
}
OUTSIDE = ('header-field fidelity and "never raises" for arbitrary (symbolic) '
           'header blocks: both are properties of '
           'CPython\'s email package under symbolic input, which cannot be '
           'encoded; header blocks (well-formed and malformed) come from a '
           'concrete menu and are parsed natively.  7-bit conversion with an encoder is evaluated natively '
           'on concrete bodies (stdlib code), not by the solver')
STUBS = ['pickle = structural box for the symbolic body']
ASSUMPTIONS = ['line ends of the decoded text are compared modulo CRLF/LF '
               'after 7-bit conversion with an encoder']
CELL_BUDGET_S = {'quick': 240, 'thorough': 2400}
SAMPLE_P = 0.01
MAX_WITNESSES = 10

HEADERS = [
    b'Subject: hello',
    b'Subject: hello\r\nTo: a@b\r\nSubject: again',
    b'Subject: a long\r\n folded value\r\nX-A: 1',
    b'Subject: caf\xc3\xa9 \xff',
    b'Received: one\r\nReceived: two\r\nFrom: x@y',
    b'Content-Type: text/plain; charset=utf-8\r\n'
    b'Content-Transfer-Encoding: 8bit\r\nSubject: x',
    b'X-Empty:\r\nSubject: x',
    b'MIME-Version: 1.0\r\nContent-Type: text/plain; charset="utf-8"',
    b'Content-Type: text/plain; charset=utf-8\r\n'
    b'content-transfer-encoding: 8BIT\r\nSubject: x',
    b'Content-Type: text/plain; charset=utf-8\r\n'
    b'Content-Transfer-Encoding: Binary',
    b'Content-Type: text/plain; charset=utf-8\r\n'
    b'Content-Transfer-Encoding: quoted-printable',
    b'Content-Type: text/plain; charset=utf-8\r\n'
    b'Content-Transfer-Encoding: BASE64',
    # physical lines of exactly 78 and 77 octets (the longest allowed)
    b'X-Long: ' + (b'word ' * 13) + b'words' + b'\r\nSubject: ' + b'a' * 68,
    b'Subject: short\r\n ' + (b'cont ' * 15) + b'z',
]
# not well-formed header blocks (weaker claim: nothing raises, the bytes
# behind the first blank line stay at the end of the flattened message)
MALFORMED = [
    b'just some text',
    b'na\xc3\xafve text, no colon',
    b'Subject: x\r\ngr\xc3\xbc\xc3\x9fe stray line',
    b'\xff\xfe\x00',
    b'no colon line\r\nSubject: x',
    b'X' * 1200,
    b'Subject: ' + b'y' * 1100,
    b': empty name',
    b' leading space: x',
    b'Subject: x\r\n \r\nX-After: blank-looking fold',
    b'',
    # over-long lines that the stdlib refolds: 8-bit word + unbreakable token
    b'X-A: caf\xc3\xa9 ' + b'y' * 100,
    b'X-A: \xffabc ' + b'y' * 100 + b'\r\nSubject: x',
    b'x' * 80 + b': \x1c',
    # fields the stdlib's structured header parsers choke on
    b'Content-Type: text/plain; charset *',
    b'Subject: x\r\nContent-Type: text/plain; name *',
    b'To: a:];' + b'x' * 75,
    b'To: friends:]; a@b, c@d, e@f, g@h, i@j, k@l, m@n, o@p, q@r, s@t, u@v',
]
TEXTS = ['héllo wörld\r\n', 'plain ascii\r\n',
         '中文 line one\r\nline two ü\r\n', 'é',
         'a' * 80 + ' é\r\n', '.\r\né.\r\n']


def cells(tier):
    out = []
    n = 4 if tier == 'quick' else 6
    for h in range(len(HEADERS)):
        for lf in (0, 1):
            if lf and h in (3, 5, 6, 8, 9, 10, 11, 13):
                continue
            out.append({'kind': 'body', 'h': h, 'lf': lf,
                        'n': n if h < 2 else n - 1})
    for m in range(len(MALFORMED)):
        out.append({'kind': 'malformed', 'm': m, 'n': 2 if tier == 'quick'
                    else 3})
    out.append({'kind': 'sevenbit', 'n': 3})
    out.append({'kind': 'encoder'})
    return out


def setup(mode):
    quiet_logging()
    import slimta.envelope


def run(cell):
    return globals()['run_' + cell['kind']](cell)


def header_view(env):
    return [(k, v) for k, v in env.headers.items()]


def run_body(cell):
    from slimta.envelope import Envelope
    hdr = HEADERS[cell['h']]
    eol = b'\n' if cell['lf'] else b'\r\n'
    if cell['lf']:
        hdr = hdr.replace(b'\r\n', b'\n')
    n = cell['n']
    body = api.sbytes('body', n)
    data = hdr + eol + eol + body
    env = Envelope('s@z', ['r@x'])
    info = dict(h=cell['h'], lf=cell['lf'], n=n)
    try:
        env.parse(data)
        fh, fb = env.flatten()
    except api.Unsupported:
        raise
    except Exception as e:
        api.fail('parse-or-flatten-raised', exc=type(e).__name__, **info)
        return
    api.observe('body', fb)
    api.prove(fb == body, 'body-changed', **info)
    # header fields: same names, order and values as the reference parse of
    # the header block alone
    ref = Envelope()
    ref.parse(hdr + eol + eol)
    api.prove(header_view(env) == header_view(ref), 'headers-changed',
              got=[k for k, v in header_view(env)], **info)
    api.prove(fh == ref.flatten()[0], 'flattened-headers-differ', **info)
    # deep copy
    cp = env.copy()
    ch, cb = cp.flatten()
    api.prove(And(cb == body, ch == fh), 'copy-differs', **info)
    api.prove(cp.headers is not env.headers and
              cp.recipients is not env.recipients, 'copy-shares-state',
              **info)
    # pickling as the disk / redis / cloud stores do
    try:
        if api.MODE == 'sym':
            from symx import rt
            pk = rt._pickle_loads(rt._pickle_dumps(
                env, pickle.HIGHEST_PROTOCOL))
        else:
            pk = pickle.loads(pickle.dumps(env, pickle.HIGHEST_PROTOCOL))
        ph, pb = pk.flatten()
        api.prove(And(pb == body, ph == fh), 'pickle-round-trip-differs',
                  **info)
    except api.Unsupported:
        raise
    except Exception as e:
        api.fail('pickle-raised', exc=type(e).__name__, **info)
    # fixed point
    env2 = Envelope()
    try:
        env2.parse(fh + fb)
        h2, b2 = env2.flatten()
    except api.Unsupported:
        raise
    except Exception as e:
        api.fail('reparse-raised', exc=type(e).__name__, **info)
        return
    api.prove(And(h2 == fh, b2 == fb), 'reparse-not-a-fixed-point', **info)


def run_malformed(cell):
    from slimta.envelope import Envelope
    hdr = MALFORMED[cell['m']]
    n = cell['n']
    body = api.sbytes('body', n)
    sep = [b'\r\n\r\n', b'\n\n', b'\r\n', b''][api.choice('sep', 4)]
    if sep in (b'\r\n', b''):
        # no complete boundary: the symbolic bytes are (or may be) part of
        # the header block, which the stdlib parser needs concrete - one
        # arbitrary byte (256-way fork) is what is affordable
        body = body[:1]
        n = 1
    data = hdr + sep + body
    env = Envelope('s@z', ['r@x'])
    info = dict(m=cell['m'], sep=sep.decode(), n=n)
    try:
        env.parse(data)
        fh, fb = env.flatten()
        cp = env.copy()
        ch, cb = cp.flatten()
        if api.MODE == 'sym':
            from symx import rt
            pk = rt._pickle_loads(rt._pickle_dumps(
                env, pickle.HIGHEST_PROTOCOL))
        else:
            pk = pickle.loads(pickle.dumps(env, pickle.HIGHEST_PROTOCOL))
        ph, pb = pk.flatten()
    except api.Unsupported:
        raise
    except Exception as e:
        api.fail('raised-on-arbitrary-bytes', exc=type(e).__name__, **info)
        return
    api.observe('flat', fh + fb)
    api.prove(And(cb == fb, ch == fh), 'copy-differs', **info)
    api.prove(And(pb == fb, ph == fh), 'pickle-round-trip-differs', **info)
    if sep in (b'\r\n\r\n', b'\n\n'):
        api.prove(fb[len(fb) - n:] == body if n else True,
                  'body-changed', **info)


def run_sevenbit(cell):
    from slimta.envelope import Envelope
    n = cell['n']
    body = api.sbytes('body', n)
    env = Envelope('s@z', ['r@x'])
    env.parse(b'Subject: x\r\n\r\n' + body)
    info = dict(n=n)
    has8 = Or(*[body[i] >= 128 for i in range(n)]) if n else False
    try:
        env.encode_7bit()
        refused = False
    except UnicodeError:
        refused = True
    except api.Unsupported:
        raise
    except Exception as e:
        api.fail('encode-7bit-raised', exc=type(e).__name__, **info)
        return
    api.observe('refused', refused)
    if refused:
        api.prove(has8, 'refused-a-7-bit-message', **info)
    else:
        api.prove(Not(has8), 'passed-8-bit-data-on', **info)
        api.prove(env.flatten()[1] == body, 'body-changed', **info)


def run_encoder(cell):
    """concrete (native) evaluation of the stdlib-based conversion"""
    from email import message_from_bytes
    from email.encoders import encode_base64, encode_quopri
    from slimta.envelope import Envelope
    t = api.choice('text', len(TEXTS))
    e = api.choice('encoder', 2)
    h = [5, 7, 0, 8, 9, 10, 11][api.choice('hdr', 7)]
    text = TEXTS[t]
    if h in (10, 11):
        # a 7-bit body under a (wrong) base64 / quoted-printable label is
        # passed on as it is; the property speaks about 8-bit bodies
        api.assume(any(ord(ch) > 127 for ch in text))
    enc = [encode_base64, encode_quopri][e]
    env = Envelope('s@z', ['r@x'])
    env.parse(HEADERS[h] + b'\r\n\r\n' + text.encode('utf-8'))
    info = dict(text=t, encoder=e, hdr=h)
    try:
        env.encode_7bit(enc)
    except Exception as ex:
        api.fail('encode-7bit-with-encoder-raised', exc=type(ex).__name__,
                 **info)
        return
    fh, fb = env.flatten()
    flat = fh + fb
    api.prove(all(c < 128 for c in flat), 'result-not-7-bit', **info)
    msg = message_from_bytes(flat)
    payload = msg.get_payload(decode=True)
    got = payload.decode('utf-8', 'replace').replace('\r\n', '\n')
    want = text.replace('\r\n', '\n')
    api.prove(got.rstrip('\n') == want.rstrip('\n'),
              'decoded-text-differs', got=got[:40], want=want[:40], **info)


def classify(cell, inputs, failure):
    return {'kind': cell['kind']}
