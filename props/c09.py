"""C09 - server behaviour does not depend on how client bytes are segmented or
pipelined.

Real code executed: Server.handle and everything below it (IO.recv_line/
recv_command/buffered_recv, DataReader.*, Server._get_message_data and all
_command_* handlers), twice per path: once with the whole client stream in
one burst and once cut at symbolic positions (or byte by byte); replies and
callback traces (with message content) are compared symbolically.
"""
from symx import api
from symx.api import And, Or, Not
from .common import FakeSocket, quiet_logging
from .c07 import Rec

PROPERTY = 'C09'
EXPECT_ENTERED = ['Server.handle', 'Server._get_message_data',
                  'IO.recv_line', 'IO.recv_command', 'IO.buffered_recv',
                  'DataReader.from_recv_buffer', 'DataReader.return_all',
                  'DataReader.recv_piece', 'DataReader.add_lines']
BOUNDS = {
    'quick': 'session templates: (1) EHLO MAIL RCPT DATA <body> QUIT, (2) two '
             'transactions, (3) RSET/NOOP mix with an empty body, (4) body '
             'over the SIZE limit, (5) a complete line and more bytes behind QUIT in the same segment, '
             '(6) disconnect in the middle of a command line, (7) a client '
             'that waits for every reply and whose message is 4095/4096/4097 '
             'bytes (one full read), in one segment vs cut at 9 positions; every body of b<=3 (template 2: 2) '
             'arbitrary bytes (so '
             'dots, CR, LF, empty bodies and command look-alikes occur), '
             'stream cut at one arbitrary position between the DATA command '
             'and the command after the end of data, for b<=1 additionally '
             'at a second position anywhere in the stream, '
             'and byte-by-byte delivery; each compared with single-burst '
             'delivery',
    'thorough': 'b<=4, c<=3',
}
OUTSIDE = 'TLS; more transactions; AUTH exchanges'
STUBS = ['FakeSocket (recv returns the scripted segments)',
         'LockstepSocket (flight k readable once k replies were sent; a read '
         'before that = blocked)',
         'recording handlers', 'slimta.logging -> no-ops']
ASSUMPTIONS = ['recv(4096) never splits a segment (templates 1-6: streams < 4096 bytes)']
CELL_BUDGET_S = {'quick': 240, 'thorough': 2400}
SAMPLE_P = 0.02
MAX_WITNESSES = 10
MAX_DECISIONS = 60000


def cells(tier):
    out = []
    q = tier == 'quick'
    for tpl in (1, 2, 3, 4):
        for b in range(0, 4 if q else 5):
            if tpl == 2 and b > (2 if q else 3):
                continue
            c = 2 if (not q or b <= 1) else 1
            if q and tpl == 2:
                c = 1
            out.append({'tpl': tpl, 'b': b, 'mode': 'cuts', 'c': c})
            if b <= 2:
                out.append({'tpl': tpl, 'b': b, 'mode': 'bytewise'})
    for tpl in (5, 6):
        for b in ((1,) if q else (1, 2)):
            out.append({'tpl': tpl, 'b': b, 'mode': 'cuts', 'c': 1})
            out.append({'tpl': tpl, 'b': b, 'mode': 'bytewise'})
    out.append({'tpl': 7, 'b': 1 if q else 2, 'mode': 'lockstep'})
    return out


def setup(mode):
    quiet_logging()
    import slimta.smtp.server


class SizeRec(Rec):
    def HAVE_DATA(self, reply, data, err):
        self.trace.append(('HAVE_DATA', data, type(err).__name__))
        if err is not None:
            reply.code = '552'
            reply.message = '5.3.4 too big'


def build_stream(tpl, b):
    """-> (stream, lo, hi): cut region [lo, hi]"""
    pre = b'EHLO c\r\nMAIL FROM:<a@b>\r\nRCPT TO:<c@d>\r\nDATA\r\n'
    lo = len(pre) - 8
    body = api.sbytes('body', b)
    if tpl == 1:
        s = pre + body + b'\r\n.\r\nQUIT\r\n'
        hi = len(pre) + b + 5 + 4
    elif tpl == 2:
        # (2 bytes when the first body is empty: a dot-stuffed line in the
        # second message of the same burst)
        body2 = api.sbytes('body2', 2 if b == 0 else 1)
        s = pre + body + b'\r\n.\r\nMAIL FROM:<e@f>\r\nRCPT TO:<g@h>\r\n' \
            b'DATA\r\n' + body2 + b'\r\n.\r\nQUIT\r\n'
        hi = len(pre) + b + 5 + 6
        if b == 0:
            hi = len(s)
    elif tpl == 3:
        s = b'EHLO c\r\nNOOP\r\nMAIL FROM:<a@b>\r\nRSET\r\nMAIL FROM:<a@b>' \
            b'\r\nRCPT TO:<c@d>\r\nDATA\r\n' + body + b'.\r\nNOOP\r\nQUIT\r\n'
        lo = s.find(b'DATA') if isinstance(s, bytes) else 60
        lo = 62
        hi = lo + 6 + b + 3 + 5
    elif tpl == 5:
        # bytes behind QUIT in the same segment (never read)
        s = pre + body + b'\r\n.\r\nNOOP\r\nQUIT\r\nNOOP\r\nXY'
        hi = len(s)
    elif tpl == 6:
        # the client disconnects in the middle of a command line
        s = pre + body + b'\r\n.\r\nNOOP\r\nRSET\r\nNO'
        hi = len(s)
    else:
        s = pre + b'0123456' + body + b'\r\n.\r\nNOOP\r\nQUIT\r\n'
        hi = len(pre) + 7 + b + 5 + 5
    return s, max(0, lo), min(hi, len(s))


def session(segments, max_size):
    from slimta.smtp.server import Server
    from slimta.smtp import ConnectionLost
    sock = FakeSocket(segments, eof=True)
    handlers = SizeRec(lambda name: None)
    server = Server(sock, handlers, ('10.0.0.1', 1))
    if max_size:
        server.extensions.add('SIZE', max_size)
    ended = 'returned'
    try:
        server.handle()
    except ConnectionLost:
        ended = 'connection-lost'
    except api.Unsupported:
        raise
    except Exception as e:
        ended = 'raised:' + type(e).__name__
    return sock.wire(), handlers.trace, ended


class Blocked(Exception):
    """the server reads while the client is waiting for a reply"""


class LockstepSocket(FakeSocket):
    """A client that does not pipeline: flight k is sent only once the
    server has sent k complete replies.  A recv() while the client waits
    is a deadlock (in real life: until the timeout)."""

    def __init__(self, flights):
        FakeSocket.__init__(self, [], eof=True)
        self.flights = list(flights)
        self.replies = 0

    def sendall(self, data):
        FakeSocket.sendall(self, data)
        import re
        try:
            raw = bytes(data)
        except Exception:
            self.replies += 1
            return
        self.replies += len(re.findall(br'(?m)^\d\d\d .*\r$', raw))

    send = sendall

    def recv(self, n=4096):
        if not self.segments:
            if not self.flights:
                return b''
            need, segs = self.flights[0]
            if self.replies < need:
                raise Blocked()
            self.flights.pop(0)
            self.segments = [x for x in segs if len(x)]
        return FakeSocket.recv(self, n)


def lockstep_session(flights):
    from slimta.smtp.server import Server
    from slimta.smtp import ConnectionLost
    sock = LockstepSocket(flights)
    handlers = SizeRec(lambda name: None)
    server = Server(sock, handlers, ('10.0.0.1', 1))
    ended = 'returned'
    try:
        server.handle()
    except ConnectionLost:
        ended = 'connection-lost'
    except Blocked:
        ended = 'blocked-reading-while-the-client-waits-for-a-reply'
    except api.Unsupported:
        raise
    except Exception as e:
        ended = 'raised:' + type(e).__name__
    return sock.wire(), handlers.trace, ended


def run_lockstep(cell):
    """a non-pipelining client whose message fills a whole 4096-byte read
    (one byte less / more as well), in one segment vs cut in two"""
    b = cell['b']
    total = 4095 + api.choice('size', 3)
    tail = api.sbytes('body', b) + b'\r\n.\r\n'
    fill = total - len(tail)
    line = b'x' * 70 + b'\r\n'
    body = (line * (fill // 72 + 1))[-fill:] if fill else b''
    data = body + tail
    cutmenu = [1, 72, 1000, total - 6, total - 5, total - 4, total - 3,
               total - 2, total - 1]
    cut = cutmenu[api.choice('cut', len(cutmenu))]

    def flights(segs):
        return [(1, [b'EHLO c\r\n']), (2, [b'MAIL FROM:<a@b>\r\n']),
                (3, [b'RCPT TO:<c@d>\r\n']), (4, [b'DATA\r\n']),
                (5, segs), (6, [b'QUIT\r\n'])]
    w1, t1, e1 = lockstep_session(flights([data]))
    w2, t2, e2 = lockstep_session(flights([data[:cut], data[cut:]]))
    info = dict(tpl=7, b=b, size=total, cuts=[cut])
    api.observe('burst', [w1, [t[0] for t in t1], e1])
    api.observe('cut', [w2, [t[0] for t in t2], e2])
    api.prove(e1 == e2, 'session-end-differs', burst=e1, cut=e2, **info)
    ok, cond = same_trace(t1, t2)
    if not api.prove(ok, 'callback-sequence-depends-on-segmentation',
                     burst=[t[0] for t in t1], cut=[t[0] for t in t2],
                     **info):
        return
    api.prove(cond, 'callback-arguments-depend-on-segmentation', **info)
    api.prove(w1 == w2, 'replies-depend-on-segmentation', **info)


def same_trace(a, b):
    """-> (structurally comparable, condition that all arguments are equal)"""
    if len(a) != len(b):
        return False, False
    conds = []
    for x, y in zip(a, b):
        if x[0] != y[0] or len(x) != len(y):
            return False, False
        for p, q in zip(x[1:], y[1:]):
            if p is None or q is None:
                if p is not q:
                    return False, False
                continue
            conds.append(p == q)
    return True, And(*conds) if conds else True


def run(cell):
    if cell['mode'] == 'lockstep':
        return run_lockstep(cell)
    tpl, b = cell['tpl'], cell['b']
    stream, lo, hi = build_stream(tpl, b)
    max_size = 10 if tpl == 4 else None
    n = len(stream)
    if cell['mode'] == 'bytewise':
        segs = [stream[i:i + 1] for i in range(n)]
        cuts = 'bytewise'
    else:
        pos = []
        last = lo
        c = cell['c']
        # one cut anywhere, the others inside the DATA region
        first_any = lo
        if c > 1 and not cell.get('region'):
            first_any = api.choice('anycut', n + 1)
        for i in range(c - 1 if c > 1 else c):
            p = last + api.choice('cut%d' % i, hi - last + 1)
            pos.append(p)
            last = p
        if c > 1:
            pos.append(first_any)
        pos = sorted(set(pos))
        segs = []
        a = 0
        for p in pos + [n]:
            segs.append(stream[a:p])
            a = p
        cuts = pos
    w1, t1, e1 = session([stream], max_size)
    w2, t2, e2 = session(segs, max_size)
    info = dict(tpl=tpl, b=b, cuts=cuts)
    api.observe('burst', [w1, [t[0] for t in t1], e1])
    api.observe('cut', [w2, [t[0] for t in t2], e2])
    api.prove(e1 == e2, 'session-end-differs', burst=e1, cut=e2, **info)
    ok, cond = same_trace(t1, t2)
    if not api.prove(ok, 'callback-sequence-depends-on-segmentation',
                     burst=[t[0] for t in t1], cut=[t[0] for t in t2],
                     **info):
        return
    api.prove(cond, 'callback-arguments-depend-on-segmentation', **info)
    api.prove(w1 == w2, 'replies-depend-on-segmentation', **info)


def classify(cell, inputs, failure):
    return {'tpl': cell['tpl'], 'mode': cell['mode']}
