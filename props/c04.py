"""C04 - a crash at any point never loses an acknowledged message (disk).

Real code executed: DiskStorage.*, DiskOps.*, AioFile.dump/_write_piece/load/
_read_piece/pickle_dump/pickle_load, Queue._load_all/_dequeue/_attempt (the
restarted queue) - over a fake POSIX file system that freezes at the chosen
effect (kill -9).
"""
from symx import api
from . import qcommon as qc
from .common import quiet_logging

PROPERTY = 'C04'
EXPECT_ENTERED = ['AioFile.dump', 'AioFile._write_piece', 'AioFile.load',
                  'DiskStorage.write', 'DiskStorage.load', 'DiskStorage.get',
                  'DiskStorage.remove', 'DiskStorage.increment_attempts',
                  'DiskStorage.set_recipients_delivered', 'DiskOps.get_ids',
                  'Queue._load_all']
BOUNDS = {
    'quick': 'every history of 3 operations (write, increment_attempts, '
             'set_timestamp, set_recipients_delivered, remove; targets chosen '
             'among <=2 messages) after an initial acknowledged write, and a '
             'kill before every file-system effect of the history (temp-file '
             'creation, every 256-byte chunk write, rename, unlink); then a '
             'fresh DiskStorage + Queue over the frozen directory',
    'thorough': 'histories of 4 operations, 64-byte chunks',
}
OUTSIDE = ('power loss / fsync ordering (the property speaks of process '
           'death); real kernel aio; more than 2 messages')
STUBS = ['FakeFS: rename and unlink atomic, a chunk handed to aio_write is in '
         'the temp file when its completion callback fires, open descriptors '
         'survive unlink; the kill discards everything after the chosen '
         'effect (no finally: blocks run)', 'pickle native',
         'keep-awake ticker disabled']
ASSUMPTIONS = ['tmp_dir is on the same file system (rename atomic)',
               'one storage operation at a time (overlap is C15)']
CELL_BUDGET_S = {'quick': 240, 'thorough': 2400}
SAMPLE_P = 0.02
MAX_WITNESSES = 10
OPS = ['write', 'increment_attempts', 'set_timestamp', 'mark', 'remove']
RC = ['a@x', 'b@x', 'c@y']


def cells(tier):
    """the thorough tier is the deeper cells plus every cell of the quick
    tier (special situations are written once, for the quick tier)"""
    out = _cells(tier)
    if tier != 'quick':
        for c in _cells('quick'):
            if c not in out:
                out.append(c)
    return out


def _cells(tier):
    out = []
    for op0 in range(len(OPS)):
        if tier == 'quick':
            out.append({'L': 3, 'chunk': 256, 'op0': op0})
            out.append({'L': 2, 'chunk': 64, 'op0': op0})
        else:
            for op1 in range(len(OPS)):
                out.append({'L': 4, 'chunk': 256, 'op0': op0, 'op1': op1})
            out.append({'L': 3, 'chunk': 64, 'op0': op0})
    return out


def setup(mode):
    quiet_logging()
    import slimta.queue
    import slimta.diskstorage


class Tracker(object):
    """what the caller of the storage knows (acknowledged state)"""

    def __init__(self):
        self.msgs = {}       # tag -> state dict
        self.order = []

    def new(self, tag):
        self.msgs[tag] = {'id': None, 'acked': False, 'attempts': 0,
                          'attempts_inprogress': False, 'marks': [],
                          'mark_inprogress': None, 'ts': [],
                          'removing': False, 'removed': False}
        self.order.append(tag)
        return self.msgs[tag]


def history(store, tr, L, script):
    """run the operation history; `script` supplies the choices"""
    import gevent

    def write():
        tag = 'm%d' % len(tr.order)
        st = tr.new(tag)
        env = qc.make_envelope(tag, 's_%s@z' % tag, RC,
                               body=(b'body of ' + tag.encode() + b' ' +
                                     b'x' * 300 + b'\r\n'))
        st['env'] = env
        st['ts'].append(10 + len(tr.order))
        st['id'] = store.write(env, st['ts'][-1])
        st['acked'] = True
    write()
    for step in range(L):
        op = OPS[script('op%d' % step, len(OPS))]
        if op == 'write':
            if len(tr.order) < 2:
                write()
            continue
        live = [t for t in tr.order if not tr.msgs[t]['removed']]
        if not live:
            continue
        tag = live[script('target%d' % step, len(live))] if len(live) > 1 \
            else live[0]
        st = tr.msgs[tag]
        if op == 'increment_attempts':
            st['attempts_inprogress'] = True
            store.increment_attempts(st['id'])
            st['attempts_inprogress'] = False
            st['attempts'] += 1
        elif op == 'set_timestamp':
            ts = 100 + step
            st['ts'].append(ts)
            store.set_timestamp(st['id'], ts)
            st['ts'] = [ts]
        elif op == 'mark':
            left = [r for i, r in enumerate(RC)]
            cur = current_rcpts(st)
            if not cur:
                continue
            idx = script('which%d' % step, len(cur))
            st['mark_inprogress'] = cur[idx]
            store.set_recipients_delivered(st['id'], [idx])
            st['marks'].append(cur[idx])
            st['mark_inprogress'] = None
        elif op == 'remove':
            st['removing'] = True
            store.remove(st['id'])
            st['removed'] = True


def current_rcpts(st):
    return [r for r in RC if r not in st['marks']]


def run(cell):
    import gevent
    import slimta.diskstorage as ds
    L = cell['L']
    chosen = {}

    def script(name, n):
        if name not in chosen:
            if name in cell:
                chosen[name] = cell[name]
            else:
                chosen[name] = api.choice(name, n)
        return chosen[name]
    # pass 1: the history without a crash, to count its file-system effects
    qc.fresh_hub()
    qc.patch_env()
    fs = qc.FakeFS()
    store = qc.make_disk_storage(fs, chunk_size=cell['chunk'])
    tr = Tracker()
    g = gevent.spawn(history, store, tr, L, script)
    qc.run_until_quiescent()
    if g.exception is not None:
        api.fail('operation-raised-without-crash',
                 exc=type(g.exception).__name__)
        return
    total = fs.effects
    crash_at = api.choice('crash_at', total + 1)
    # pass 2: same history, killed before effect number crash_at
    qc.fresh_hub()
    qc.patch_env()
    fs = qc.FakeFS(crash_at=crash_at if crash_at < total else None)
    store = qc.make_disk_storage(fs, chunk_size=cell['chunk'])
    tr = Tracker()
    g = gevent.spawn(history, store, tr, L, lambda name, n: chosen[name])
    try:
        qc.run_until_quiescent()
    except qc.CrashPoint:
        pass
    disk = fs.frozen if fs.frozen is not None else fs.snapshot()
    info = dict(L=L, crash_at=crash_at, total=total,
                log=fs.effect_log[-3:],
                ops=[OPS[chosen[k]] for k in sorted(chosen)
                     if k.startswith('op')])
    # restart: fresh storage and queue over the frozen directory
    qc.fresh_hub()
    qc.patch_env()
    fs2 = qc.FakeFS()
    fs2.files = dict((p, bytearray(d)) for p, d in disk.items())
    store2 = qc.make_disk_storage(fs2, chunk_size=cell['chunk'])
    result = {}

    def recover():
        try:
            result['listed'] = dict((i, t) for t, i in store2.load())
        except Exception as e:
            result['load_exc'] = type(e).__name__
            return
        result['get'] = {}
        for tag, st in tr.msgs.items():
            if st['id'] is None:
                continue
            try:
                env, att = store2.get(st['id'])
                result['get'][tag] = (env.sender, list(env.recipients),
                                      env.flatten(), att)
            except Exception as e:
                result['get'][tag] = type(e).__name__
    g2 = gevent.spawn(recover)
    qc.run_until_quiescent()
    api.observe('listed', sorted(result.get('listed', {})))
    if not api.prove('load_exc' not in result and g2.exception is None,
                     'load-raised-after-crash',
                     exc=result.get('load_exc'), **info):
        return
    listed = result['listed']
    for tag, st in tr.msgs.items():
        minfo = dict(tag=tag, **info)
        got = result['get'].get(tag)
        present = st['id'] is not None and st['id'] in listed
        if st['removed']:
            api.prove(not present, 'removed-message-came-back', **minfo)
            continue
        if st['acked'] and not st['removing']:
            if not api.prove(present and not isinstance(got, str),
                             'acknowledged-message-lost', got=repr(got)[:80],
                             **minfo):
                continue
        if st['removing'] or not st['acked']:
            # half-removed / half-written: fully gone or fully loadable
            if not present:
                continue
            if not api.prove(not isinstance(got, str),
                             'listed-message-not-loadable', got=got, **minfo):
                continue
        sender, rcpts, flat, att = got
        api.prove(sender == st['env'].sender and flat == st['env'].flatten(),
                  'sender-or-content-damaged', **minfo)
        ok_att = [st['attempts']] + ([st['attempts'] + 1]
                                     if st['attempts_inprogress'] else [])
        api.prove(att in ok_att, 'attempt-count-wrong', got=att, want=ok_att,
                  **minfo)
        want = current_rcpts(st)
        alt = [r for r in want if r != st['mark_inprogress']]
        api.prove(rcpts == want or rcpts == alt, 'recipients-wrong',
                  got=rcpts, want=want, **minfo)
        api.prove(listed[st['id']] in st['ts'], 'timestamp-wrong',
                  got=listed[st['id']], want=st['ts'], **minfo)
    # the restarted queue resumes every surviving message
    from slimta.queue import Queue
    relay = qc.ScriptRelay(lambda rec: (qc.Outcome.OK, None))
    queue = Queue(store2, relay, bounce_factory=lambda e, r: None)
    queue.start()
    qc.run_until_quiescent()
    queue.kill()
    attempted = set(c['tag'] for c in relay.calls)
    for tag, st in tr.msgs.items():
        if st['acked'] and not st['removing']:
            api.prove(tag in attempted, 'survivor-not-retried-after-restart',
                      tag=tag, **info)
    api.prove(not [e for e in qc.ERRORS], 'restart-raised',
              errors=qc.ERRORS[:2], **info)


def classify(cell, inputs, failure):
    return {}
