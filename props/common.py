"""Shared stubs for harnesses (environment models, part of every claim)."""
import os

from symx import api


class OverRead(Exception):
    """The code under test asked the peer for bytes it is not owed."""


class FakeSocket(object):
    """In-memory TCP byte stream.  `segments` are what successive recv()
    calls return; when they are exhausted recv() returns b'' (EOF) or raises
    OverRead (eof=False).  Everything sent is collected in `sent`."""

    def __init__(self, segments=(), eof=True, peer=('127.0.0.1', 12345)):
        self.segments = [s for s in segments if len(s)]
        self.sent = []
        self.eof = eof
        self.closed = False
        self.peer = peer
        self.recv_calls = 0

    def recv(self, n=4096):
        self.recv_calls += 1
        if not self.segments:
            if self.eof:
                return b''
            raise OverRead('recv() with nothing owed')
        s = self.segments.pop(0)
        if len(s) > n:
            self.segments.insert(0, s[n:])
            s = s[:n]
        return s

    def unread(self):
        out = b''
        for s in self.segments:
            out = out + s
        return out

    def sendall(self, data):
        self.sent.append(data)

    send = sendall

    def wire(self):
        out = b''
        for s in self.sent:
            out = out + s
        return out

    def close(self):
        self.closed = True

    def getpeername(self):
        return self.peer

    def fileno(self):
        return -1

    def shutdown(self, how):
        pass


def cut_stream(stream, ncuts, name='cut'):
    """Split `stream` at `ncuts` positions chosen by forking (all positions
    0..len, non-decreasing)."""
    n = len(stream)
    pos = []
    last = 0
    for i in range(ncuts):
        p = last + api.choice('%s%d' % (name, i), n - last + 1)
        pos.append(p)
        last = p
    segs = []
    a = 0
    for p in pos + [n]:
        segs.append(stream[a:p])
        a = p
    return segs, pos


def quiet_logging():
    """slimta.logging loggers -> no-ops (logging is not the subject; repr()
    of symbolic data would otherwise abort paths)."""
    import slimta.logging as L
    import slimta.logging.socket as LS
    import slimta.logging.log as LL

    def nop(*a, **k):
        return None
    for cls in (LS.SocketLogger,):
        for name in ('send', 'recv', 'accept', 'connect', 'encrypt',
                     'shutdown', 'close', 'error', 'proxyproto_success',
                     'proxyproto_invalid', 'proxyproto_local'):
            setattr(cls, name, nop)
    try:
        import slimta.logging.queuestorage as LQ
        for name in ('write', 'update_meta', 'remove'):
            setattr(LQ.QueueStorageLogger, name, nop)
    except Exception:
        pass
    try:
        import slimta.logging.subprocess as LP
        for name in ('popen', 'stdio', 'exit'):
            setattr(LP.SubprocessLogger, name, nop)
    except Exception:
        pass
    try:
        import slimta.logging.http as LH
        for name in ('wsgi_request', 'wsgi_response', 'request', 'response'):
            setattr(LH.HttpLogger, name, nop)
    except Exception:
        pass
    L.log_exception = nop
    L.logline = nop
