"""C03 - settled recipients are never attempted again; one attempt in flight.

Real code executed: Queue.enqueue/_attempt/_handle_partial_relay/_retry_later/
_perm_fail/_remove/_dequeue/_check_ready/_wait_ready/_add_queued/_run/flush,
QueueStorage._remove_delivered_rcpts, and every method of DictStorage,
DiskStorage(+DiskOps, AioFile), RedisStorage, CloudStorage - on the real
gevent, virtual time.
"""
from symx import api
from symx.api import And, Or, Not
from . import qcommon as qc
from .common import quiet_logging

PROPERTY = 'C03'
EXPECT_ENTERED = ['Queue._handle_partial_relay', 'Queue._retry_later',
                  'Queue._dequeue', 'Queue._attempt', 'Queue._add_queued',
                  'QueueStorage._remove_delivered_rcpts',
                  'DictStorage.set_recipients_delivered',
                  'DiskStorage.set_recipients_delivered',
                  'RedisStorage.set_recipients_delivered',
                  'CloudStorage.set_recipients_delivered']
BOUNDS = {
    'quick': 'one message, 3 recipients, <=3 attempts, every per-recipient '
             'outcome vector (ok/permanent/transient per recipient per '
             'attempt) returned as mapping or sequence (mapping also with one '
             'address at two positions), 4 backends (dict, '
             'disk on a fake FS, redis and cloud on fake substrates), backoff '
             'delays symbolic reals >= 0 (0 included); plus schedule cells: '
             'flush() and a duplicate storage wait() announcement at symbolic '
             'instants, bounded/unbounded pools, symbolic relay duration; '
             'one failing bookkeeping operation of the storage (each of the '
             'first 6)',
    'thorough': '4 recipients x 3 attempts on all backends; 3 recipients x 4 '
                'attempts; schedule cells with 2 messages',
}
OUTSIDE = ('real redis / S3 / kernel aio; more recipients or rounds; crash '
           'recovery (C04)')
STUBS = ['virtual-time gevent loop (real gevent primitives)', 'ScriptRelay',
         'FakeRedis / FakeObjectStore / FakeFS+pyaio (per-operation atomic, '
         'each operation yields)', 'deterministic uuid4', 'slimta.logging -> '
         'no-ops']
ASSUMPTIONS = ['substrate operations are atomic and may yield to other '
               'greenlets before taking effect', 'relay reports one result '
               'per recipient of the attempt']
CELL_BUDGET_S = {'quick': 200, 'thorough': 2000}
SAMPLE_P = 0.01
MAX_WITNESSES = 10

RCPTS = ['a@x', 'b@x', 'c@y', 'd@y']


def cells(tier):
    """the thorough tier is the deeper cells plus every cell of the quick
    tier (special situations are written once, for the quick tier)"""
    out = _cells(tier)
    if tier != 'quick':
        for c in _cells('quick'):
            if c not in out:
                out.append(c)
    return out


def _cells(tier):
    out = []
    backends = ['dict', 'disk', 'redis', 'cloud']
    if tier == 'quick':
        for b, shape in zip(backends, ('mapping', 'sequence', 'mapping-rev',
                                       'mapping')):
            out.append({'kind': 'rounds', 'backend': b, 'n': 3, 'rounds': 3,
                        'shape': shape})
        out.append({'kind': 'rounds', 'backend': 'dict', 'n': 2, 'rounds': 3,
                    'shape': 'mapping-rev'})
        out.append({'kind': 'rounds', 'backend': 'shelf', 'n': 3, 'rounds': 2,
                    'shape': 'mapping'})
        out.append({'kind': 'rounds', 'backend': 'dict', 'n': 2, 'rounds': 2,
                    'shape': 'mapping', 'store_fault': 6})
        out.append({'kind': 'rounds', 'backend': 'redis', 'n': 2, 'rounds': 2,
                    'shape': 'sequence', 'store_fault': 6})
        # the same address at two positions of the envelope
        out.append({'kind': 'rounds', 'backend': 'dict', 'n': 3, 'rounds': 2,
                    'shape': 'mapping', 'dup': 1})
        out.append({'kind': 'rounds', 'backend': 'disk', 'n': 3, 'rounds': 2,
                    'shape': 'mapping', 'dup': 1})
        out.append({'kind': 'rounds', 'backend': 'dict', 'n': 3, 'rounds': 2,
                    'shape': 'sequence', 'dup': 1})
        for b in ('disk', 'redis', 'cloud'):
            out.append({'kind': 'inject', 'backend': b, 'n': 2, 'K': 40,
                        'dur': 1})
        out.append({'kind': 'inject', 'backend': 'disk', 'n': 2, 'K': 40,
                    'dur': 0})
        for b in ('dict', 'redis'):
            out.append({'kind': 'sched', 'backend': b, 'n': 2, 'pools': 1})
        out.append({'kind': 'sched', 'backend': 'disk', 'n': 2, 'pools': 0})
        out.append({'kind': 'rounds', 'backend': 'dict', 'n': 2, 'rounds': 2,
                    'shape': 'mapping', 'startup_race': 1})
    else:
        for b in backends:
            out.append({'kind': 'rounds', 'backend': b, 'n': 2, 'rounds': 2,
                        'shape': 'mapping', 'startup_race': 1})
        for b in ('disk', 'redis', 'cloud'):
            for dur in (0, 1):
                out.append({'kind': 'inject', 'backend': b, 'n': 3, 'K': 70,
                            'dur': dur})
        for b in backends:
            for shape in ('mapping', 'sequence', 'mapping-rev'):
                out.append({'kind': 'rounds', 'backend': b, 'n': 4,
                            'rounds': 3, 'shape': shape})
            out.append({'kind': 'rounds', 'backend': b, 'n': 3, 'rounds': 4,
                        'shape': 'mapping'})
            for pools in (0, 1):
                out.append({'kind': 'sched', 'backend': b, 'n': 2,
                            'pools': pools})
    return out


def setup(mode):
    quiet_logging()
    import slimta.queue
    import slimta.queue.dict
    import slimta.diskstorage
    import slimta.redisstorage
    import slimta.cloudstorage
    import slimta.bounce


def cleanup():
    pass


def check_attempts(relay, info):
    """obligations (a) settled recipients never re-attempted, (b) exactly the
    outstanding ones are, (c) never two attempts of one message at once"""
    by_tag = {}
    for c in relay.calls:
        by_tag.setdefault(c['tag'], []).append(c)
    for tag, calls in by_tag.items():
        settled = set()
        outstanding = None
        for j, c in enumerate(calls):
            api.prove(c['concurrent'] == 1, 'two-attempts-in-flight', tag=tag,
                      attempt=j, **info)
            again = sorted(settled & set(c['rcpts']))
            api.prove(not again, 'settled-recipient-attempted-again',
                      tag=tag, attempt=j, again=again, rcpts=c['rcpts'],
                      **info)
            if outstanding is not None:
                api.prove(sorted(c['rcpts']) == sorted(outstanding),
                          'attempt-not-for-outstanding-recipients', tag=tag,
                          attempt=j, rcpts=c['rcpts'],
                          expected=sorted(outstanding), **info)
            kind, detail = c['outcome'] or (None, None)
            if kind in (qc.Outcome.MAPPING, qc.Outcome.SEQUENCE):
                pairs = list(zip(c['rcpts'], detail))
                if kind == qc.Outcome.MAPPING:
                    # a mapping is keyed by address: an address listed twice
                    # has one result (the scripted relay keeps the last)
                    eff = dict(pairs)
                    pairs = [(r, eff[r]) for r in c['rcpts']]
                outstanding = [r for r, o in pairs
                               if o != 'ok' and o[0] == 'temp']
                settled.update(r for r, o in pairs
                               if o == 'ok' or o[0] == 'perm')
                # (sequence form, address listed twice with different
                # results: the address is still owed its other position;
                # the multiset comparison above judges the next attempt)
                settled.difference_update(outstanding)
            elif kind in (qc.Outcome.TRANSIENT, qc.Outcome.OTHER):
                outstanding = list(c['rcpts'])
            else:
                outstanding = []
                settled.update(c['rcpts'])
        # intervals of one id never overlap
        for a, b in zip(calls, calls[1:]):
            api.prove(a['finish'] <= b['start'], 'attempts-overlap', tag=tag,
                      **info)


def run(cell):
    return globals()['run_' + cell['kind']](cell)


def per_rcpt_outcomes(rec, allow):
    detail = []
    for i, r in enumerate(rec['rcpts']):
        o = api.choice('o%d_%d' % (rec['n'], i), 3)
        detail.append(['ok', ('perm', '5.1.1 no such user'),
                       ('temp', '4.2.0 mailbox busy')][o])
    return detail


def run_rounds(cell):
    import gevent
    from slimta.queue import Queue
    qc.fresh_hub()
    qc.patch_env()
    store, sub = qc.make_storage(cell['backend'])
    n, R = cell['n'], cell['rounds']
    shape = qc.Outcome.SEQUENCE if cell['shape'] == 'sequence' \
        else qc.Outcome.MAPPING

    def decide(rec):
        return shape, per_rcpt_outcomes(rec, 3)

    relay = qc.ScriptRelay(decide)
    if cell['shape'] == 'mapping-rev':
        relay.mapping_order = 'reversed'
    delays = []

    def backoff(envelope, attempts):
        if attempts >= R:
            return None
        d = api.real('delay%d' % attempts, 0)
        delays.append(d)
        return d

    if cell.get('store_fault'):
        # the k-th bookkeeping operation of the storage fails (for every k):
        # whatever the queue then does, it must not attempt settled
        # recipients again
        nops = [0]
        fail_at = api.choice('fail_op', cell['store_fault'])

        def faulty(name):
            orig = getattr(store, name)

            def op(*a, **kw):
                k = nops[0]
                nops[0] += 1
                if k == fail_at:
                    raise IOError('storage operation %s failed' % name)
                return orig(*a, **kw)
            setattr(store, name, op)
        for name in ('increment_attempts', 'set_timestamp',
                     'set_recipients_delivered', 'remove'):
            faulty(name)
    queue = Queue(store, relay, backoff=backoff,
                  bounce_factory=lambda env, reply: None)
    queue.start()
    if not cell.get('startup_race'):
        qc.run_until_quiescent()      # start-up load() has completed
    rc = RCPTS[:n]
    if cell.get('dup'):
        rc = [RCPTS[0], RCPTS[1], RCPTS[0]] + RCPTS[2:n - 1]
    env = qc.make_envelope('m1', 'sender@z', rc)
    res = queue.enqueue(env)
    qc.run_until_quiescent()
    queue.kill()
    info = dict(backend=cell['backend'], n=n, dup=cell.get('dup', 0))
    api.observe('attempts', [[c['rcpts'], c['attempts']]
                             for c in relay.calls])
    api.note('errors', list(qc.ERRORS))
    check_attempts(relay, info)
    api.prove(len(relay.calls) >= 1, 'never-attempted', **info)


def run_sched(cell):
    """schedules: flush() and a duplicate wait() announcement at symbolic
    instants, relay duration symbolic, pools bounded or not"""
    import gevent
    from slimta.queue import Queue
    qc.fresh_hub()
    qc.patch_env()
    store, sub = qc.make_storage(cell['backend'])
    n = cell['n']
    announce = []

    if cell['backend'] in ('dict', 'disk'):
        # storage wait(): announces the known id once more at instant t_w
        from gevent.event import Event
        gate = Event()

        def wait():
            gate.wait()
            gate.clear()
            out, announce[:] = list(announce), []
            return out
        store.wait = wait
    dur = api.real('relay_dur', 0)

    def decide(rec):
        if rec['attempts'] >= 2:
            return qc.Outcome.OK, None
        return qc.Outcome.MAPPING, per_rcpt_outcomes(rec, 3)

    relay = qc.ScriptRelay(decide, duration=lambda rec: dur)

    def backoff(envelope, attempts):
        if attempts >= 3:
            return None
        return api.real('delay%d' % attempts, 0)

    pools = {}
    if cell['pools']:
        pools = dict(store_pool=2, relay_pool=1)
    queue = Queue(store, relay, backoff=backoff,
                  bounce_factory=lambda env, reply: None, **pools)
    queue.start()
    qc.run_until_quiescent()
    env = qc.make_envelope('m1', 'sender@z', RCPTS[:n])
    res = queue.enqueue(env)
    qid = res[0][1]
    t_flush = api.real('t_flush', 0)
    t_wait = api.real('t_wait', 0)

    def flusher():
        gevent.sleep(t_flush)
        fl = gevent.spawn(queue.flush)
        fl.join(0)

    def announcer():
        gevent.sleep(t_wait)
        if cell['backend'] in ('dict', 'disk'):
            announce.append((qc.now(), qid))
            gate.set()

    gevent.spawn(flusher)
    gevent.spawn(announcer)
    qc.run_until_quiescent()
    queue.kill()
    info = dict(backend=cell['backend'], n=n, pools=cell['pools'])
    api.observe('attempts', [[c['rcpts'], c['attempts']]
                             for c in relay.calls])
    check_attempts(relay, info)


def run_inject(cell):
    """an external event (duplicate announcement of the message through the
    storage's wait() mechanism, or flush()) injected inside the k-th storage
    operation of the run, for every k"""
    import gevent
    import pickle
    from slimta.queue import Queue
    qc.fresh_hub()
    qc.patch_env()
    backend = cell['backend']
    if backend == 'cloud':
        from slimta.cloudstorage import CloudStorage
        sub = qc.FakeObjectStore()
        mq = qc.FakeMessageQueue()
        store = CloudStorage(sub, mq)
    else:
        store, sub = qc.make_storage(backend)
        mq = None
    n = cell['n']
    announce = []
    gate = None
    if backend == 'disk':
        from gevent.event import Event
        gate = Event()

        def wait():
            gate.wait()
            gate.clear()
            out, announce[:] = list(announce), []
            return out
        store.wait = wait

    def decide(rec):
        if rec['attempts'] >= 2:
            return qc.Outcome.OK, None
        return qc.Outcome.MAPPING, per_rcpt_outcomes(rec, 3)

    relay = qc.ScriptRelay(decide, duration=(lambda rec: 1) if cell.get('dur') else None)

    def backoff(envelope, attempts):
        if attempts >= 3:
            return None
        return [0, 5][api.choice('delay%d' % attempts, 2)]

    queue = Queue(store, relay, backoff=backoff,
                  bounce_factory=lambda env, reply: None)
    queue.start()
    qc.run_until_quiescent()
    env = qc.make_envelope('m1', 'sender@z', RCPTS[:n])
    what = api.choice('event', 2)
    k = api.choice('k', cell['K'])
    state = {}

    def event():
        qid = state.get('id')
        if what == 1:
            gevent.spawn(queue.flush)
            return
        if qid is None:
            return
        if backend == 'disk':
            announce.append((qc.now(), qid))
            gate.set()
        elif backend == 'redis':
            sub.lists.setdefault(store.queue_key, []).append(
                pickle.dumps((qc.now(), qid)))
            sub._wake()
        else:
            mq.msgs.append((qc.now(), qid, 999))
            mq.ev.set()

    base = qc.YIELDS[0]
    qc.INJECT[base + k] = event
    orig_write = store.write

    def write(envelope, timestamp):
        qid = orig_write(envelope, timestamp)
        state['id'] = qid
        return qid
    store.write = write
    queue.enqueue(env)
    qc.run_until_quiescent()
    queue.kill()
    info = dict(backend=backend, n=n, event=['announce', 'flush'][what], k=k)
    api.observe('attempts', [[c['rcpts'], c['attempts']]
                             for c in relay.calls])
    check_attempts(relay, info)


def classify(cell, inputs, failure):
    return {'kind': cell['kind'], 'backend': cell['backend'],
            'startup_race': cell.get('startup_race', 0),
            'event': (failure.get('info') or {}).get('event')}
