"""C16 - queue policies conserve recipients and content.

Real code executed: Queue._run_policies / enqueue, RecipientSplit.apply,
RecipientDomainSplit.apply/_get_domain/_get_domain_groups, Forward.apply,
AddDateHeader/AddMessageIdHeader/AddReceivedHeader.apply, Envelope.copy/
prepend_header.
"""
import re

from symx import api
from symx.api import And, Or, Not, Ite
from . import qcommon as qc
from .common import quiet_logging

PROPERTY = 'C16'
EXPECT_ENTERED = ['Queue._run_policies', 'RecipientSplit.apply',
                  'RecipientDomainSplit.apply',
                  'RecipientDomainSplit._get_domain', 'Forward.apply',
                  'AddDateHeader.apply', 'AddMessageIdHeader.apply',
                  'AddReceivedHeader.apply', 'Envelope.copy',
                  'Envelope.prepend_header']
BOUNDS = {
    'quick': 'symbolic cells: 3 recipients, each 3 symbolic characters over '
             '{@ . a A b B 1} (so missing/empty domains, mixed case, '
             'duplicates occur), through domain split, recipient split and '
             'both in either order (4 recipients: domain split then recipient '
             'split); chain cells: every chain of <=2 policies '
             'out of 12 (recipient split, domain split, forward with 5 rule '
             'sets, Date, Message-Id, Received, pass-through test policy, two '
             'generator-style test policies) '
             'over 5 recipient lists from a menu, Date/Message-Id present or '
             'absent or present with an empty value, header-less message',
    'thorough': 'symbolic recipients of 4 characters; chains of 3 policies',
}
OUTSIDE = 'copy.deepcopy / email.message internals (run natively)'
STUBS = ['recording storage', 'OrderedDict -> equality-based ordered map '
         '(symbolic keys)', 'deterministic uuid4 / timestamps']
ASSUMPTIONS = ['a forwarding rule that rewrites a recipient to the empty '
               'string is skipped (documented behaviour of Forward.apply)']
CELL_BUDGET_S = {'quick': 240, 'thorough': 2400}
SAMPLE_P = 0.02
MAX_WITNESSES = 10
ALPHA = [0x40, 0x2e, 0x61, 0x41, 0x62, 0x42, 0x31]

MENU = [
    ['a@x.com', 'b@y.org', 'c@X.COM'],
    ['a@x.com', 'a@x.com', 'postmaster', 'b@'],
    ['only@one.net'],
    ['u@list.x.com', 'v@y.org', 'x.com', 'w@Y.ORG'],
    ['a1@one.net', 'a2@one.net', 'b1@two.net', 'b2@two.net', 'c@one.net'],
]
RULES = [
    [(r'@x\.com$', '@mail.x.com', 0)],
    [(r'^(.*)@list\.(.*)$', r'\1@\2', 0), (r'^v@', 'vv@', 0)],
    [(r'^postmaster$', 'root@localhost', 0), (r'^a@x\.com$', '', 0),
     (r'a', 'A', 1)],
    # the rule that empties the recipient is the last (only) one tried
    [(r'^postmaster$', '', 0)],
    # an exemption: the first matching rule rewrites the address to itself,
    # a broader rule follows
    [(r'^(postmaster|a@x\.com)$', r'\g<0>', 0), (r'^(post|a@)', 'X', 0)],
]
POLICIES = ['rsplit', 'dsplit', 'fwd0', 'fwd1', 'fwd2', 'fwd3', 'fwd4', 'date', 'msgid',
            'received', 'passthru', 'genpass', 'gennone']


def cells(tier):
    out = []
    k = 3 if tier == 'quick' else 4
    for chain in (['dsplit'], ['rsplit'], ['dsplit', 'rsplit'],
                  ['rsplit', 'dsplit']):
        out.append({'kind': 'sym', 'chain': chain, 'k': k})
    out.append({'kind': 'sym', 'chain': ['dsplit', 'rsplit'], 'k': 3, 'n': 4})
    depth = 2 if tier == 'quick' else 3
    for first in POLICIES:
        out.append({'kind': 'chain', 'first': first, 'depth': depth})
    return out


def setup(mode):
    quiet_logging()
    import slimta.queue
    import slimta.policy.split
    import slimta.policy.forward
    import slimta.policy.headers


class RecStore(object):
    def __init__(self):
        self.written = []

    def write(self, envelope, timestamp):
        self.written.append(envelope)
        return 'id%d' % len(self.written)


def make_policy(name):
    from slimta.policy import QueuePolicy
    from slimta.policy.split import RecipientSplit, RecipientDomainSplit
    from slimta.policy.forward import Forward
    from slimta.policy.headers import AddDateHeader, AddMessageIdHeader, \
        AddReceivedHeader
    if name == 'rsplit':
        return RecipientSplit()
    if name == 'dsplit':
        return RecipientDomainSplit()
    if name.startswith('fwd'):
        f = Forward()
        for pat, repl, count in RULES[int(name[3:])]:
            f.add_mapping(pat, repl, count)
        return f
    if name == 'date':
        return AddDateHeader()
    if name == 'msgid':
        return AddMessageIdHeader('mx.test')
    if name == 'received':
        return AddReceivedHeader()

    if name == 'genpass':
        # "return or generate an iterable" (QueuePolicy.apply docstring)
        class GenPass(QueuePolicy):
            def apply(self, envelope):
                yield envelope
        return GenPass()
    if name == 'gennone':
        class GenNone(QueuePolicy):
            def apply(self, envelope):
                envelope.headers['X-Seen'] = 'yes'
                return
                yield
        return GenNone()

    class PassThru(QueuePolicy):
        def apply(self, envelope):
            return [envelope]
    return PassThru()


def run(cell):
    return globals()['run_' + cell['kind']](cell)


def count_eq(items, x):
    total = 0
    for it in items:
        total = total + Ite(it == x, 1, 0)
    return total


def run_sym(cell):
    from slimta.queue import Queue
    from slimta.envelope import Envelope
    qc.fresh_hub()
    qc.patch_env()
    k = cell['k']
    rcpts = []
    nr = cell.get('n', 3)
    for i in range(nr):
        r = api.sstr('r%d' % i, k, 0x2e, 0x62)
        for j in range(k):
            api.assume(Or(*[r[j:j + 1] == chr(c) for c in ALPHA]))
        rcpts.append(r)
    env = Envelope('s@z', list(rcpts))
    env.parse(b'Subject: x\r\n\r\nbody\r\n')
    store = RecStore()
    queue = Queue(store, None)
    for p in cell['chain']:
        queue.add_policy(make_policy(p))
    try:
        queue.enqueue(env)
    except api.Unsupported:
        raise
    except Exception as e:
        api.fail('enqueue-raised', exc=type(e).__name__, msg=str(e)[:120])
        return
    out = store.written
    info = dict(chain=cell['chain'], n_out=len(out))
    allr = [r for e in out for r in e.recipients]
    api.observe('n_out', len(out))
    api.prove(len(allr) == nr, 'recipient-count-changed', got=len(allr),
              **info)
    for r in rcpts:
        api.prove(count_eq(allr, r) == count_eq(rcpts, r),
                  'recipient-multiset-changed', **info)
    check_common(out, env, info, 's@z', b'body\r\n')
    if 'rsplit' in cell['chain']:
        api.prove(all(len(e.recipients) == 1 for e in out),
                  'recipient-split-left-several-recipients', **info)


def check_common(out, env, info, sender, body):
    for e in out:
        api.prove(e.sender == sender, 'sender-changed', **info)
        api.prove(e.message == body, 'body-changed', **info)
    for i, a in enumerate(out):
        for b in out[i + 1:]:
            api.prove(a is not b and a.recipients is not b.recipients and
                      a.headers is not b.headers and
                      a.headers._headers is not b.headers._headers,
                      'envelopes-share-mutable-state', **info)
    if len(out) > 1:
        # mutate the first: the others must not change
        before = [(list(e.recipients), list(e.headers.items()))
                  for e in out[1:]]
        out[0].recipients.append('intruder@x')
        out[0].headers['X-Test'] = 'changed'
        after = [(list(e.recipients), list(e.headers.items()))
                 for e in out[1:]]
        api.prove(before == after, 'mutation-leaks-between-envelopes', **info)
        out[0].recipients.pop()
        del out[0].headers['X-Test']


def ref_forward(rules, rcpt):
    for pat, repl, count in rules:
        new, n = re.subn(pat, repl, rcpt, count)
        if new and n > 0:
            return new
    return rcpt


def run_chain(cell):
    from slimta.queue import Queue
    from slimta.envelope import Envelope
    qc.fresh_hub()
    qc.patch_env()
    chain = [cell['first']]
    for d in range(1, cell['depth']):
        c = api.choice('p%d' % d, len(POLICIES) + 1)
        if c == len(POLICIES):
            break
        chain.append(POLICIES[c])
    rc = MENU[api.choice('rcpts', len(MENU))]
    hdr = api.choice('headers', 5)
    data = [b'Subject: x\r\n',
            b'Date: Mon, 1 Jan 2001 00:00:00 +0000\r\nSubject: x\r\n',
            b'Message-Id: <orig@client>\r\nDATE: Mon, 1 Jan 2001 00:00:00 '
            b'+0000\r\n',
            b'',
            # present, with an empty value
            b'Date:\r\nMessage-Id: \r\nSubject: x\r\n'][hdr] + \
        b'\r\nbody \xff\r\n.\r\n'
    env = Envelope('s@z', list(rc))
    env.parse(data)
    env.timestamp = 1234567890.0
    env.receiver = 'mx.test'
    env.client = {'name': 'client', 'ip': '10.0.0.1', 'host': None,
                  'protocol': 'ESMTP'}
    orig_headers = list(env.headers.items())
    body = env.message
    store = RecStore()
    queue = Queue(store, None)
    for p in chain:
        queue.add_policy(make_policy(p))
    try:
        queue.enqueue(env)
    except api.Unsupported:
        raise
    except Exception as e:
        api.fail('enqueue-raised', exc=type(e).__name__, msg=str(e)[:120])
        return
    out = store.written
    info = dict(chain=chain, rcpts=rc, headers=hdr, n_out=len(out))
    # expected recipients: forwarding rules applied in chain order
    want = list(rc)
    for p in chain:
        if p.startswith('fwd'):
            want = [ref_forward(RULES[int(p[3:])], r) for r in want]
    got = [r for e in out for r in e.recipients]
    api.observe('got', sorted(got))
    api.prove(sorted(got) == sorted(want), 'recipients-not-conserved',
              got=sorted(got), want=sorted(want), **info)
    check_common(out, env, info, 's@z', body)
    had_date = hdr in (1, 2, 4)
    had_mid = hdr in (2, 4)
    for e in out:
        names = [k.lower() for k in e.headers.keys()]
        if 'date' in chain:
            api.prove(names.count('date') == 1, 'date-header-count',
                      n=names.count('date'), **info)
        else:
            api.prove(names.count('date') == (1 if had_date else 0),
                      'date-header-count', **info)
        if 'msgid' in chain:
            api.prove(names.count('message-id') == 1, 'message-id-count',
                      n=names.count('message-id'), **info)
        if had_date:
            odate = [v for k, v in orig_headers if k.lower() == 'date']
            api.prove([v for k, v in e.headers.items()
                       if k.lower() == 'date'] == odate,
                      'date-header-overwritten', **info)
        if had_mid:
            omid = [v for k, v in orig_headers if k.lower() == 'message-id']
            api.prove([v for k, v in e.headers.items()
                       if k.lower() == 'message-id'] == omid,
                      'message-id-overwritten', **info)
        nrec = chain.count('received')
        api.prove(names.count('received') == nrec, 'received-count',
                  n=names.count('received'), **info)
        if nrec:
            api.prove(names[0] == 'received', 'received-not-first',
                      first=names[0], **info)
        # original headers all still there, in order
        rest = [(k, v) for k, v in e.headers.items()
                if (k, v) in orig_headers]
        api.prove(rest == orig_headers, 'original-headers-changed', **info)


def classify(cell, inputs, failure):
    return {'kind': cell['kind']}
