"""C01 - accepted mail is never lost: every recipient reaches a final
disposition (delivered, or failed for good and bounced), on every backend.

Real code executed: Queue.enqueue/_run_policies/_pool_imap/_pool_spawn/
_attempt/_handle_partial_relay/_retry_later/_perm_fail/_bounce/
_split_by_reply/_remove/_dequeue/_check_ready/_wait_ready/_add_queued/
_load_all/_run, QueueStorage helpers, all four storage backends, Bounce.
"""
from symx import api
from . import qcommon as qc
from . import qhist
from .common import quiet_logging

PROPERTY = 'C01'
EXPECT_ENTERED = ['Queue._attempt', 'Queue._handle_partial_relay',
                  'Queue._retry_later', 'Queue._perm_fail', 'Queue._remove',
                  'Queue._bounce', 'Queue._split_by_reply']
BOUNDS = {
    'quick': 'one message, 2 recipients, <=2 retry rounds; per attempt the '
             'relay outcome is any of: None, Reply, raise Transient, raise '
             'Permanent, raise other exception, per-recipient mapping or '
             'sequence (each recipient ok/permanent/transient); per round the '
             'backoff grants a retry (delay 0) or not; 4 backends; sender '
             'empty or not; plus 3 recipients x 2 rounds on dict, disk and redis, 2 recipients x 3 rounds with symbolic positive delays on redis, cloud and disk; bounded '
             'pools on redis; mapping listed in reverse recipient order; '
             'RecipientSplit policy with store writes of uneven latency '
             '(0 or 1 extra scheduler turn each) on dict and redis',
    'thorough': '3 recipients x 3 rounds on all backends, symbolic delays, '
                'sequence results, bounded pools, reversed mappings and '
                'split policy with uneven write latency on all backends',
}
OUTSIDE = ('real relays (their result contract is checked by C11); real '
           'redis/S3/aio; histories longer than the bound; process crashes '
           '(C04)')
STUBS = ['virtual-time gevent loop', 'ScriptRelay', 'FakeRedis / '
         'FakeObjectStore / FakeFS+pyaio', 'recording bounce queue',
         'deterministic uuid4', 'slimta.logging -> no-ops']
ASSUMPTIONS = ['the backoff function stops granting retries after the '
               'stated number of rounds (so every history is finite)',
               'final disposition is judged at quiescence of the event loop']
CELL_BUDGET_S = {'quick': 200, 'thorough': 2400}
SAMPLE_P = 0.02
MAX_WITNESSES = 10


def cells(tier):
    """the thorough tier is the deeper cells plus every cell of the quick
    tier (special situations are written once, for the quick tier)"""
    out = _cells(tier)
    if tier != 'quick':
        for c in _cells('quick'):
            if c not in out:
                out.append(c)
    return out


def _cells(tier):
    out = []
    backends = ['dict', 'disk', 'redis', 'cloud']
    allk = ['none', 'reply', 'transient', 'permanent', 'other', 'oserror',
            'mapping']
    if tier == 'quick':
        for b in backends:
            out.append({'backend': b, 'n': 2, 'rounds': 2, 'kinds': allk})
        out.append({'backend': 'dict', 'n': 2, 'rounds': 2, 'null_sender': 1,
                    'kinds': allk})
        out.append({'backend': 'disk', 'n': 2, 'rounds': 2,
                    'kinds': ['transient', 'sequence', 'none']})
        for b in ('dict', 'disk', 'redis'):
            out.append({'backend': b, 'n': 3, 'rounds': 2,
                        'kinds': ['mapping', 'transient']})
        for b in ('redis', 'cloud', 'disk'):
            out.append({'backend': b, 'n': 2, 'rounds': 3, 'sym_delay': 1,
                        'kinds': ['mapping', 'transient', 'none']})
        out.append({'backend': 'redis', 'n': 2, 'rounds': 2, 'pools': 1,
                    'kinds': ['mapping', 'transient', 'permanent', 'none']})
        out.append({'backend': 'dict', 'n': 2, 'rounds': 2,
                    'bounce_queue': 'self',
                    'kinds': ['mapping', 'transient', 'permanent']})
        # the smallest bounded pools, alone and together
        out.append({'backend': 'dict', 'n': 2, 'rounds': 2, 'store_pool': 1,
                    'kinds': ['mapping', 'transient', 'permanent', 'none']})
        out.append({'backend': 'disk', 'n': 2, 'rounds': 2, 'store_pool': 1,
                    'relay_pool': 1,
                    'kinds': ['mapping', 'transient', 'permanent', 'none']})
        out.append({'backend': 'dict', 'n': 2, 'rounds': 2, 'rev_map': 1,
                    'kinds': ['mapping', 'transient']})
        out.append({'backend': 'dict', 'n': 2, 'rounds': 2, 'split': 1,
                    'kinds': ['none', 'transient', 'permanent']})
        out.append({'backend': 'redis', 'n': 2, 'rounds': 2, 'split': 1,
                    'kinds': ['none', 'transient']})
    else:
        for b in backends:
            out.append({'backend': b, 'n': 3, 'rounds': 3,
                        'kinds': ['mapping', 'transient', 'none']})
            out.append({'backend': b, 'n': 2, 'rounds': 3, 'kinds': allk +
                        ['sequence'], 'sym_delay': 1})
            out.append({'backend': b, 'n': 2, 'rounds': 2, 'kinds': allk,
                        'null_sender': 1})
            out.append({'backend': b, 'n': 2, 'rounds': 2, 'pools': 1,
                        'kinds': allk})
            out.append({'backend': b, 'n': 2, 'rounds': 2,
                        'bounce_queue': 'self', 'kinds': allk})
            out.append({'backend': b, 'n': 3, 'rounds': 2, 'rev_map': 1,
                        'kinds': ['mapping', 'transient']})
            out.append({'backend': b, 'n': 3, 'rounds': 2, 'split': 1,
                        'kinds': ['none', 'transient', 'permanent']})
    return out


def setup(mode):
    quiet_logging()
    import slimta.queue
    import slimta.queue.dict
    import slimta.diskstorage
    import slimta.redisstorage
    import slimta.cloudstorage
    import slimta.bounce


def run(cell):
    h = qhist.run_history(cell)
    rcpts = qhist.RCPTS[:cell['n']]
    info = dict(backend=cell['backend'])
    if not api.prove(h['accepted'], 'enqueue-failed', **info):
        return
    calls = [c for c in h['relay'].calls if c['tag'] == 'm1']
    if cell.get('split'):
        # one envelope per recipient: each is judged by its own attempts
        disp = {}
        for r in rcpts:
            d, _ = qhist.reference(h, [r], [c for c in calls
                                            if c['rcpts'] == [r]])
            disp.update(d)
        pairs = [(e.recipients, i) for e, i in h['result']]
    else:
        disp, groups = qhist.reference(h, rcpts)
        pairs = [(rcpts, h['qid'])]
    api.observe('attempts', [[c['rcpts'], c['attempts'],
                              qc.Outcome.NAMES[c['outcome'][0]]]
                             for c in calls])
    api.observe('stored', sorted(h['stored']))
    info['history'] = [qc.Outcome.NAMES[c['outcome'][0]] for c in calls]
    # a message left in storage after every recipient was delivered or
    # bounced is a duplicate-delivery risk, not a loss: recorded, not judged
    api.note('left_in_storage', h['qid'] in h['stored'])
    gone_early = any(i not in h['stored'] and
                     any(disp[r] == 'outstanding' for r in rs)
                     for rs, i in pairs)
    api.prove(not gone_early, 'removed-with-recipients-outstanding',
              disp=disp, **info)
    for r in rcpts:
        api.prove(disp[r] != 'outstanding',
                  'recipient-without-final-disposition', rcpt=r, disp=disp,
                  **info)
    if h['sender']:
        handed = [id(b) for b in h['bounces']]
        for r in rcpts:
            if disp[r] != 'failed':
                continue
            named = [fc for fc in h['factory_calls'] if r in fc['rcpts']
                     and fc['bounce'] is not None
                     and id(fc['bounce']) in handed]
            api.prove(len(named) >= 1, 'failed-recipient-not-bounced',
                      rcpt=r, **info)
    else:
        api.prove(not h['factory_calls'], 'bounce-for-null-sender', **info)
    unexpected = [e for e in h['errors']
                  if 'unexpected relay failure' not in e['value'] and
                  'Connection refused' not in e['value']]
    api.prove(not unexpected, 'exception-escaped-queue-greenlet',
              errors=unexpected[:2], **info)


def classify(cell, inputs, failure):
    return {'backend': cell['backend'], 'pools': cell.get('pools', 0),
            'bounce_queue': cell.get('bounce_queue', 'separate')}
