"""C02 - an edge acknowledges a message only after custody of every recipient
is taken (SMTP and WSGI edges, Queue and ProxyQueue).

Real code executed: Server.handle/_command_*/_get_message_data, SmtpSession.*
(HAVE_DATA), WsgiEdge.__call__/_validate_request/_get_envelope/
_enqueue_envelope/_build_http_response, Edge.handoff, Queue.enqueue/
_run_policies/_pool_imap, RecipientSplit/RecipientDomainSplit.apply,
ProxyQueue.enqueue.
"""
from symx import api
from symx.api import And, Or, Not
from . import qcommon as qc
from .common import FakeSocket, quiet_logging

PROPERTY = 'C02'
EXPECT_ENTERED = ['SmtpSession.HAVE_DATA', 'WsgiEdge._enqueue_envelope',
                  'Edge.handoff', 'Queue.enqueue', 'Queue._pool_imap',
                  'Queue._run_policies', 'ProxyQueue.enqueue',
                  'Server._get_message_data']
BOUNDS = {
    'quick': 'policy chains (none / domain split / recipient split / domain '
             'split then recipient split / recipient split then a user policy '
             'returning an empty list or exhausted generator) over 3 recipients in 2 domains '
             '(1..3 envelopes); the k-th storage write fails (every k, or '
             'none) with a QueueError carrying a reply with symbolic code '
             '(4xx/5xx), a QueueError without reply, or another exception; '
             'every write has a symbolic latency; bounded or unbounded store '
             'pool; both edges; ProxyQueue with a relay that returns '
             'None/Reply, raises transient/permanent, or returns a '
             'per-recipient mapping or sequence with any failure pattern',
    'thorough': 'same with 4 recipients in 3 domains and two failing writes',
}
OUTSIDE = ('validators that overwrite the reply in handle_queued; the HTTP '
           'server below the WSGI callable; real sockets')
STUBS = ['FakeSocket client script', 'FaultyStore (write = latency + fault)',
         'PtrLookup -> inert', 'virtual-time gevent loop',
         'slimta.logging -> no-ops']
ASSUMPTIONS = ['"custody" = QueueStorage.write returned an id (Queue) / the '
               'relay accepted every recipient (ProxyQueue)']
CELL_BUDGET_S = {'quick': 200, 'thorough': 1200}
SAMPLE_P = 0.01
MAX_WITNESSES = 10

RCPTS = ['a@x.com', 'b@y.com', 'c@X.com', 'd@z.org']
CHAINS = {'none': [], 'domain': ['domain'], 'rcpt': ['rcpt'],
          'domain+rcpt': ['domain', 'rcpt'],
          # a user policy that answers with an EMPTY list / an exhausted
          # generator ("nothing to replace"): the envelope is kept
          'rcpt+empty': ['rcpt', 'empty']}


def cells(tier):
    out = []
    n = 3 if tier == 'quick' else 4
    for edge in ('smtp', 'wsgi'):
        for chain in sorted(CHAINS):
            out.append({'edge': edge, 'queue': 'queue', 'chain': chain,
                        'n': n, 'pool': 0})
        out.append({'edge': edge, 'queue': 'queue', 'chain': 'rcpt', 'n': n,
                    'pool': 1})
        out.append({'edge': edge, 'queue': 'proxy', 'n': n})
        # the same recipient address given twice
        out.append({'edge': edge, 'queue': 'proxy', 'n': 3, 'dup': 1})
    return out


def setup(mode):
    quiet_logging()
    import slimta.edge.smtp as es
    import slimta.edge.wsgi as ew
    import slimta.queue
    import slimta.queue.proxy
    import slimta.policy.split

    class NoPtr(object):
        def __init__(self, ip):
            pass

        def start(self):
            pass

        def finish(self, *a, **k):
            return None

        def kill(self, *a, **k):
            pass
    es.PtrLookup = NoPtr
    ew.PtrLookup = NoPtr


class FaultyStore(object):
    """QueueStorage whose writes take symbolic time and may fail"""

    def __init__(self, fail_at, fault):
        self.fail_at = fail_at
        self.fault = fault
        self.n = 0
        self.completed = []     # (virtual instant, recipients)
        self.failed = []

    def write(self, envelope, timestamp):
        from slimta.queue import QueueError
        from slimta.smtp.reply import Reply
        i = self.n
        self.n += 1
        qc.yield_point(api.real('write_latency%d' % i, 0))
        if i == self.fail_at:
            self.failed.append(list(envelope.recipients))
            if self.fault == 'reply':
                e = QueueError('no space')
                code = api.sstr('qcode0', 1, 0x34, 0x35) + \
                    api.sstr('qcode12', 2, 0x30, 0x39)
                e.reply = Reply(code, 'storage trouble')
                raise e
            if self.fault == 'noreply':
                raise QueueError('no space')
            raise RuntimeError('disk on fire')
        self.completed.append((qc.now(), list(envelope.recipients)))
        return 'id%d' % i

    def load(self):
        return []

    def wait(self):
        raise NotImplementedError()


class TimedSocket(FakeSocket):
    def sendall(self, data):
        self.sent.append(data)
        self.times.append(qc.now())
    send = sendall


def smtp_transcript(sock):
    """-> list of (reply line bytes, instant)"""
    out = []
    for data, t in zip(sock.sent, sock.times):
        out.append((data, t))
    return out


def build_queue(cell, store):
    from slimta.queue import Queue
    from slimta.policy.split import RecipientSplit, RecipientDomainSplit
    kw = {}
    if cell.get('pool'):
        kw['store_pool'] = 1
    queue = Queue(store, None, **kw)
    from slimta.policy import QueuePolicy

    class EmptyPolicy(QueuePolicy):
        def __init__(self, gen):
            self.gen = gen

        def apply(self, envelope):
            return iter(()) if self.gen else []
    for p in CHAINS[cell['chain']]:
        if p == 'empty':
            queue.add_policy(EmptyPolicy(api.choice('empty_is_generator', 2)))
            continue
        queue.add_policy(RecipientDomainSplit() if p == 'domain'
                         else RecipientSplit())
    return queue


def expected_envelopes(chain, rcpts):
    """recipient groups the policy chain produces (reference)"""
    groups = [list(rcpts)]
    for p in CHAINS[chain]:
        new = []
        for g in groups:
            if p == 'empty':
                new.append(g)
            elif p == 'rcpt':
                new.extend([[r] for r in g] if len(g) > 1 else [g])
            else:
                doms = {}
                order = []
                for r in g:
                    d = r.rsplit('@', 1)[1].lower()
                    if d not in doms:
                        doms[d] = []
                        order.append(d)
                    doms[d].append(r)
                new.extend([doms[d] for d in order] if len(order) > 1
                           else [g])
        groups = new
    return groups


class ScriptedProxyRelay(object):
    def __init__(self, n):
        self.n = n
        self.results = None

    def _attempt(self, envelope, attempts):
        from slimta.relay import PermanentRelayError, TransientRelayError
        from slimta.smtp.reply import Reply
        kind = api.choice('relay_kind', 6)
        qc.yield_point(api.real('relay_latency', 0))
        self.kind = ['none', 'reply', 'transient', 'permanent', 'mapping',
                     'sequence'][kind]
        if kind == 0:
            self.results = ['ok'] * self.n
            return None
        if kind == 1:
            self.results = ['ok'] * self.n
            return Reply('250', '2.0.0 ok')
        if kind == 2:
            self.results = ['temp'] * self.n
            raise TransientRelayError('later', Reply('450', '4.0.0 later'))
        if kind == 3:
            self.results = ['perm'] * self.n
            raise PermanentRelayError('no', Reply('550', '5.0.0 no'))
        res = []
        self.results = []
        for i in range(self.n):
            o = api.choice('rr%d' % i, 3)
            self.results.append(['ok', 'perm', 'temp'][o])
            res.append([None, PermanentRelayError('no', Reply('550', '5.1.1 no')),
                        TransientRelayError('later', Reply('450', '4.2.0 later'))][o])
        self.done_at = qc.now()
        if kind == 5:
            return res
        # a mapping has one entry per address: for an address listed twice
        # the relay reports the later result
        eff = dict(zip(envelope.recipients, self.results))
        self.results = [eff[r] for r in envelope.recipients]
        return dict(zip(envelope.recipients, res))


def run(cell):
    import gevent
    qc.fresh_hub()
    qc.patch_env()
    n = cell['n']
    rcpts = RCPTS[:n]
    if cell.get('dup'):
        rcpts = [RCPTS[0], RCPTS[1], RCPTS[0]]
    info = dict(edge=cell['edge'], queue=cell['queue'],
                chain=cell.get('chain'))
    if cell['queue'] == 'proxy':
        from slimta.queue.proxy import ProxyQueue
        relay = ScriptedProxyRelay(n)
        queue = ProxyQueue(relay)
        store = None
        m = 1
    else:
        groups = expected_envelopes(cell['chain'], rcpts)
        m = len(groups)
        fail_at = api.choice('fail_at', m + 1) - 1       # -1 = none
        fault = ['reply', 'noreply', 'other'][api.choice('fault', 3)] \
            if fail_at >= 0 else None
        store = FaultyStore(fail_at, fault)
        queue = build_queue(cell, store)
        info.update(m=m, fail_at=fail_at, fault=fault)
    if cell['edge'] == 'smtp':
        code, sent_at, crashed = drive_smtp(queue, rcpts)
    else:
        code, sent_at, crashed = drive_wsgi(queue, rcpts)
    api.observe('code', code)
    ok2 = code is not None and code[0:1] == '2'
    if store is not None:
        all_done = len(store.completed) == m and not store.failed
        if fault == 'other' and fail_at >= 0:
            # a non-QueueError storage exception: the edge must not say 2xx
            api.prove(Not(ok2), 'acknowledged-although-write-raised', **info)
            return
        if not api.prove(code is not None, 'no-reply', crashed=crashed,
                         **info):
            return
        api.prove(Or(Not(ok2), all_done),
                  'acknowledged-without-custody-of-every-envelope',
                  completed=len(store.completed), **info)
        if all_done:
            api.prove(And(*[sent_at >= t for t, _ in store.completed]),
                      'acknowledged-before-write-completed', **info)
            api.prove(ok2, 'refused-although-all-writes-succeeded',
                      code=code, **info)
        if fail_at >= 0:
            api.prove(Or(code[0:1] == '4', code[0:1] == '5'),
                      'failed-write-not-reported-as-4xx-5xx', **info)
    else:
        if not api.prove(code is not None, 'no-reply', crashed=crashed,
                         **info):
            return
        all_ok = all(r == 'ok' for r in relay.results)
        info['relay'] = relay.kind
        api.prove(Or(Not(ok2), all_ok),
                  'acknowledged-although-relay-refused-a-recipient',
                  results=relay.results, **info)
        if all_ok:
            api.prove(ok2, 'refused-although-relay-accepted', **info)
        else:
            api.prove(Or(code[0:1] == '4', code[0:1] == '5'),
                      'relay-failure-not-reported-as-4xx-5xx', **info)


def drive_smtp(queue, rcpts):
    import gevent
    from slimta.edge.smtp import SmtpEdge
    script = b'EHLO client\r\nMAIL FROM:<s@z.com>\r\n' + \
        b''.join(b'RCPT TO:<' + r.encode() + b'>\r\n' for r in rcpts) + \
        b'DATA\r\nSubject: t\r\n\r\nhello\r\n.\r\nQUIT\r\n'
    sock = TimedSocket([script], eof=True)
    sock.times = []
    edge = SmtpEdge(None, queue, hostname='mx.test')
    crashed = []

    def session():
        try:
            edge.handle(sock, ('10.0.0.1', 4321))
        except Exception as e:
            crashed.append(type(e).__name__)
    g = gevent.spawn(session)
    qc.run_until_quiescent()
    # replies: banner, EHLO, MAIL, n x RCPT, 354, <data reply>, QUIT
    replies = []
    for data, t in zip(sock.sent, sock.times):
        for line in data.split(b'\r\n'):
            if len(line) >= 4 and line[3:4] == b' ':
                replies.append((line[0:3].decode('ascii'), t))
    idx = 3 + len(rcpts) + 1
    if len(replies) <= idx:
        return None, None, crashed
    return replies[idx][0], replies[idx][1], crashed


def drive_wsgi(queue, rcpts):
    import gevent
    from base64 import b64encode
    from io import BytesIO
    from slimta.edge.wsgi import WsgiEdge
    edge = WsgiEdge(queue, hostname='mx.test')
    body = b'Subject: t\r\n\r\nhello\r\n'
    environ = {'REQUEST_METHOD': 'POST', 'PATH_INFO': '/',
               'CONTENT_TYPE': 'message/rfc822',
               'CONTENT_LENGTH': str(len(body)),
               'wsgi.input': BytesIO(body), 'REMOTE_ADDR': '10.0.0.1',
               'HTTP_X_ENVELOPE_SENDER': b64encode(b's@z.com').decode(),
               'HTTP_X_ENVELOPE_RECIPIENT': ', '.join(
                   b64encode(r.encode()).decode() for r in rcpts),
               'HTTP_X_EHLO': 'client'}
    got = {}
    crashed = []

    def start_response(status, headers):
        got['status'] = status
        got['at'] = qc.now()

    def req():
        try:
            edge(environ, start_response)
        except Exception as e:
            crashed.append(type(e).__name__)
    g = gevent.spawn(req)
    qc.run_until_quiescent()
    if 'status' not in got:
        return None, None, crashed
    return got['status'][0:3], got['at'], crashed


def classify(cell, inputs, failure):
    return {'edge': cell['edge'], 'queue': cell['queue']}
