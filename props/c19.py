"""C19 - relay connection pools stay within bounds and strand no request.

Real code executed: RelayPool.attempt/_check_idle/_add_client/_remove_client,
RelayPoolClient.poll, BlockingDeque.*, SmtpRelayClient._run (poll /
_check_server_timeout / requeue / idle timeout) through StaticSmtpRelay over
scripted peers - on the real gevent, virtual time.
"""
from symx import api
from symx.api import And, Or, Not
from symx.core import Ite
from . import qcommon as qc
from . import netcommon as nc
from .common import quiet_logging

PROPERTY = 'C19'
EXPECT_ENTERED = ['RelayPool.attempt', 'RelayPool._check_idle',
                  'RelayPool._add_client', 'RelayPool._remove_client',
                  'RelayPoolClient.poll', 'BlockingDeque.append',
                  'BlockingDeque.popleft', 'SmtpRelayClient._run',
                  'SmtpRelayClient._check_server_timeout']
BOUNDS = {
    'quick': '3 attempt() calls at symbolic instants, pool size 1, 2 or '
             'unbounded, idle timeout none or 5 (symbolic service times decide '
             'whether connections are reused), each request either delivered, '
             'refused (550 at MAIL / RCPT, optionally with the RSET answered '
             'after the command timeout), cut off by a connection error at '
             'a chosen stage, or hit by a client crash (socket creator '
             'raising); senders that submit their next message the moment the '
             'previous result arrives, servers with symbolic service times; '
             'the server announcing 421 on an idle connection; '
             'BlockingDeque: every sequence of 4 operations from a deque of '
             '0..2 items',
    'thorough': '4 attempts',
}
OUTSIDE = 'HTTP relay clients (same pool code; their result handling is C11/C14)'
STUBS = ['ScriptedPeer per connection (counts open connections)',
         'fake wait_read over PipeSockets', 'virtual-time loop',
         'socket.getfqdn -> constant at once; gevent.socket.getfqdn -> one '
         'yield, then the constant']
ASSUMPTIONS = []
CELL_BUDGET_S = {'quick': 240, 'thorough': 2400}
SAMPLE_P = 0.02
MAX_WITNESSES = 10
MAX_DECISIONS = 60000


def cells(tier):
    out = []
    k = 3 if tier == 'quick' else 4
    for size in (1, 2, 0):
        for idle in (0, 1):
            out.append({'kind': 'pool', 'size': size, 'idle': idle, 'k': k,
                        'faults': 1})
    out.append({'kind': 'pool', 'size': 1, 'idle': 1, 'k': 2, 'faults': 2})
    # a sender that submits its next message the moment the previous result
    # arrives, servers that take a symbolic time to accept a message
    for size, idle in ((1, 0), (1, 1), (2, 0)):
        out.append({'kind': 'pool', 'size': size, 'idle': idle, 'k': 3,
                    'faults': 0, 'chain': 1, 'svc': 1})
    out.append({'kind': 'pool', 'size': 1, 'idle': 0, 'k': 3, 'faults': 1,
                'chain': 2, 'svc': 1})
    out.append({'kind': 'pool', 'size': 2, 'idle': 0, 'k': 3, 'faults': 0,
                'svc': 1, 'fair': 1})
    out.append({'kind': 'pool', 'size': 1, 'idle': 1, 'k': 2, 'faults': 1,
                'lmtp': 1})
    # no ehlo_as configured: every new client looks the host name up
    out.append({'kind': 'pool', 'size': 1, 'idle': 0, 'k': 3, 'faults': 0,
                'fqdn': 1, 'fair': 1, 'svc': 1})
    out.append({'kind': 'pool421', 'size': 1})
    out.append({'kind': 'pool421', 'size': 2})
    out.append({'kind': 'pool421', 'size': 1, 'eod': 1})
    out.append({'kind': 'deque', 'L': 4})
    return out


def setup(mode):
    quiet_logging()
    import slimta.relay.smtp.static
    import slimta.relay.pool
    import slimta.util.deque
    import slimta.smtp.client as sc
    sc.wait_read = nc.fake_wait_read
    # host name look-up: the blocking one answers at once, the cooperative
    # one (gevent.socket.getfqdn) lets other greenlets run first
    import socket as _s
    import gevent
    import gevent.socket as _gs
    _s.getfqdn = lambda name='': 'me.example'

    def coop_getfqdn(name=''):
        gevent.sleep(0)
        return 'me.example'
    _gs.getfqdn = coop_getfqdn


def run(cell):
    return globals()['run_' + cell['kind']](cell)


OUTCOMES = ['ok', 'refuse-mail', 'refuse-rcpt', 'drop-at-data',
            'connect-error', 'drop-at-banner', 'refuse-rcpt-slow-rset',
            'eod-fail-first', 'mail-421-no-close']


class World(object):
    def __init__(self, size, idle, outcome_of, service_time, lmtp=False,
                 fqdn=False):
        from slimta.relay.smtp.static import StaticSmtpRelay, StaticLmtpRelay
        self.lmtp = lmtp
        self.open = 0
        self.max_open = 0
        self.peers = []
        self.outcome_of = outcome_of
        self.service_time = service_time
        w = self

        def creator(address):
            n = len(w.peers)
            if outcome_of('conn%d' % n) == 'connect-error':
                w.peers.append(None)
                import errno
                raise OSError(errno.ECONNREFUSED, 'Connection refused')
            peer = make_peer(w, n)
            w.peers.append(peer)
            w.open += 1
            w.max_open = max(w.max_open, w.open)
            sock = peer.start()
            orig_close = sock.close

            def close():
                if not sock.closed:
                    w.open -= 1
                orig_close()
            sock.close = close
            return sock
        kw = {}
        if idle:
            kw['idle_timeout'] = 5
        self.relay = (StaticLmtpRelay if lmtp else StaticSmtpRelay)(
                                     'mx.example', 25,
                                     pool_size=size or None,
                                     socket_creator=creator,
                                     ehlo_as=None if fqdn else 'me',
                                     context=object(), command_timeout=10,
                                     data_timeout=10, **kw)


def make_peer(w, n):
    import gevent
    state = {'sender': None, 'eod': 0}

    def script(stage, i):
        if stage == 'banner':
            if w.outcome_of('conn%d' % n) == 'drop-at-banner':
                return ('close',)
            return ('reply', '220', ['ready'])
        if stage in ('EHLO', 'LHLO'):
            return ('reply', '250', ['hello', 'PIPELINING', '8BITMIME'])
        if stage == 'DATA':
            o = w.outcome_of(state['sender'])
            if o == 'drop-at-data':
                return ('close',)
            return ('reply', '354', ['go'])
        if stage == 'QUIT':
            return ('reply', '221', ['bye'])
        if stage == 'EOD':
            state['eod'] += 1
            if state['eod'] == 1 and \
                    w.outcome_of(state['sender']) == 'eod-fail-first':
                return ('reply', '450', ['4.2.0 later for ' +
                                         (state['sender'] or '?')])
            if w.service_time is not None:
                # the server takes a while to accept the message
                gevent.sleep(w.service_time(state['sender']))
            if w.outcome_of(state['sender']) == 'eod-then-421':
                # "queued, and I am closing": the 421 rides in the segment
                # of the 250 (or right behind it), the socket stays open
                peer.client.use_fd = True
                return ('reply', '250', ['2.0.0 delivered for ' +
                                         (state['sender'] or '?')],
                        b'421 4.4.2 idle too long\r\n') + \
                    (('same-segment',) if w.outcome_of('421-how') else ())
            return ('reply', '250', ['2.0.0 delivered for ' +
                                     (state['sender'] or '?')])
        if stage == 'MAIL':
            state['eod'] = 0
            if w.outcome_of(state['sender']) == 'mail-421-no-close':
                # a 421 that is not followed by the server closing
                return ('reply', '421', ['4.3.2 busy for ' + state['sender']])
            if w.outcome_of(state['sender']) == 'refuse-mail':
                return ('reply', '550', ['5.1.0 no for ' + state['sender']])
            return ('reply', '250', ['ok'])
        if stage == 'RSET':
            if w.outcome_of(state['sender']) == 'refuse-rcpt-slow-rset':
                # answers the RSET after the client's command timeout
                gevent.sleep(12)
            return ('reply', '250', ['reset'])
        if stage == 'RCPT':
            if w.outcome_of(state['sender']) in ('refuse-rcpt',
                                                 'refuse-rcpt-slow-rset'):
                return ('reply', '550', ['5.1.1 no for ' + state['sender']])
            return ('reply', '250', ['ok'])
        return ('reply', '250', ['ok'])
    peer = nc.ScriptedPeer(script, lmtp=w.lmtp)
    orig = peer._on_data

    def on_data(data):
        # remember whose transaction this is before the automaton answers
        i = data.find(b'MAIL FROM:<')
        if i >= 0:
            j = data.find(b'>', i)
            state['sender'] = data[i + 11:j].decode()
        # service time: the peer reads the content slowly
        orig(data)
    peer._on_data = on_data
    peer.server._feed = on_data
    return peer


def run_pool(cell):
    import gevent
    from slimta.relay import RelayError
    from slimta.smtp.reply import Reply
    qc.fresh_hub()
    qc.patch_env()
    nc.reset()
    k = cell['k']
    nf = cell['faults']
    # which requests / connections misbehave
    plan = {}
    faulty = set()
    for j in range(nf):
        target = api.choice('fault_target%d' % j, k + 2)
        kind = OUTCOMES[1 + api.choice('fault_kind%d' % j, 8)]
        if target < k:
            if kind in ('connect-error', 'drop-at-banner'):
                plan['conn%d' % target] = kind
            else:
                plan['s%d@z' % target] = kind
        else:
            pass        # no (further) fault

    def outcome_of(key):
        return plan.get(key, 'ok')
    svc = None
    if cell.get('svc'):
        durs = {}

        def svc(sender):
            if sender not in durs:
                durs[sender] = api.real('svc_%s' % sender, 0, 3)
            return durs[sender]
    lmtp = bool(cell.get('lmtp'))
    w = World(cell['size'], cell['idle'], outcome_of, svc, lmtp=lmtp,
              fqdn=bool(cell.get('fqdn')))
    outs = {}
    times = [api.real('t%d' % i, 0, 8) for i in range(k)]
    if cell.get('fair'):
        times = [0] * k           # all at once, in order
    chain = cell.get('chain', 0)
    done_at = {}

    def go(i, wait=True):
        if wait and not cell.get('fair'):
            gevent.sleep(times[i])
        env = qc.make_envelope('m%d' % i, 's%d@z' % i,
                               ['r%d@x' % i] + (['q%d@x' % i] if lmtp
                                                else []))
        try:
            outs[i] = ('value', w.relay.attempt(env, 0))
        except RelayError as e:
            outs[i] = ('relay-error', e)
        except api.Unsupported:
            raise
        except Exception as e:
            outs[i] = ('other', e)
        done_at[i] = qc.now()
        if i < chain:
            # the sender woken by this result submits its next message at
            # once (before the hub has run anything else)
            go(i + 1, wait=False)
    for i in range(k):
        if i == 0 or i > chain:
            gevent.spawn(go, i)
    qc.run_until_quiescent()
    info = dict(size=cell['size'], idle=cell['idle'], plan=plan)
    api.observe('returned', sorted(outs))
    if cell['size']:
        api.prove(w.max_open <= cell['size'], 'more-connections-than-pool-size',
                  max_open=w.max_open, **info)
    for i in range(k):
        if not api.prove(i in outs, 'request-stranded', request=i,
                         queued=len(w.relay.queue),
                         clients=len(w.relay.pool), **info):
            continue
        kind, val = outs[i]
        want = plan.get('s%d@z' % i, 'ok')
        sender = 's%d@z' % i
        if want == 'eod-fail-first':
            if not lmtp:
                want = 'refused'      # SMTP: one reply for the message
            else:
                want = 'ok'           # LMTP: judged on the second recipient
        if kind == 'value':
            rep = val.get(('q%d@x' if lmtp else 'r%d@x') % i) \
                if isinstance(val, dict) else val
            if isinstance(rep, Reply):
                api.prove(sender in rep.message,
                          'result-belongs-to-another-envelope',
                          request=i, got=rep.message, **info)
            api.prove(want == 'ok' or not isinstance(rep, Reply),
                      'delivered-although-refused', request=i, **info)
        elif kind == 'relay-error':
            msg = val.reply.message or ''
            if ' for s' in msg:
                api.prove(sender in msg, 'result-belongs-to-another-envelope',
                          request=i, got=msg, **info)
        else:
            api.fail('non-relay-exception', exc=type(val).__name__,
                     request=i, **info)
    api.prove(len(w.relay.queue) == 0, 'requests-left-in-queue',
              n=len(w.relay.queue), **info)
    if cell.get('fair') and cell['size'] == 2 and k == 3 and len(outs) == 3:
        # three requests at once, two slots, no connection reuse: the third
        # is served when the FIRST of the two clients is done - a free slot
        # with a request waiting and no client that will ever poll again is
        # "no client exists to serve it"
        s0, s1, s2 = [svc('s%d@z' % i) for i in range(3)]
        first_free = Ite(s0 <= s1, s0, s1)
        api.prove(done_at[2] == first_free + s2,
                  'request-waits-although-a-slot-is-free', **info)
    # one message at a time per connection, RSET after a failed transaction
    for p in w.peers:
        if p is None:
            continue
        open_txn = False
        failed = False
        for stage, action, arg in p.log:
            ok = action[0] == 'reply' and action[1][0:1] in ('2', '3')
            if stage == 'MAIL':
                api.prove(not open_txn,
                          'second-message-before-first-finished', **info)
                api.prove(not failed,
                          'failed-transaction-not-reset-before-next-message',
                          **info)
                open_txn = True
                failed = not ok
            elif stage == 'RCPT':
                if not ok:
                    failed = True
            elif stage == 'EOD':
                open_txn = False
                # (LMTP: one reply per recipient; any refusal fails the
                # transaction)
                failed = failed or not ok
            elif stage in ('RSET', 'QUIT'):
                open_txn = False
                failed = False


def run_pool421(cell):
    """the server announces 421 on an idle, cached connection: the next
    request must be served (on a fresh connection), not stranded"""
    import gevent
    from slimta.relay import RelayError
    qc.fresh_hub()
    qc.patch_env()
    nc.reset()
    with_eod = api.choice('with_eod', 3) if cell.get('eod') else 0
    plan = {}
    if with_eod:
        plan = {'s0@z': 'eod-then-421', '421-how': with_eod == 2}
    w = World(cell['size'], 1, lambda key: plan.get(key, 'ok'), None)
    outs = {}
    t1 = api.real('t1', 1, 4)
    t_421 = api.real('t421', 0, 4)

    def go(i, t):
        gevent.sleep(t)
        env = qc.make_envelope('m%d' % i, 's%d@z' % i, ['r%d@x' % i])
        try:
            outs[i] = ('value', w.relay.attempt(env, 0))
        except RelayError as e:
            outs[i] = ('relay-error', e)
        except api.Unsupported:
            raise
        except Exception as e:
            outs[i] = ('other', e)

    close_fault = api.choice('close_raises', 2)

    def server_timeout():
        if with_eod:
            return
        gevent.sleep(t_421)
        for p in w.peers:
            if p is not None and not p.client.closed:
                p.client.use_fd = True
                p.client._feed(b'421 4.4.2 idle too long\r\n')
                p.stalled = True
                if close_fault:
                    # closing the dead connection fails (as a TLS unwrap
                    # or an already reset socket would)
                    real_close = p.client.close

                    def close(real_close=real_close):
                        real_close()
                        raise OSError(107, 'Transport endpoint is not '
                                      'connected')
                    p.client.close = close
    gevent.spawn(go, 0, 0)
    gevent.spawn(server_timeout)
    gevent.spawn(go, 1, t1)
    qc.run_until_quiescent()
    info = dict(size=cell['size'], with_eod=with_eod)
    for i in (0, 1):
        if api.prove(i in outs, 'request-stranded', request=i, **info):
            api.prove(outs[i][0] != 'other', 'non-relay-exception',
                      exc=type(outs[i][1]).__name__, **info)
            if outs[i][0] == 'relay-error':
                # the 421 was sent before this envelope was offered
                api.prove(i == 0 or 'idle too long' not in
                          (outs[i][1].reply.message or ''),
                          'answered-with-a-reply-sent-before-the-envelope',
                          request=i, **info)
    if cell['size']:
        api.prove(w.max_open <= cell['size'],
                  'more-connections-than-pool-size', **info)
    api.prove(len(w.relay.queue) == 0, 'requests-left-in-queue', **info)


DQ_OPS = ['append', 'appendleft', 'extend2', 'extendleft2', 'pop', 'popleft',
          'remove', 'clear']


def run_deque(cell):
    from slimta.util.deque import BlockingDeque
    qc.fresh_hub()
    n0 = api.choice('initial', 3)
    dq = BlockingDeque()
    for i in range(n0):
        dq.append('i%d' % i)
    info = dict(initial=n0)
    ops = []
    for step in range(cell['L']):
        op = DQ_OPS[api.choice('op%d' % step, len(DQ_OPS))]
        ops.append(op)
        try:
            if op == 'append':
                dq.append('a%d' % step)
            elif op == 'appendleft':
                dq.appendleft('l%d' % step)
            elif op == 'extend2':
                dq.extend(['e%d' % step, 'f%d' % step])
            elif op == 'extendleft2':
                dq.extendleft(['g%d' % step, 'h%d' % step])
            elif op == 'pop':
                if len(dq):
                    dq.pop()
            elif op == 'popleft':
                if len(dq):
                    dq.popleft()
            elif op == 'remove':
                if len(dq):
                    dq.remove(dq[0])
            elif op == 'clear':
                dq.clear()
        except Exception as e:
            api.fail('deque-operation-raised', op=op, exc=type(e).__name__,
                     ops=ops, **info)
            return
        api.prove(dq.sema.counter == len(dq),
                  'semaphore-count-differs-from-length', ops=list(ops),
                  counter=dq.sema.counter, length=len(dq), **info)


def classify(cell, inputs, failure):
    return {'kind': cell['kind']}
