"""C17 - replies survive the wire: encode/parse round trip, exact consumption,
ESC class == code class, malformed input raises BadReply.

Real code executed symbolically: IO.send_reply, IO.recv_reply,
IO.buffered_recv, IO.flush_send, Reply.__init__/code/message/
enhanced_status_code (getters+setters)/send/recv.
"""
import re

from symx import api
from symx.api import And, Or, Not
from .common import FakeSocket, OverRead, cut_stream, quiet_logging

PROPERTY = 'C17'
EXPECT_ENTERED = ['IO.send_reply', 'IO.recv_reply', 'Reply.recv',
                  'Reply.send', 'Reply.message', 'Reply.enhanced_status_code']
BOUNDS = {
    'quick': 'round trip: code = 3 symbolic digits (first 2..5), message = '
             'm<=3 symbolic code points in 0..0x7FF (first not white space), '
             'followed by 0..1 successor replies (3 symbolic digits + 1 '
             'symbolic char), wire cut at c<=1 arbitrary position (m<=2; '
             'with successor m<=1); multi-line texts of 2 lines from a '
             'separator menu, 1 cut; mixed: 2 lines with '
             'independently symbolic codes, 1 cut (bad reply iff the codes '
             'differ); raw: '
             'every byte string of w<=4 bytes through IO.recv_reply, cut at '
             '<=1 position, compared with a reference parser; ESC class: '
             'every code x every message of <=6 chars over ESC-shaped text',
    'thorough': 'm<=4 (m=5 uncut, no successor), up to 2 successors, c<=2; '
                'raw w<=5 with c<=2, w=6 with 1 cut; 3-line multi-line '
                'texts with 2 cuts (big cells split over 4-16 processes)',
}
OUTSIDE = ('messages longer than the bound, code points above 0x7FF (3/4-byte '
           'UTF-8 is exercised by the engine self-test only), more cuts')
STUBS = ['FakeSocket', 'slimta.logging -> no-ops']
ASSUMPTIONS = ['first character of the text is not white space (as the '
               'property states)', 'recv(4096) never splits a segment']
CELL_BUDGET_S = {'quick': 150, 'thorough': 1500}
SAMPLE_P = 0.01


def cells(tier):
    out = []
    if tier == 'quick':
        for m in range(0, 4):
            for succ, c in ((0, 1), (1, 0), (1, 1)):
                if (m >= 2 and succ == 1 and c == 1) or (m == 3 and c == 1):
                    continue
                out.append({'kind': 'rt', 'm': m, 'succ': succ, 'c': c})
        for w in range(1, 5):
            out.append({'kind': 'raw', 'w': w, 'c': 1})
        out.append({'kind': 'esc', 'm': 6})
        out.append({'kind': 'escpre', 'c': 0})
        out.append({'kind': 'multi', 'lines': 2, 'c': 1})
        out.append({'kind': 'succraw', 't': 2, 'c': 1})
        out.append({'kind': 'mixed', 'lines': 2, 'c': 1})
        out.append({'kind': 'copy'})
    else:
        big = []
        for m in range(0, 5):
            for succ, c in ((0, 2), (1, 1), (2, 0), (2, 1)):
                if m >= 3 and (succ, c) == (2, 1):
                    continue
                cell = {'kind': 'rt', 'm': m, 'succ': succ, 'c': c}
                if m == 4:
                    big.extend(api.shards(cell, 16, 10))
                elif (m == 3 and succ) or (m == 2 and (succ, c) == (2, 1)):
                    big.extend(api.shards(cell, 8, 8))
                else:
                    out.append(cell)
        out.append({'kind': 'rt', 'm': 5, 'succ': 0, 'c': 0})
        for w in range(1, 6):
            for c in (1, 2):
                cell = {'kind': 'raw', 'w': w, 'c': c}
                if w == 5 and c == 2:
                    big.extend(api.shards(cell, 8, 8))
                else:
                    out.append(cell)
        big.extend(api.shards({'kind': 'raw', 'w': 6, 'c': 1}, 16, 10))
        out.append({'kind': 'esc', 'm': 7})
        out.append({'kind': 'escpre', 'c': 1})
        out.append({'kind': 'multi', 'lines': 3, 'c': 2})
        out.append({'kind': 'succraw', 't': 3, 'c': 1})
        out.append({'kind': 'mixed', 'lines': 2, 'c': 2})
        out.append({'kind': 'mixed', 'lines': 3, 'c': 1})
        out.append({'kind': 'copy'})
        out.sort(key=lambda x: -(x.get('m', x.get('w', 0)) * 4 +
                                 x.get('succ', 0) * 2 + 3 * x.get('c', 0)))
        return big + out
    out.sort(key=lambda x: -(x.get('m', x.get('w', 0)) * 4 +
                             x.get('succ', 0) * 2 + 3 * x.get('c', 0)))
    return out


def setup(mode):
    quiet_logging()


if api.MODE == 'sym':
    from symx import sregex
    _NL = sregex.compile_(r'\r?\n')
else:
    _NL = re.compile(r'\r?\n')


def norm_crlf(s):
    if s is None:
        return s
    return _NL.sub('\r\n', s)


def sym_code(name):
    d0 = api.sstr(name + '0', 1, 0x32, 0x35)
    d12 = api.sstr(name + '12', 2, 0x30, 0x39)
    return d0 + d12


def _recv(io):
    from slimta.smtp.reply import Reply
    from slimta.smtp import BadReply, ConnectionLost
    r = Reply()
    try:
        r.recv(io)
    except BadReply:
        return 'bad', None, None
    except ConnectionLost:
        return 'more', None, None
    except OverRead:
        return 'overread', None, None
    return 'ok', r.code, r.message


def run(cell):
    k = cell['kind']
    if k == 'rt':
        return run_rt(cell)
    if k == 'succraw':
        return run_succraw(cell)
    if k == 'mixed':
        return run_mixed(cell)
    if k == 'copy':
        return run_copy(cell)
    if k == 'raw':
        return run_raw(cell)
    if k == 'esc':
        return run_esc(cell)
    if k == 'escpre':
        return run_escpre(cell)
    return run_multi(cell)


def _wire_of(replies):
    from slimta.smtp.io import IO
    out = FakeSocket()
    oio = IO(out, address=('h', 1))
    for r in replies:
        r.send(oio)
    oio.flush_send()
    return out.wire()


def run_rt(cell):
    from slimta.smtp.io import IO
    from slimta.smtp.reply import Reply
    m, succ, c = cell['m'], cell['succ'], cell['c']
    code = sym_code('code')
    msg = api.sstr('msg', m, 0, 0x7FF)
    if m:
        first = msg[0:1]
        api.assume(Not(Or(*[first == w for w in
                            ('\t', '\n', '\x0b', '\x0c', '\r', '\x1c', '\x1d',
                             '\x1e', '\x1f', ' ', '\x85', '\xa0')])))
    replies = [Reply(code, msg)]
    for i in range(succ):
        replies.append(Reply(sym_code('scode%d' % i),
                             api.sstr('smsg%d' % i, 1, 0x21, 0x7E)))
    wires = [_wire_of([r]) for r in replies]
    stream = b''
    for w in wires:
        stream = stream + w
    segs, pos = cut_stream(stream, c)
    sock = FakeSocket(segs, eof=False)
    io = IO(sock, address=('h', 1))
    info = dict(m=m, succ=succ, cuts=pos)
    rest = stream
    for i, r in enumerate(replies):
        st, rcode, rmsg = _recv(io)
        api.observe('reply%d' % i, [st, rcode, rmsg])
        if not api.prove(st == 'ok', 'recv-failed', status=st, index=i,
                         **info):
            return
        want = norm_crlf(r.message)
        api.prove(rcode == r.code, 'code-mismatch', index=i, **info)
        api.prove(rmsg == want, 'message-mismatch', index=i, **info)
        rest = rest[len(wires[i]):]
        left = io.recv_buffer + sock.unread()
        api.prove(left == rest, 'consumption-mismatch', index=i, **info)
        got = Reply(rcode, rmsg)
        esc = got.enhanced_status_code
        if esc is not None:
            api.prove(esc[0:1] == rcode[0:1], 'esc-class-mismatch', index=i,
                      **info)


def run_escpre(cell):
    """texts that begin with up to two ESC-looking tokens (symbolic digits,
    1..2 digits per field), any code, with a code change before sending"""
    from slimta.smtp.io import IO
    from slimta.smtp.reply import Reply
    code = sym_code('code')

    def token(name):
        k = api.choice(name + '_shape', 3)
        if k == 0:
            return ''
        t = api.sstr(name + 'c', 1, 0x30, 0x39) + '.' + \
            api.sstr(name + 's', k, 0x30, 0x39) + '.' + \
            api.sstr(name + 'd', 1, 0x30, 0x39)
        return t + ' '
    msg = token('t1') + token('t2') + api.sstr('tail', 1, 0x21, 0x7E)
    r = Reply(code, msg)
    if api.choice('recode', 2):
        r.code = sym_code('code2')
    text = r.message
    wire = _wire_of([r])
    tail = b'250 next\r\n'
    segs, pos = cut_stream(wire + tail, cell['c'])
    sock = FakeSocket(segs, eof=False)
    io = IO(sock, address=('h', 1))
    st, rcode, rmsg = _recv(io)
    api.observe('reply', [st, rcode, rmsg])
    info = dict(kind='escpre', cuts=pos)
    if not api.prove(st == 'ok', 'recv-failed', status=st, **info):
        return
    api.prove(rcode == r.code, 'code-mismatch', **info)
    api.prove(rmsg == norm_crlf(text), 'message-mismatch', **info)
    api.prove(io.recv_buffer + sock.unread() == tail, 'consumption-mismatch',
              **info)
    esc = Reply(rcode, rmsg).enhanced_status_code
    if esc is not None:
        api.prove(esc[0:1] == rcode[0:1], 'esc-class-mismatch', **info)


def run_multi(cell):
    """multi-line texts from a menu with symbolic line contents, all cuts"""
    from slimta.smtp.io import IO
    from slimta.smtp.reply import Reply
    n, c = cell['lines'], cell['c']
    code = sym_code('code')
    seps = ['\r\n', '\n', '\r\n\r\n']
    msg = api.sstr('l0', 1, 0x21, 0x7E)
    for i in range(1, n):
        sep = seps[api.choice('sep%d' % i, len(seps))]
        msg = msg + sep + api.sstr('l%d' % i, 1, 0x20, 0x7E)
    if api.choice('trail', 2):
        msg = msg + '\n'
    r = Reply(code, msg)
    wire = _wire_of([r])
    tail = b'250 next\r\n'
    segs, pos = cut_stream(wire + tail, c)
    sock = FakeSocket(segs, eof=False)
    io = IO(sock, address=('h', 1))
    st, rcode, rmsg = _recv(io)
    api.observe('reply', [st, rcode, rmsg])
    info = dict(lines=n, cuts=pos)
    if not api.prove(st == 'ok', 'recv-failed', status=st, **info):
        return
    api.prove(rcode == r.code, 'code-mismatch', **info)
    api.prove(rmsg == norm_crlf(r.message), 'message-mismatch', **info)
    api.prove(io.recv_buffer + sock.unread() == tail, 'consumption-mismatch',
              **info)


def run_esc(cell):
    """ESC class always equals the code class, also after the code changes."""
    from slimta.smtp.reply import Reply
    code = sym_code('code')
    m = cell['m']
    # text shaped like an enhanced status code: d . d . d SP x
    cls = api.sstr('cls', 1, 0x30, 0x39)
    subj = api.sstr('subj', 1, 0x30, 0x39)
    det = api.sstr('det', 1, 0x30, 0x39)
    sp = api.sstr('sp', 1, 0x09, 0x20)
    tail = api.sstr('t', max(0, m - 6), 0x20, 0x7E)
    msg = cls + '.' + subj + '.' + det + sp + tail
    r = Reply(code, msg)
    esc = r.enhanced_status_code
    info = dict(m=m)
    c0 = code[0:1]
    if esc is not None:
        api.prove(esc[0:1] == c0, 'esc-class-mismatch', when='init', **info)
    full = r.message
    if full is not None and len(full) and esc is not None:
        api.prove(full[0:1] == c0, 'message-esc-class-mismatch', **info)
    code2 = sym_code('code2')
    r.code = code2
    esc2 = r.enhanced_status_code
    if esc2 is not None:
        api.prove(esc2[0:1] == code2[0:1], 'esc-class-mismatch',
                  when='code-changed', **info)
    api.observe('esc', [esc, esc2])
    api.prove(True, 'reached')


# ---------------------------------------------------------------- raw input
def ref_parse(stream):
    """Reference reply parser (what RFC 5321 4.2 + the documented behaviour
    ask for): returns ('ok', code, text, consumed) | ('bad',) | ('more',)."""
    n = len(stream)
    pos = 0
    code = None
    texts = []
    while True:
        # find the LF that ends the line
        j = pos
        while j < n and not api.decide(stream[j] == 10):
            j += 1
        if j >= n:
            return ('more',)
        line = stream[pos:j]
        if len(line) and api.decide(line[-1] == 13):
            line = line[:-1]
        if len(line) < 4:
            return ('bad',)
        for d in range(3):
            if not api.decide(And(line[d] >= 48, line[d] <= 57)):
                return ('bad',)
        # first digit 1..5 (RFC 5321 4.2.1; what Reply.code accepts)
        if not api.decide(And(line[0] >= 49, line[0] <= 53)):
            return ('bad',)
        sep = line[3]
        if not api.decide(Or(sep == 32, sep == 9, sep == 45)):
            return ('bad',)
        if code is not None and not api.decide(line[0:3] == code):
            return ('bad',)
        code = line[0:3]
        texts.append(line[4:])
        pos = j + 1
        if not api.decide(sep == 45):
            break
    body = texts[0]
    for t in texts[1:]:
        body = body + b'\r\n' + t
    try:
        text = body.decode('utf-8')
    except UnicodeDecodeError:
        return ('bad',)
    return ('ok', code.decode('ascii'), text, pos)


def _raw(segs, inbuf):
    from slimta.smtp.io import IO
    from slimta.smtp import BadReply, ConnectionLost
    segs = [s for s in segs if len(s)]
    sock = FakeSocket(eof=True)
    io = IO(sock, address=('h', 1))
    if inbuf and segs:
        io.recv_buffer = segs.pop(0)
    sock.segments = segs
    try:
        code, text = io.recv_reply()
    except BadReply:
        return ('bad',)
    except ConnectionLost:
        return ('more',)
    except api.StepBudget:
        return ('hang',)
    return ('ok', code, text, io.recv_buffer + sock.unread())


def run_mixed(cell):
    """a multi-line reply whose lines carry independently symbolic codes,
    under every segmentation (also between two lines): parsed iff all codes
    are equal, otherwise a bad reply - whatever the cut positions"""
    n, c = cell['lines'], cell['c']
    codes = [sym_code('k%d' % i) for i in range(n)]
    wire = b''
    texts = []
    for i in range(n):
        t = api.sstr('x%d' % i, 1, 0x21, 0x7E)
        texts.append(t)
        wire = wire + codes[i].encode('ascii') + \
            (b' ' if i == n - 1 else b'-') + t.encode('ascii') + b'\r\n'
    tail = b'250 next\r\n'
    segs, pos = cut_stream(wire + tail, c)
    inbuf = api.choice('inbuf', 2)
    got = _raw(segs, inbuf)
    api.observe('reply', list(got[:3]))
    info = dict(lines=n, cuts=pos, inbuf=inbuf)
    same = True
    for i in range(1, n):
        if not api.decide(codes[i] == codes[0]):
            same = False
    if not same:
        api.prove(got[0] == 'bad', 'mixed-codes-accepted', status=got[0],
                  **info)
        return
    if not api.prove(got[0] == 'ok', 'recv-failed', status=got[0], **info):
        return
    api.prove(got[1] == codes[0], 'code-mismatch', **info)
    api.prove(got[2] == api.join('\r\n', texts), 'message-mismatch', **info)
    api.prove(got[3] == tail, 'consumption-mismatch', **info)


def run_succraw(cell):
    """a well-formed reply followed, in the same stream, by a reply line
    with t arbitrary text bytes (invalid UTF-8, CR, LF ...): the first is
    returned, the second is returned or is a bad reply - nothing else"""
    from slimta.smtp.io import IO
    from slimta.smtp import BadReply, ConnectionLost
    t, c = cell['t'], cell['c']
    first = [b'250 ok\r\n', b'250-a\r\n250 b\r\n'][api.choice('first', 2)]
    tail = api.sbytes('t', t)
    wire = first + b'250 ' + tail + b'\r\n'
    segs, pos = cut_stream(wire, c)
    segs = [x for x in segs if len(x)]
    inbuf = api.choice('inbuf', 2)
    sock = FakeSocket(eof=True)
    io = IO(sock, address=('h', 1))
    if inbuf and segs:
        io.recv_buffer = segs.pop(0)
    sock.segments = segs
    info = dict(t=t, cuts=pos, inbuf=inbuf)
    rest = wire
    for i in range(2):
        ref = ref_parse(rest)
        try:
            code, text = io.recv_reply()
            got = ('ok', code, text)
        except BadReply:
            got = ('bad',)
        except ConnectionLost:
            got = ('more',)
        except api.Unsupported:
            raise
        except Exception as e:
            got = ('raised:' + type(e).__name__,)
        api.observe('reply%d' % i, list(got))
        if got[0] != ref[0]:
            api.fail('raw-outcome-differs-from-reference', index=i,
                     got=got[0], ref=ref[0], **info)
            return
        if got[0] != 'ok':
            return
        api.prove(got[1] == ref[1], 'raw-code', index=i, **info)
        api.prove(got[2] == ref[2], 'raw-text', index=i, **info)
        rest = rest[ref[3]:]


def run_copy(cell):
    """a reply whose text was already looked at is overwritten with
    Reply.copy() (what validators do to refuse) and then sent: the wire
    carries the new code and the new text"""
    from slimta.smtp.io import IO
    from slimta.smtp.reply import Reply
    c1 = sym_code('c1')
    c2 = sym_code('c2')
    m1 = ['2.1.5 Recipient Ok', 'plain first', ''][api.choice('m1', 3)]
    m2 = ['5.5.1 Bad sequence of commands', 'second text',
          '4.2.0 try later'][api.choice('m2', 3)]
    r = Reply(c1, m1)
    touched = api.choice('read_first', 3)
    if touched == 1:
        _ = r.message
    elif touched == 2:
        _ = r.message + ' '
    other = Reply(c2, m2)
    r.copy(other)
    wire = _wire_of([r])
    sock = FakeSocket([wire], eof=False)
    io = IO(sock, address=('h', 1))
    st, rcode, rmsg = _recv(io)
    info = dict(m1=m1, m2=m2, read_first=touched)
    api.observe('reply', [st, rcode, rmsg])
    if api.prove(st == 'ok', 'recv-failed', status=st, **info):
        api.prove(rcode == c2, 'code-mismatch', **info)
        api.prove(rmsg == other.message, 'message-mismatch', **info)


def run_raw(cell):
    w, c = cell['w'], cell['c']
    wire = api.sbytes('w', w)
    segs, pos = cut_stream(wire, c)
    inbuf = api.choice('inbuf', 2)
    got = _raw(segs, inbuf)
    ref = ref_parse(wire)
    api.observe('got', list(got))
    info = dict(w=w, cuts=pos, inbuf=inbuf)
    if got[0] != ref[0]:
        api.fail('raw-outcome-differs-from-reference', got=got[0], ref=ref[0],
                 **info)
        return
    if got[0] == 'ok':
        api.prove(got[1] == ref[1], 'raw-code', **info)
        api.prove(got[2] == ref[2], 'raw-text', **info)
        api.prove(got[3] == wire[ref[3]:], 'raw-consumption', **info)
    else:
        api.prove(True, 'raw-same-outcome', **info)


def classify(cell, inputs, failure):
    return {'kind': cell['kind']}
