"""C15 - every queue storage backend behaves like the same simple store.

Real code executed: every method of DictStorage, DiskStorage (+DiskOps,
AioFile), RedisStorage, CloudStorage and the QueueStorage helpers, driven by
symbolic operation sequences and compared with a reference store.
"""
from symx import api
from symx.api import And, Or, Not
from . import qcommon as qc
from .common import quiet_logging

PROPERTY = 'C15'
EXPECT_ENTERED = ['DictStorage.write', 'DictStorage.get', 'DictStorage.load',
                  'DiskStorage.write', 'DiskStorage.get', 'DiskStorage.load',
                  'DiskStorage.set_recipients_delivered', 'AioFile.dump',
                  'AioFile.load', 'RedisStorage.write', 'RedisStorage.get',
                  'RedisStorage.load', 'CloudStorage.write',
                  'CloudStorage.get', 'CloudStorage.increment_attempts']
BOUNDS = {
    'quick': 'recipient lists with distinct addresses and with one address '
             'at two positions; every sequence of 4 operations (write, set_timestamp, '
             'increment_attempts, set_recipients_delivered [one round per '
             'message, any subset of 3 recipients, as list or as set], get, '
             'load, remove) over <=2 messages after an initial write, '
             'timestamps symbolic reals, on each of the 4 backends (DictStorage also on a copy-returning, shelve-like mapping); plus two '
             'operation sequences of length 3 on different ids running in '
             'overlapping greenlets with every start offset (yielding '
             'backends); load() overlapping at each of 16 offsets with '
             'remove / write / set_timestamp / increment_attempts on another '
             'of 3 stored messages',
    'thorough': 'sequences of 5 operations; overlapping sequences of '
                'length 4',
}
OUTSIDE = ('real redis / S3 / kernel aio; multi-round delivered marking '
           '(judged by C03)')
STUBS = ['FakeRedis / FakeObjectStore / FakeFS+pyaio (atomic operations that '
         'yield)', 'pickle = structural box for symbolic timestamps',
         'deterministic uuid4']
ASSUMPTIONS = ['reference store: dict id -> (envelope copy, timestamp, '
               'attempts, delivered set); absent id -> error']
CELL_BUDGET_S = {'quick': 240, 'thorough': 2400}
SAMPLE_P = 0.02
MAX_WITNESSES = 10
MAX_DECISIONS = 40000

OPS = ['write', 'set_timestamp', 'increment_attempts', 'mark', 'get', 'load',
       'remove']
RC = ['a@x', 'b@x', 'c@y']


def cells(tier):
    out = []
    L = 4 if tier == 'quick' else 5
    for b in ('dict', 'disk', 'redis', 'cloud'):
        out.append({'kind': 'seq', 'backend': b, 'L': L, 'form': 'list'})
        out.append({'kind': 'seq', 'backend': b, 'L': L - 1, 'form': 'set'})
        out.append({'kind': 'seq', 'backend': b, 'L': 2, 'form': 'list',
                    'dup': 1})
        if b != 'dict':
            out.append({'kind': 'overlap', 'backend': b,
                        'L': 3 if tier == 'quick' else 4})
            out.append({'kind': 'loadrace', 'backend': b,
                        'offsets': 16 if tier == 'quick' else 32})
    out.append({'kind': 'chunk', 'backend': 'disk'})
    # DictStorage on a mapping that returns copies (shelve)
    out.append({'kind': 'seq', 'backend': 'shelf', 'L': L, 'form': 'list'})
    return out


def setup(mode):
    quiet_logging()
    import slimta.queue
    import slimta.queue.dict
    import slimta.diskstorage
    import slimta.redisstorage
    import slimta.cloudstorage


class Ref(object):
    """the simple reference store"""

    def __init__(self):
        self.m = {}

    def write(self, id, sender, rcpts, content, ts):
        self.m[id] = {'sender': sender, 'rcpts': list(rcpts),
                      'content': content, 'ts': ts, 'attempts': 0,
                      'marked': False}


def env_view(env):
    h, b = env.flatten()
    return (env.sender, list(env.recipients), h + b)


def do_ops(store, ref, prefix, L, form, info, own=None, ids=None,
           script=None, RC=RC):
    """run L symbolic operations; compare every answer with the reference"""
    ids = ids if ids is not None else []
    nwrites = [0]

    def write():
        k = nwrites[0]
        nwrites[0] += 1
        tag = '%s%d' % (prefix, len(ids))
        env = qc.make_envelope(tag, 's_%s@z' % tag, RC,
                               body=('body of %s\r\n' % tag).encode())
        ts = api.real('%sts_w%d' % (prefix, len(ids)), 1)
        qid = store.write(env, ts)
        api.prove(qid not in ref.m and isinstance(qid, str),
                  'write-id-not-fresh', id=repr(qid), **info)
        ref.write(qid, env.sender, RC, env_view(env)[2], ts)
        ids.append(qid)
    write()
    for step in range(L):
        op = OPS[script[step]] if script is not None else \
            OPS[api.choice('%sop%d' % (prefix, step), len(OPS))]
        if op == 'write':
            if len(ids) >= 2:
                continue
            write()
            continue
        qid = ids[api.choice('%starget%d' % (prefix, step), len(ids))] \
            if len(ids) > 1 else ids[0]
        live = qid in ref.m
        sinfo = dict(step=step, op=op, live=live,
                     after_late_mutation=bool(getattr(ref, 'late', False)),
                     **info)
        if op == 'load':
            try:
                got = list(store.load())
            except Exception as e:
                api.fail('load-raised', exc=type(e).__name__, **sinfo)
                continue
            mine = [(t, i) for t, i in got if own is None or i in ids]
            want = [(v['ts'], i) for i, v in ref.m.items()
                    if own is None or i in ids]
            api.prove(sorted(i for _, i in mine) == sorted(i for _, i in want),
                      'load-lists-wrong-ids', got=[i for _, i in mine],
                      want=[i for _, i in want], **sinfo)
            for t, i in mine:
                for t2, i2 in want:
                    if i == i2:
                        api.prove(t == t2, 'load-stale-timestamp', id=i,
                                  **sinfo)
            continue
        if op == 'get':
            try:
                env, attempts = store.get(qid)
            except Exception as e:
                api.prove(not live, 'get-raised-for-live-message',
                          exc=type(e).__name__, **sinfo)
                # QueueStorage.get: ":raises: KeyError, QueueError" - the
                # queue catches nothing else
                from slimta.queue import QueueError
                api.prove(isinstance(e, (KeyError, QueueError)),
                          'get-of-absent-message-wrong-exception',
                          exc=type(e).__name__, **sinfo)
                continue
            if not api.prove(live, 'get-returned-removed-message', **sinfo):
                continue
            r = ref.m[qid]
            v = env_view(env)
            api.prove(v[0] == r['sender'] and v[2] == r['content'],
                      'get-wrong-sender-or-content', **sinfo)
            api.prove(v[1] == r['rcpts'], 'get-wrong-recipients', got=v[1],
                      want=r['rcpts'], **sinfo)
            api.prove(attempts == r['attempts'], 'get-wrong-attempts',
                      got=attempts, want=r['attempts'], **sinfo)
            continue
        if op == 'remove':
            try:
                store.remove(qid)
            except Exception as e:
                api.prove(not live, 'remove-raised', exc=type(e).__name__,
                          **sinfo)
            ref.m.pop(qid, None)
            continue
        if not live:
            # a late operation on a removed id may fail or be ignored, but
            # the message must stay gone (judged by the later get / load)
            ref.late = True
            try:
                if op == 'set_timestamp':
                    store.set_timestamp(qid, 77)
                elif op == 'increment_attempts':
                    store.increment_attempts(qid)
                else:
                    store.set_recipients_delivered(qid, [0])
            except api.Unsupported:
                raise
            except Exception:
                pass
            continue
        if op == 'set_timestamp':
            ts = api.real('%sts%d' % (prefix, step), 1)
            store.set_timestamp(qid, ts)
            ref.m[qid]['ts'] = ts
        elif op == 'increment_attempts':
            got = store.increment_attempts(qid)
            ref.m[qid]['attempts'] += 1
            api.prove(got == ref.m[qid]['attempts'],
                      'increment-returned-wrong-count', got=got,
                      want=ref.m[qid]['attempts'], **sinfo)
        elif op == 'mark':
            if ref.m[qid]['marked']:
                continue      # single marking round per message
            sub = 5 if script is not None else \
                api.choice('%ssubset%d' % (prefix, step), 8)
            idx = [i for i in range(3) if sub & (1 << i)]
            store.set_recipients_delivered(qid, set(idx) if form == 'set'
                                           else list(idx))
            ref.m[qid]['marked'] = True
            ref.m[qid]['rcpts'] = [r for i, r in enumerate(RC)
                                   if i not in idx]
    return ids


def run(cell):
    return globals()['run_' + cell['kind']](cell)


def run_seq(cell):
    import gevent
    qc.fresh_hub()
    qc.patch_env()
    store, sub = qc.make_storage(cell['backend'])
    ref = Ref()
    info = dict(backend=cell['backend'], form=cell['form'])
    rc = ['a@x', 'b@x', 'a@x'] if cell.get('dup') else RC
    g = gevent.spawn(do_ops, store, ref, '', cell['L'], cell['form'], info,
                     None, None, None, rc)
    qc.run_until_quiescent()
    if g.exception is not None:
        api.fail('operation-raised', exc=type(g.exception).__name__,
                 msg=str(g.exception)[:200], **info)
    api.prove(g.ready(), 'operation-never-finished', **info)
    api.observe('final_ids', sorted(ref.m))


def run_overlap(cell):
    """a symbolic sequence on one id overlapping, at every offset, with a
    fixed script on another id: each must be answered as if it ran alone"""
    import gevent
    qc.fresh_hub()
    qc.patch_env()
    store, sub = qc.make_storage(cell['backend'])
    refs = [Ref(), Ref()]
    info = dict(backend=cell['backend'], form='list', kind='overlap')
    offset = api.choice('offset', 10)
    script = [OPS.index(o) for o in ('set_timestamp', 'increment_attempts',
                                     'mark', 'get', 'load',
                                     'increment_attempts', 'remove', 'load')]

    def second():
        for _ in range(offset):
            gevent.sleep(0)
        do_ops(store, refs[1], 'B', len(script), 'list', info, own=True,
               script=script)
    gs = [gevent.spawn(do_ops, store, refs[0], 'A', cell['L'], 'list', info,
                       True), gevent.spawn(second)]
    qc.run_until_quiescent()
    for g in gs:
        if g.exception is not None:
            api.fail('operation-raised', exc=type(g.exception).__name__,
                     msg=str(g.exception)[:200], **info)
        api.prove(g.ready(), 'operation-never-finished', **info)


def run_loadrace(cell):
    """load() overlapping, at every offset, with remove / write / metadata
    update of ANOTHER message: the messages that stay live are all listed,
    with their timestamps"""
    import gevent
    qc.fresh_hub()
    qc.patch_env()
    store, sub = qc.make_storage(cell['backend'])
    info = dict(backend=cell['backend'], kind='loadrace')
    ids = []
    tss = []
    state = {}

    def prepare():
        for k in range(3):
            env = qc.make_envelope('m%d' % k, 's%d@z' % k, RC,
                                   body=b'body\r\n')
            ts = api.real('ts%d' % k, 1)
            ids.append(store.write(env, ts))
            tss.append(ts)
    g = gevent.spawn(prepare)
    qc.run_until_quiescent()
    if g.exception is not None or len(ids) != 3:
        api.fail('operation-raised', msg=str(g.exception)[:200], **info)
        return
    other = api.choice('other', 3)
    what = api.choice('what', 4)
    offset = api.choice('offset', cell['offsets'])

    def disturb():
        for _ in range(offset):
            gevent.sleep(0)
        if what == 0:
            store.remove(ids[other])
        elif what == 1:
            env = qc.make_envelope('new', 'n@z', RC, body=b'new\r\n')
            store.write(env, 5)
        elif what == 2:
            store.set_timestamp(ids[other], 7)
        else:
            store.increment_attempts(ids[other])

    def lister():
        state['got'] = list(store.load())
    gs = [gevent.spawn(lister), gevent.spawn(disturb)]
    qc.run_until_quiescent()
    for g in gs:
        if g.exception is not None:
            api.fail('operation-raised', exc=type(g.exception).__name__,
                     msg=str(g.exception)[:200], **info)
            return
    info.update(what=['remove', 'write', 'set_timestamp',
                      'increment_attempts'][what], offset=offset)
    got = state.get('got')
    if not api.prove(got is not None, 'operation-never-finished', **info):
        return
    api.observe('listed', sorted(i for _, i in got))
    for k in range(3):
        if k == other:
            continue
        mine = [t for t, i in got if i == ids[k]]
        if api.prove(len(mine) == 1, 'load-lists-wrong-ids', missing=k,
                     other=other, **info):
            api.prove(mine[0] == tss[k], 'load-stale-timestamp', **info)


def run_chunk(cell):
    """disk backend: the pickled envelope is exactly 1, 2 or 3 aio chunks
    long (and one byte more / less)"""
    import gevent
    import pickle
    import slimta.diskstorage as ds
    qc.fresh_hub()
    qc.patch_env()
    store, sub = qc.make_storage('disk')
    k = 1 + api.choice('chunks', 3)
    delta = api.choice('delta', 3) - 1          # -1, 0, +1
    env = qc.make_envelope('m0', 's@z', RC, body=b'x' * 40 + b'\r\n')
    length = len(pickle.dumps(env, pickle.HIGHEST_PROTOCOL))
    pad = 0
    while (length + pad) % k:
        pad += 1
    env = qc.make_envelope('m0', 's@z', RC, body=b'x' * (40 + pad) + b'\r\n')
    length = len(pickle.dumps(env, pickle.HIGHEST_PROTOCOL))
    old = ds.AioFile.chunk_size
    ds.AioFile.chunk_size = length // k + delta
    info = dict(backend='disk', kind='chunk', chunks=k, delta=delta,
                length=length)
    state = {}

    def go():
        try:
            qid = store.write(env, 5)
            got, attempts = store.get(qid)
            state['view'] = env_view(got)
            state['attempts'] = attempts
        except Exception as e:
            state['exc'] = type(e).__name__ + ': ' + str(e)[:80]
    g = gevent.spawn(go)
    try:
        qc.run_until_quiescent()
    finally:
        ds.AioFile.chunk_size = old
    api.observe('state', sorted(state))
    if not api.prove('exc' not in state, 'operation-raised',
                     exc=state.get('exc'), **info):
        return
    if api.prove('view' in state, 'operation-never-finished', **info):
        api.prove(state['view'] == env_view(env),
                  'get-wrong-sender-or-content', **info)


def classify(cell, inputs, failure):
    out = {'kind': cell['kind'], 'backend': cell['backend']}
    info = (failure or {}).get('info') or {}
    if 'after_late_mutation' in info:
        out['after_late_mutation'] = bool(info['after_late_mutation'])
    return out
