"""C05 - message content crosses DATA framing unchanged under any segmentation.

Real code executed symbolically: DataSender.*, DataReader.*, IO.raw_recv,
IO.buffered_send, IO.flush_send.
"""
from symx import api
from symx.api import And, Or, Not
from .common import FakeSocket, OverRead, cut_stream, quiet_logging

PROPERTY = 'C05'
EXPECT_ENTERED = ['DataSender._process_part', 'DataSender._calc_end_marker',
                  'DataReader.add_lines', 'DataReader.handle_finished_line',
                  'DataReader.recv_piece', 'DataReader.return_all',
                  'DataReader.from_recv_buffer']
BOUNDS = {
    'quick': 'round trip: every message of n<=5 bytes (all 256 values per '
             'byte), sent as 1 part or as 2 parts split after any LF (or with '
             'an empty part), followed by t<=3 arbitrary pipelined bytes, '
             'wire cut at c<=1 arbitrary position, first segment either '
             'already in IO.recv_buffer or on the socket; raw wire: every '
             'byte string of w<=5 bytes, 1 cut vs uncut',
    'thorough': 'round trip n<=7, t<=4, c<=2 (n<=6 with 2 cuts); '
                'raw wire w<=7, c<=2',
}
OUTSIDE = 'longer messages / more cut points; max_size (judged by C09)'
STUBS = ['FakeSocket (in-memory byte stream; recv returns the scripted '
         'segments, then EOF)', 'slimta.logging -> no-ops']
ASSUMPTIONS = ['recv(4096) never splits a segment (streams are < 4096 bytes)']
CELL_BUDGET_S = {'quick': 150, 'thorough': 1500}
SAMPLE_P = 0.01


def cells(tier):
    out = []
    if tier == 'quick':
        for n in range(0, 6):
            for parts in (1, 2):
                if parts == 2 and n > 4:
                    continue
                for t, c in ((0, 1), (3, 0), (2, 1)):
                    if n == 5 and t == 2:
                        t = 1
                    out.append({'kind': 'rt', 'n': n, 'parts': parts, 't': t,
                                'c': c})
        for w in range(1, 6):
            out.append({'kind': 'raw', 'w': w, 'c': 1})
    else:
        for n in range(0, 8):
            for parts in (1, 2):
                if parts == 2 and n > 6:
                    continue
                for t, c in ((0, 2), (4, 0), (3, 1), (2, 2)):
                    if c == 2 and n > 6:
                        continue
                    if n == 7 and t > 2:
                        t = 2
                    out.append({'kind': 'rt', 'n': n, 'parts': parts, 't': t,
                                'c': c})
        for w in range(1, 8):
            for c in (1, 2):
                if w == 7 and c == 2:
                    continue
                out.append({'kind': 'raw', 'w': w, 'c': c})
    # biggest first (better load balance)
    out.sort(key=lambda x: -(x.get('n', x.get('w', 0)) * 3 + x.get('t', 0) +
                             2 * x['c']))
    if tier != 'quick':
        # the biggest cells (2e5 .. 1e6 paths) are split over 8 processes
        big = []
        rest = []
        for c in out:
            heavy = c['kind'] == 'rt' and c['c'] >= 1 and (
                (c['n'] >= 6 and (c['parts'] == 2 or c['t'] >= 2)) or
                (c['n'] == 5 and c['parts'] == 2 and c['c'] == 2 and
                 c['t'] >= 2))
            if heavy:
                big.extend(api.shards(c, 16 if (c['n'] == 6 and c['c'] == 2
                                                and c['t'] == 2 and
                                                c['parts'] == 2) else 8, 10))
            else:
                rest.append(c)
        out = big + rest
    return out


def setup(mode):
    quiet_logging()


def _read(segments, inbuf):
    from slimta.smtp.io import IO
    from slimta.smtp.datareader import DataReader
    segs = [s for s in segments if len(s)]
    sock = FakeSocket(eof=True)
    io = IO(sock)
    if inbuf and segs:
        io.recv_buffer = segs.pop(0)
    sock.segments = segs
    reader = DataReader(io)
    try:
        data = reader.recv()
    except OverRead:
        return ('overread', None, None)
    except Exception as e:
        return (type(e).__name__, None, None)
    return ('ok', data, io.recv_buffer + sock.unread())


def run(cell):
    from slimta.smtp.io import IO
    from slimta.smtp.datasender import DataSender
    if cell['kind'] == 'raw':
        return run_raw(cell)
    n, t, c = cell['n'], cell['t'], cell['c']
    msg = api.sbytes('m', n)
    if cell['parts'] == 2:
        p = api.choice('split', n + 1)
        if 0 < p < n:
            api.assume(msg[p - 1] == 10)
        parts = (msg[:p], msg[p:])
    else:
        parts = (msg,)
    out = FakeSocket()
    oio = IO(out)
    DataSender(*parts).send(oio)
    oio.flush_send()
    wire = out.wire()
    tail = api.sbytes('tail', t)
    stream = wire + tail
    segs, pos = cut_stream(stream, c)
    inbuf = api.choice('inbuf', 2)
    status, data, left = _read(segs, inbuf)
    api.observe('status', status)
    api.observe('data', data)
    api.observe('left', left)
    info = dict(n=n, t=t, cuts=pos, inbuf=inbuf, parts=cell['parts'])
    if not api.prove(status == 'ok', 'reader-raised', status=status, **info):
        return
    crlf = msg[-2:] == b'\r\n' if n >= 2 else False
    expect = Or(data == msg, And(Not(crlf), data == msg + b'\r\n'))
    api.prove(expect, 'content-mismatch', **info)
    api.prove(left == tail, 'leftover-mismatch', **info)


def run_raw(cell):
    w, c = cell['w'], cell['c']
    wire = api.sbytes('w', w)
    segs, pos = cut_stream(wire, c)
    inbuf = api.choice('inbuf', 2)
    r1 = _read([wire], 0)
    r2 = _read(segs, inbuf)
    api.observe('uncut', list(r1))
    api.observe('cut', list(r2))
    info = dict(w=w, cuts=pos, inbuf=inbuf)
    if r1[0] != r2[0]:
        api.fail('segmentation-changes-outcome', a=r1[0], b=r2[0], **info)
        return
    if r1[0] == 'ok':
        api.prove(r1[1] == r2[1], 'segmentation-changes-content', **info)
        api.prove(r1[2] == r2[2], 'segmentation-changes-leftover', **info)
    else:
        api.prove(True, 'same-exception', **info)


def classify(cell, inputs, failure):
    f = {'kind': cell['kind']}
    if cell['kind'] == 'rt':
        f['msg_len'] = cell['n']
    return f
