"""C07 - the SMTP server enforces command order and resets transaction state.

Real code executed: Server.handle/_handle_command/_recv_command/_command_*/
_get_message_data/_check_close_code/_gather_params/_call_custom_handler,
find_outside_quotes, IO.recv_command/recv_line/send_reply, DataReader,
Extensions - through the real handle() loop on a fake socket.

(a) one inductive step from an arbitrary reachable state; (b) sequences from
the initial state (cross-check of the state invariant and reply counts).
"""
from symx import api
from symx.api import And, Or, Not
from .common import FakeSocket, quiet_logging

PROPERTY = 'C07'
EXPECT_ENTERED = ['Server.handle', 'Server._command_MAIL',
                  'Server._command_RCPT', 'Server._command_DATA',
                  'Server._command_EHLO', 'Server._command_HELO',
                  'Server._command_RSET', 'Server._command_QUIT',
                  'Server._get_message_data', 'Server._check_close_code',
                  'Server._gather_params', 'find_outside_quotes',
                  'IO.recv_command']
BOUNDS = {
    'quick': 'step: every abstract pre-state (greeting accepted or not, '
             'EHLO/HELO identity or none, MAIL flag None/False/True, RCPT flag '
             'None/False/True, SIZE extension or not) satisfying the '
             'invariant x every command line of a 40-line alphabet (all '
             'verbs, upper/lower case, missing/extra arguments, missing < or '
             '>, SIZE too big / non-numeric / unsupported, unknown verbs, '
             'empty and non-alphabetic lines, non-UTF-8 argument) or a fully '
             'symbolic line of <=4 bytes x every validator verdict (untouched '
             '/ 450 / 550 / 421, and 221 for QUIT); sequences: all sequences '
             'of 3 commands over a 12-line alphabet x verdicts from the '
             'initial state',
    'thorough': 'symbolic line of 5 bytes; sequences of 4 commands',
}
OUTSIDE = ('STARTTLS and AUTH exchanges (C08); custom command handlers other '
           'than pass-through; pipelined input (C09)')
STUBS = ['FakeSocket (one command per recv)', 'recording handlers with '
         'scripted verdicts', 'slimta.logging -> no-ops']
ASSUMPTIONS = ['a bare MAIL/RCPT and an undecodable argument are answered '
               'with an error reply and may end the session (the property '
               'demands the error reply and no callback, not survival)']
CELL_BUDGET_S = {'quick': 240, 'thorough': 2400}
SAMPLE_P = 0.02
MAX_WITNESSES = 10

LINES = [
    b'EHLO there', b'EHLO', b'ehlo there', b'HELO there', b'HELO',
    b'EHLO \xff\xfe',
    b'MAIL FROM:<a@b>', b'MAIL FROM:<>', b'mail from:<a@b>',
    b'MAIL FROM:<a@b> SIZE=5', b'MAIL FROM:<a@b> SIZE=99',
    b'MAIL FROM:<a@b> SIZE=abc', b'MAIL FROM:a@b', b'MAIL FROM:<a@b',
    b'MAIL FROM:<a@b> SIZE=-5', b'MAIL FROM:<a@b> SIZE', b'MAIL FROM:<a@b> SIZE=1_0',
    b'MAIL FROM:<a@b> SIZE=+5',
    b'MAIL', b'MAIL TO:<a@b>', b'MAIL FROM:<"x>y"@b> BODY=8BITMIME',
    b'RCPT TO:<c@d>', b'rcpt to:<c@d> X=1', b'RCPT TO:c@d', b'RCPT',
    b'RCPT FROM:<c@d>', b'RCPT TO:<c@d',
    b'DATA', b'DATA now', b'data',
    b'RSET', b'RSET now', b'NOOP', b'NOOP ignored', b'QUIT', b'QUIT now',
    b'STARTTLS', b'AUTH PLAIN AGEAYg==', b'XFOO', b'XFOO arg', b'VRFY a',
    b'', b'!!!', b'123 abc', b'  EHLO x',
]
SEQ_LINES = [b'EHLO there', b'HELO there', b'MAIL FROM:<a@b>',
             b'MAIL FROM:<a@b> SIZE=99', b'RCPT TO:<c@d>', b'DATA',
             b'RSET', b'NOOP', b'QUIT', b'MAIL', b'XFOO', b'!!!']
VERDICTS = [None, '450', '550', '421']
CONTENT = b'Subject: x\r\n\r\nbody\r\n.\r\n'


def cells(tier):
    out = []
    for i in range(0, len(LINES), 4):
        out.append({'kind': 'step', 'lines': list(range(i, min(i + 4,
                                                              len(LINES))))})
    out.append({'kind': 'symline', 'n': 4})
    out.append({'kind': 'symline', 'n': 3})
    if tier != 'quick':
        out.append({'kind': 'symline', 'n': 5})
    depth = 3 if tier == 'quick' else 4
    for first in range(len(SEQ_LINES)):
        out.append({'kind': 'seq', 'first': first, 'depth': depth})
    return out


def setup(mode):
    quiet_logging()
    import slimta.smtp.server


class Rec(object):
    """recording handlers; verdict(name) -> None | code"""

    def __init__(self, verdict, on_banner=None):
        self.trace = []
        self.verdict = verdict
        self.on_banner = on_banner
        self.closed = False

    def _apply(self, name, reply):
        v = self.verdict(name)
        if v is not None:
            reply.code = v
            reply.message = 'verdict ' + v
        return v

    def BANNER_(self, reply):
        self.trace.append(('BANNER_',))
        if self.on_banner:
            self.on_banner(reply)

    def EHLO(self, reply, ehlo_as):
        self.trace.append(('EHLO', ehlo_as))
        self._apply('EHLO', reply)

    def HELO(self, reply, helo_as):
        self.trace.append(('HELO', helo_as))
        self._apply('HELO', reply)

    def MAIL(self, reply, address, params):
        self.trace.append(('MAIL', address))
        self._apply('MAIL', reply)

    def RCPT(self, reply, address, params):
        self.trace.append(('RCPT', address))
        self._apply('RCPT', reply)

    def DATA(self, reply):
        self.trace.append(('DATA',))
        self._apply('DATA', reply)

    def HAVE_DATA(self, reply, data, err):
        self.trace.append(('HAVE_DATA', data))
        self._apply('HAVE_DATA', reply)

    def RSET(self, reply):
        self.trace.append(('RSET',))
        self._apply('RSET', reply)

    def NOOP(self, reply):
        self.trace.append(('NOOP',))
        self._apply('NOOP', reply)

    def QUIT(self, reply):
        self.trace.append(('QUIT',))
        self._apply('QUIT', reply)

    def XFOO(self, reply, arg, server):
        self.trace.append(('XFOO', arg))
        self._apply('XFOO', reply)

    def CLOSE(self):
        self.closed = True


def split_replies(sock):
    """final replies (code, is_last_line) written by the server"""
    wire = sock.wire()
    out = []
    pos = 0
    n = len(wire)
    while pos < n:
        j = wire.find(b'\n', pos)
        if j < 0:
            break
        line = wire[pos:j + 1]
        pos = j + 1
        if len(line) >= 4 and api.decide(line[3:4] == b' '):
            out.append(line[0:3])
    return out


def run_session(lines, handlers, setup_server=None):
    from slimta.smtp.server import Server
    from slimta.smtp import ConnectionLost
    segs = []
    for ln in lines:
        segs.append(ln + b'\r\n')
    sock = FakeSocket(segs, eof=True)
    server = Server(sock, handlers, ('10.0.0.1', 1234))
    if setup_server:
        setup_server(server)
    ended = 'returned'
    try:
        server.handle()
    except ConnectionLost:
        ended = 'connection-lost'
    except api.Unsupported:
        raise
    except Exception as e:
        ended = 'raised:' + type(e).__name__
    return server, sock, ended


def classify_line(line):
    """reference lexer: (verb, argument) as RFC 5321 + the documented
    behaviour of IO.recv_command define them; verb None = unrecognisable"""
    import re
    m = re.match(br'^([a-zA-Z]+)\s*$', line)
    if m:
        return m.group(1).upper(), None
    m = re.match(br'^([a-zA-Z]+)\s+(.+?)\s*$', line)
    if m:
        return m.group(1).upper(), m.group(2)
    return None, None


def ref_step(st, line, verdict, size_ext):
    """reference automaton: -> dict(callbacks, replies, post, closes, err)
    st = dict(bannered, greeted, mail, rcpt).  `replies` lists the expected
    reply classes: 'ok' (whatever the verdict left), 'err' (4xx/5xx)."""
    verb, arg = classify_line(line)
    post = dict(st)
    cb = []
    closes = False

    def v(name):
        return verdict(name)

    def final(name, default):
        code = v(name) or default
        return code

    if verb is None:
        return dict(cb=[], codes=['err'], post=post, closes=False)
    if verb in (b'EHLO', b'HELO'):
        if not st['bannered']:
            return dict(cb=[], codes=['err'], post=post, closes=False)
        if not arg:
            return dict(cb=[], codes=['err'], post=post, closes=False)
        try:
            arg.decode('utf-8')
        except UnicodeDecodeError:
            return dict(cb=[], codes=['err'], post=None, closes=None)
        code = final(verb.decode(), '250')
        cb = [verb.decode()]
        if code == '250':
            post.update(greeted=True, mail=None, rcpt=None)
        return dict(cb=cb, codes=[code], post=post,
                    closes=code in ('221', '421'))
    if verb == b'MAIL':
        if arg is None:
            return dict(cb=[], codes=['err'], post=None, closes=None)
        ok = arg[:5].upper() == b'FROM:' and b'<' in arg[5:] and \
            arg[5:].lstrip()[:1] == b'<' and b'>' in arg
        if not ok:
            return dict(cb=[], codes=['err'], post=post, closes=False)
        if not st['greeted'] or st['mail']:
            return dict(cb=[], codes=['err'], post=post, closes=False)
        import re
        m = re.search(br'(?:^|\s)SIZE(?:=(\S*))?(?=\s|$)', arg.upper())
        if m:
            # RFC 1870: size-value = 1*20DIGIT
            val = m.group(1)
            if val is None or not re.match(br'^[0-9]{1,20}$', val) or \
                    size_ext is None or int(val) > size_ext:
                return dict(cb=[], codes=['err'], post=post, closes=False)
        code = final('MAIL', '250')
        post['mail'] = st['mail'] or (code == '250')
        return dict(cb=['MAIL'], codes=[code], post=post,
                    closes=code in ('221', '421'))
    if verb == b'RCPT':
        if arg is None:
            return dict(cb=[], codes=['err'], post=None, closes=None)
        ok = arg[:3].upper() == b'TO:' and arg[3:].lstrip()[:1] == b'<' \
            and b'>' in arg
        if not ok:
            return dict(cb=[], codes=['err'], post=post, closes=False)
        if not st['mail']:
            return dict(cb=[], codes=['err'], post=post, closes=False)
        code = final('RCPT', '250')
        post['rcpt'] = st['rcpt'] or (code == '250')
        return dict(cb=['RCPT'], codes=[code], post=post,
                    closes=code in ('221', '421'))
    if verb == b'DATA':
        if arg:
            return dict(cb=[], codes=['err'], post=post, closes=False)
        if not st['mail'] or not st['rcpt']:
            return dict(cb=[], codes=['err'], post=post, closes=False)
        code = final('DATA', '354')
        if code != '354':
            return dict(cb=['DATA'], codes=[code], post=post,
                        closes=code in ('221', '421'))
        code2 = final('HAVE_DATA', '250')
        post.update(mail=None, rcpt=None)
        return dict(cb=['DATA', 'HAVE_DATA'], codes=['354', code2],
                    post=post, closes=code2 in ('221', '421'), content=True)
    if verb == b'RSET':
        if arg:
            return dict(cb=[], codes=['err'], post=post, closes=False)
        code = final('RSET', '250')
        if code == '250':
            post.update(mail=None, rcpt=None)
        return dict(cb=['RSET'], codes=[code], post=post,
                    closes=code in ('221', '421'))
    if verb == b'NOOP':
        code = final('NOOP', '250')
        return dict(cb=['NOOP'], codes=[code], post=post,
                    closes=code in ('221', '421'))
    if verb == b'QUIT':
        if arg:
            return dict(cb=[], codes=['err'], post=post, closes=False)
        code = final('QUIT', '221')
        return dict(cb=['QUIT'], codes=[code], post=post,
                    closes=code in ('221', '421'))
    if verb == b'XFOO':
        code = final('XFOO', '500')
        return dict(cb=['XFOO'], codes=[code], post=post,
                    closes=code in ('221', '421'))
    # STARTTLS / AUTH without the extension, unknown verbs: error, no callback
    return dict(cb=[], codes=['err'], post=post, closes=False)


def flags(server):
    return dict(bannered=bool(server.bannered), greeted=bool(server.ehlo_as),
                mail=server.have_mailfrom, rcpt=server.have_rcptto)


def same_truth(a, b):
    return bool(a) == bool(b)


def check_step(line, st, ref, handlers, server, sock, ended, info,
               banner_replies=1):
    codes = split_replies(sock)[banner_replies:]
    cbs = [t[0] for t in handlers.trace if t[0] != 'BANNER_']
    api.observe('codes', codes)
    api.observe('callbacks', cbs)
    # sentinel NOOP: answered iff the session did not end
    want_cb = list(ref['cb'])
    if ref['closes'] is None:
        # error reply then the session may end (bare MAIL/RCPT, bad UTF-8)
        api.prove(len(codes) >= 1 and Or(codes[0][0:1] == b'4',
                                         codes[0][0:1] == b'5'),
                  'malformed-command-without-error-reply', **info)
        api.prove(not [c for c in cbs if c in ('MAIL', 'RCPT', 'DATA',
                                               'HAVE_DATA', 'EHLO', 'HELO')],
                  'callback-for-malformed-command', cbs=cbs, **info)
        return
    n_expected = len(ref['codes']) + (0 if ref['closes'] else 1)
    if not ref['closes']:
        want_cb.append('NOOP')
    api.prove(cbs == want_cb, 'callback-trace-differs', got=cbs,
              want=want_cb, **info)
    if not api.prove(len(codes) == n_expected, 'reply-count-differs',
                     got=[bytes(c) if isinstance(c, bytes) else '?' for c in codes],
                     want=n_expected, closes=ref['closes'], **info):
        return
    for got, want in zip(codes, ref['codes']):
        if want == 'err':
            api.prove(Or(got[0:1] == b'4', got[0:1] == b'5'),
                      'no-error-reply-for-rejected-command', **info)
        else:
            api.prove(got == want.encode(), 'reply-code-differs', want=want,
                      **info)
    if ref['closes']:
        api.prove(handlers.closed and ended == 'returned',
                  'close-code-did-not-end-session', ended=ended, **info)
    else:
        post = flags(server)
        for k in ('greeted', 'mail', 'rcpt'):
            api.prove(same_truth(post[k], ref['post'][k]),
                      'post-state-differs', field=k, got=post[k],
                      want=ref['post'][k], **info)


def pre_states():
    out = []
    for bannered in (True, False):
        for greeted in (True, False):
            for mail in (None, False, True):
                for rcpt in (None, False, True):
                    if greeted and not bannered:
                        continue
                    if mail and not greeted:
                        continue
                    if rcpt and not mail:
                        continue
                    if (mail is False or rcpt is False) and not greeted:
                        continue
                    out.append(dict(bannered=bannered, greeted=greeted,
                                    mail=mail, rcpt=rcpt))
    return out


PRE = pre_states()


def run(cell):
    return globals()['run_' + cell['kind']](cell)


def _step(line, info):
    st = PRE[api.choice('state', len(PRE))]
    size_ext = [None, 10][api.choice('size_ext', 2)]
    verdicts = {}

    def verdict(name):
        if name not in verdicts:
            verdicts[name] = VERDICTS[api.choice('v_' + name, len(VERDICTS))]
        return verdicts[name]
    holder = {}

    def on_banner(reply):
        srv = holder['server']
        if not st['bannered']:
            reply.code = '554'
        srv.ehlo_as = 'client' if st['greeted'] else None
        srv.have_mailfrom = st['mail']
        srv.have_rcptto = st['rcpt']
        if size_ext is not None:
            srv.extensions.add('SIZE', size_ext)
    handlers = Rec(verdict, on_banner)
    lines = [line]
    ref = ref_step(st, line, verdict, size_ext) if not api.is_sseq(line) \
        else None
    return st, size_ext, verdict, handlers, holder, lines, ref


def run_step(cell):
    idx = cell['lines'][api.choice('line', len(cell['lines']))]
    line = LINES[idx]
    info = dict(line=line.decode('latin-1'))
    st, size_ext, verdict, handlers, holder, lines, ref = _step(line, info)
    info.update(state=st, size_ext=size_ext)
    script = [line]
    if ref.get('content'):
        script.append(CONTENT[:-2])
    script.append(b'NOOP')
    server, sock, ended = run_session(
        script, handlers, lambda s: holder.__setitem__('server', s))
    check_step(line, st, ref, handlers, server, sock, ended, info)


def run_symline(cell):
    """a fully symbolic command line: whatever it is, at most the callbacks
    the reference lexer + automaton allow, exactly one reply"""
    n = cell['n']
    line = api.sbytes('l', n)
    for i in range(n):
        api.assume(And(line[i] != 10, line[i] != 13))
    st = PRE[api.choice('state', len(PRE))]
    verdicts = {}

    def verdict(name):
        if name not in verdicts:
            verdicts[name] = VERDICTS[api.choice('v_' + name, len(VERDICTS))]
        return verdicts[name]
    holder = {}

    def on_banner(reply):
        srv = holder['server']
        if not st['bannered']:
            reply.code = '554'
        srv.ehlo_as = 'client' if st['greeted'] else None
        srv.have_mailfrom = st['mail']
        srv.have_rcptto = st['rcpt']
    handlers = Rec(verdict, on_banner)
    server, sock, ended = run_session(
        [line, b'NOOP'], handlers,
        lambda s: holder.__setitem__('server', s))
    info = dict(state=st, n=n)
    codes = split_replies(sock)[1:]
    cbs = [t[0] for t in handlers.trace if t[0] != 'BANNER_']
    api.observe('codes', codes)
    # a <=4 byte line cannot be a valid MAIL/RCPT (they need an argument);
    # DATA needs an open transaction
    api.prove(not [c for c in cbs if c in ('MAIL', 'RCPT', 'HAVE_DATA',
                                           'EHLO', 'HELO')],
              'callback-for-impossible-command', cbs=cbs, **info)
    if 'DATA' in cbs:
        api.prove(bool(st['mail']) and bool(st['rcpt']),
                  'DATA-callback-without-transaction', **info)
    closed = handlers.closed
    api.prove(len(codes) >= 1, 'no-reply-for-command-line', **info)
    if not closed and ended == 'connection-lost':
        # line reply + sentinel reply (+354 if DATA went through)
        extra = 1 if ('DATA' in cbs and verdict('DATA') is None) else 0
        api.prove(len(codes) == 2 + extra or
                  ('DATA' in cbs and verdict('DATA') is None),
                  'reply-count-differs', got=len(codes), **info)


def run_seq(cell):
    depth = cell['depth']
    lines = [SEQ_LINES[cell['first']]]
    for d in range(1, depth):
        lines.append(SEQ_LINES[api.choice('l%d' % d, len(SEQ_LINES))])
    verdict_log = []
    counter = [0]

    def verdict(name):
        k = counter[0]
        counter[0] += 1
        v = VERDICTS[api.choice('v%d_%s' % (k, name), 3)]   # no 421 here
        verdict_log.append((name, v))
        return v
    handlers = Rec(verdict)
    script = []
    for ln in lines:
        script.append(ln)
        if ln == b'DATA':
            script.append(CONTENT[:-2])
    server, sock, ended = run_session(script, handlers)
    info = dict(lines=[l.decode('latin-1') for l in lines])
    # replay the reference automaton over the whole sequence using the
    # verdicts the run actually drew
    st = dict(bannered=True, greeted=False, mail=None, rcpt=None)
    want_cb = []
    vi = [0]

    def ref_verdict(name):
        k = vi[0]
        vi[0] += 1
        if k < len(verdict_log) and verdict_log[k][0] == name:
            return verdict_log[k][1]
        return 'MISMATCH'
    nrep = 1
    consumed_content = False
    alive = True
    for ln in lines:
        if not alive:
            break
        r = ref_step(st, ln, ref_verdict, None)
        if r['closes'] is None:
            nrep += 1
            alive = False
            break
        want_cb.extend(r['cb'])
        nrep += len(r['codes'])
        if r['closes']:
            alive = False
            break
        if ln == b'DATA' and not r.get('content'):
            # the content lines are then read as commands: 3 more replies
            nrep += 4
            want_cb_extra = []
        st = r['post']
    cbs = [t[0] for t in handlers.trace if t[0] != 'BANNER_']
    codes = split_replies(sock)
    api.observe('cbs', cbs)
    if any(ln == b'DATA' for ln in lines) and 'HAVE_DATA' not in want_cb \
            and 'DATA' in [l.decode() for l in lines]:
        # content lines parsed as commands make exact counting pointless;
        # only the order constraints are judged on these paths
        pass
    else:
        api.prove(cbs == want_cb, 'callback-trace-differs', got=cbs,
                  want=want_cb, **info)
        api.prove(len(codes) == nrep, 'reply-count-differs', got=len(codes),
                  want=nrep, **info)
    # order constraints straight from the property, on every path
    greeted = mail = rcpt = False
    data_ok = False
    for t in handlers.trace:
        name = t[0]
        if name in ('EHLO', 'HELO'):
            pass
        if name == 'MAIL':
            api.prove(greeted and not mail, 'MAIL-callback-out-of-order',
                      **info)
        if name == 'RCPT':
            api.prove(mail, 'RCPT-callback-out-of-order', **info)
        if name == 'DATA':
            api.prove(mail and rcpt, 'DATA-callback-out-of-order', **info)
        if name == 'HAVE_DATA':
            api.prove(data_ok, 'HAVE_DATA-callback-out-of-order', **info)
        # state follows the verdicts that were drawn
        v = None
        for i, (n2, vv) in enumerate(verdict_log):
            if n2 == name:
                v = vv
                del verdict_log[i]
                break
        if name in ('EHLO', 'HELO') and v is None:
            greeted, mail, rcpt = True, False, False
        elif name == 'MAIL' and v is None:
            mail = True
        elif name == 'RCPT' and v is None:
            rcpt = True
        elif name == 'RSET' and v is None:
            mail = rcpt = False
        data_ok = (name == 'DATA' and v is None)
        if name == 'HAVE_DATA':
            mail = rcpt = False


def classify(cell, inputs, failure):
    return {'kind': cell['kind']}
