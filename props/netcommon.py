"""In-memory blocking sockets and a scripted SMTP/LMTP peer for the relay-side
harnesses (C06 C11 C14 C19), on the virtual-time gevent loop."""
from symx import api
from . import qcommon as qc

_FDS = {}
_next_fd = [1000]


class PipeSocket(object):
    """One end of an in-memory full-duplex byte stream.  recv() blocks (gevent
    Event) until the peer has sent something or closed."""

    def __init__(self, name=''):
        from gevent.event import Event
        self.name = name
        self.inbuf = []          # list of chunks
        self.ev = Event()
        self.peer = None
        self.closed = False
        self.peer_closed = False
        self.sent_log = []
        self.fd = _next_fd[0]
        _next_fd[0] += 1
        _FDS[self.fd] = self
        self.use_fd = False
        self.recv_times = []

    def _feed(self, data):
        if len(data):
            self.inbuf.append(data)
            self.ev.set()

    def sendall(self, data):
        if self.closed:
            raise OSError(32, 'Broken pipe')
        self.sent_log.append((qc.now(), data))
        if self.peer is not None:
            if self.peer.closed:
                import errno
                raise OSError(errno.ECONNRESET, 'Connection reset by peer')
            self.peer._feed(data)

    send = sendall

    def recv(self, n=4096):
        while not self.inbuf:
            if self.peer_closed or self.closed:
                return b''
            self.ev.clear()
            self.ev.wait()
        chunk = self.inbuf.pop(0)
        if len(chunk) > n:
            self.inbuf.insert(0, chunk[n:])
            chunk = chunk[:n]
        return chunk

    def readable(self):
        return bool(self.inbuf) or self.peer_closed

    def close(self):
        if self.closed:
            return
        self.closed = True
        if self.peer is not None:
            self.peer.peer_closed = True
            self.peer.ev.set()
        self.ev.set()

    def shutdown(self, how):
        pass

    def fileno(self):
        return self.fd if self.use_fd else -1

    def getpeername(self):
        return ('192.0.2.1', 25)

    def settimeout(self, t):
        pass


def socketpair():
    a, b = PipeSocket('client'), PipeSocket('server')
    a.peer, b.peer = b, a
    return a, b


def fake_wait_read(fd, timeout=None, timeout_exc=None):
    """stand-in for gevent.socket.wait_read over PipeSockets"""
    s = _FDS.get(fd)
    if s is not None and s.readable():
        return
    if timeout_exc is not None:
        raise timeout_exc
    from gevent import Timeout
    raise Timeout()


def reset():
    _FDS.clear()
    _next_fd[0] = 1000


class ScriptedPeer(object):
    """Reactive fake SMTP/LMTP server behind the client's socket.  For every
    stage it asks `script(stage, index)` for one of:
        ('reply', code, [lines][, unsolicited bytes behind the reply
                                [, 'same-segment']])
        ('close',)   ('stall',)   ('garbage', bytes)
    Stages: banner EHLO HELO LHLO STARTTLS AUTH MAIL RCPT DATA EOD RSET QUIT
    NOOP other.  It implements the SMTP framing automaton (DATA content up to
    the lone dot when it answered DATA with 354; LMTP: one EOD stage per RCPT
    it answered 2xx)."""

    def __init__(self, script, lmtp=False):
        self.script = script
        self.lmtp = lmtp
        self.client, self.server = socketpair()
        self.server_side = self.server
        self.inbuf = b''
        self.mode = 'cmd'
        self.accepted = []
        self.rcpts_seen = []
        self.log = []            # (stage, action)
        self.stalled = False
        self.counts = {}
        self.content = []
        self.cur = b''
        orig_feed = self.server._feed

        def feed(data):
            self._on_data(data)
        self.server._feed = feed
        self.mail_from = []
        self.commands = []

    def start(self):
        self._act('banner')
        return self.client

    def _say(self, data):
        if not self.server.closed and not self.client.closed:
            self.client._feed(data)

    def _act(self, stage, arg=None):
        if self.stalled or self.server.closed:
            return None
        i = self.counts.get(stage, 0)
        self.counts[stage] = i + 1
        a = self.script(stage, i)
        self.log.append((stage, a, arg))
        if a[0] == 'reply':
            code, lines = a[1], a[2]
            wire = b''
            for j, ln in enumerate(lines):
                sep = b' ' if j == len(lines) - 1 else b'-'
                wire = wire + code.encode('ascii') + sep + \
                    (ln.encode('utf-8') if not isinstance(ln, bytes)
                     else ln) + b'\r\n'
            if len(a) > 4 and a[4] == 'same-segment':
                wire = wire + a[3]  # unsolicited bytes right behind the reply
            self._say(wire)
            if len(a) == 4:
                self._say(a[3])     # unsolicited bytes, in their own segment
            return code
        if a[0] == 'close':
            self.server.close()
            return None
        if a[0] == 'garbage':
            self._say(a[1])
            return None
        self.stalled = True
        return None

    def _on_data(self, data):
        self.inbuf = self.inbuf + data
        while True:
            i = self.inbuf.find(b'\n')
            if i < 0:
                return
            line, self.inbuf = self.inbuf[:i + 1], self.inbuf[i + 1:]
            if self.mode == 'data':
                if line in (b'.\r\n', b'.\n'):
                    self.mode = 'cmd'
                    self.content.append(self.cur)
                    self.cur = b''
                    k = len(self.accepted) if self.lmtp else 1
                    for j in range(k):
                        self._act('EOD', self.accepted[j] if self.lmtp
                                  else None)
                    self.accepted = []
                else:
                    self.cur = self.cur + line
                continue
            self.commands.append(line)
            if self.mode == 'auth':
                # a response to a 334 challenge: the AUTH stage goes on
                self.mode = 'cmd'
                stage = 'AUTH'
            else:
                verb = line.split(None, 1)[0].upper() if line.strip() else b''
                stage = verb.decode('ascii', 'replace')
            if stage not in ('EHLO', 'HELO', 'LHLO', 'STARTTLS', 'AUTH',
                             'MAIL', 'RCPT', 'DATA', 'RSET', 'QUIT', 'NOOP'):
                stage = 'other'
            code = self._act(stage, line)
            if code is None:
                continue
            if stage == 'AUTH' and code == '334':
                self.mode = 'auth'
            if stage == 'DATA' and code == '354':
                self.mode = 'data'
            elif stage == 'RCPT' and code[0:1] == '2':
                self.accepted.append(line)
            elif stage in ('RSET', 'EHLO', 'LHLO', 'HELO'):
                self.accepted = []
            elif stage == 'MAIL':
                self.accepted = []
            if stage == 'QUIT':
                self.server.close()


def ok_script(extensions=('PIPELINING', '8BITMIME', 'SMTPUTF8'), over=None):
    """the all-success script; `over` maps (stage, index) -> action"""
    over = over or {}

    def script(stage, i):
        a = over.get((stage, i))
        if a is None:
            a = over.get((stage, None))
        if a is not None:
            return a
        if stage == 'banner':
            return ('reply', '220', ['ready'])
        if stage in ('EHLO', 'LHLO'):
            return ('reply', '250', ['hello'] + list(extensions))
        if stage == 'DATA':
            return ('reply', '354', ['go'])
        if stage == 'QUIT':
            return ('reply', '221', ['bye'])
        if stage == 'other':
            return ('reply', '500', ['what'])
        return ('reply', '250', ['ok'])
    return script
