"""C06 - a relay hop preserves sender, recipients and content end to end.

Real code executed (both ends, joined by an in-memory socket pair on the
virtual loop): StaticSmtpRelay / SmtpRelayClient._run/_handshake/_deliver/
_send_envelope/_send_message_data, Client.ehlo/mailfrom/rcptto/_encode/_xtext/
data/send_data, DataSender, IO.*, Server.handle/_command_EHLO/_command_MAIL/
_command_RCPT/_gather_params/_get_message_data, find_outside_quotes,
DataReader, Extensions.build_string/parse_string, SmtpEdge/SmtpSession,
Envelope.parse/flatten; HTTP: HttpRelayClient._build_headers/_b64encode/
_parse_smtp_reply_header, WsgiEdge._get_sender/_get_recipients/_b64decode,
_build_http_response.
"""
from symx import api
from symx.api import And, Or, Not
from . import qcommon as qc
from . import netcommon as nc
from .common import quiet_logging

PROPERTY = 'C06'
EXPECT_ENTERED = ['Client.mailfrom', 'Client.rcptto', 'Client._encode',
                  'Client.ehlo', 'Server._command_MAIL',
                  'Server._command_RCPT', 'Server._gather_params',
                  'find_outside_quotes', 'Extensions.build_string',
                  'Extensions.parse_string', 'SmtpSession.HAVE_DATA',
                  'SmtpRelayClient._deliver',
                  'HttpRelayClient._build_headers',
                  'WsgiEdge._get_sender', 'WsgiEdge._get_recipients',
                  '_build_http_response']
BOUNDS = {
    'quick': 'SMTP hop: sender and first recipient of the form <local>@d.tld '
             'with local = k<=2 (atext, quoted: 3) symbolic characters from atext or U+00C0..'
             'U+07FF (SMTPUTF8), or a quoted string of k<=3 symbolic '
             'characters (any printable ASCII incl. space < > @ ; quoted '
             'pairs \\" and \\\\ at a chosen position), or the null sender; a '
             'second concrete recipient; header block from a menu, body of '
             'b<=2 symbolic bytes; server advertising SIZE and/or AUTH or '
             'neither; the edge answering end-of-data with a symbolic 2xx/'
             '4xx/5xx code, or refusing the sender, every recipient, the '
             'first or the last recipient with a symbolic 4xx/5xx code.  HTTP hop: the same address forms through '
             '_build_headers -> (headers joined with ", ") -> _get_sender / '
             '_get_recipients, reply header round trip with a symbolic code',
    'thorough': 'k<=3, b<=2',
}
OUTSIDE = ('LMTP client against the SMTP edge (the edge does not speak LHLO); '
           'STARTTLS/AUTH exchanges (C08); the HTTP server below the WSGI '
           'callable (assumed to join repeated headers with ", " as '
           'gevent.pywsgi does); header block beyond the menu (C20)')
STUBS = ['PipeSocket pair', 'recording queue behind the edge', 'PtrLookup '
         '-> inert', 'virtual-time loop', 'WSGI gateway contract for response '
         'headers (latin-1, no CR/LF; otherwise a bare 500), as gevent.pywsgi '
         'enforces it']
ASSUMPTIONS = ['validity predicate for addresses: dot-atom without dots or '
               'quoted-string local part, fixed domain']
CELL_BUDGET_S = {'quick': 240, 'thorough': 2400}
SAMPLE_P = 0.02
MAX_WITNESSES = 10
MAX_DECISIONS = 60000

ATEXT = "!#$%&'*+-/=?^_`{|}~0123456789" \
    "ABCDEFGHIJKLMNOPQRSTUVWXYZabcdefghijklmnopqrstuvwxyz"
HDRS = [b'Subject: hi\r\n\r\n', b'From: a@b\r\nX-Long: v\r\n w\r\n\r\n']


def cells(tier):
    out = []
    k = 2 if tier == 'quick' else 3
    for form in ('atext', 'utf8', 'quoted', 'qpair', 'null'):
        for ext in ('none', 'size', 'auth'):
            if form in ('utf8', 'null') and ext != 'none':
                continue
            if form in ('utf8', 'qpair'):
                for which in ('snd', 'rcp'):
                    out.append({'kind': 'smtp', 'form': form, 'k': k,
                                'ext': ext, 'b': 1, 'which': which})
                continue
            out.append({'kind': 'smtp', 'form': form, 'k': k if form != 'null'
                        else 0, 'ext': ext, 'b': 2 if form == 'atext' else 1})
    out.append({'kind': 'smtp', 'form': 'atext', 'k': 1, 'ext': 'none',
                'b': 0, 'stages': 1})
    out.append({'kind': 'smtp', 'form': 'null', 'k': 0, 'ext': 'size',
                'b': 0, 'stages': 1})
    if tier == 'quick':
        out.append({'kind': 'smtp', 'form': 'atext', 'k': 3, 'ext': 'none',
                    'b': 1})
        out.append({'kind': 'smtp', 'form': 'quoted', 'k': 3, 'ext': 'none',
                    'b': 0})
    for form in ('atext', 'utf8', 'quoted'):
        cell = {'kind': 'http', 'form': form, 'k': k}
        if tier != 'quick' and form == 'utf8':
            out = api.shards(cell, 16, 10) + out     # > 40 CPU-minutes
        else:
            out.append(cell)
    out.append({'kind': 'httpreply'})
    return out


def setup(mode):
    quiet_logging()
    import slimta.edge.smtp as es
    import slimta.edge.wsgi as ew
    import slimta.relay.smtp.static
    import slimta.relay.http
    import slimta.smtp.client as sc
    sc.wait_read = nc.fake_wait_read

    class NoPtr(object):
        def __init__(self, ip):
            pass

        def start(self):
            pass

        def finish(self, *a, **k):
            return None

        def kill(self, *a, **k):
            pass
    es.PtrLookup = NoPtr
    ew.PtrLookup = NoPtr


def sym_address(name, form, k):
    """-> address (str / symbolic str) satisfying the validity predicate"""
    if form == 'null':
        return ''
    if form == 'atext':
        loc = api.sstr(name, k, 0x21, 0x7e)
        for i in range(k):
            api.assume(Or(*[loc[i:i + 1] == c for c in ATEXT]))
        return loc + '@d.tld'
    if form == 'utf8':
        loc = api.sstr(name, k, 0x21, 0x7ff)
        for i in range(k):
            c = loc[i:i + 1]
            api.assume(Or(And(c >= 'a', c <= 'z'),
                          And(c >= 'À', c <= '߿')))
        return loc + '@d.tld'
    if form == 'quoted':
        q = api.sstr(name, k, 0x20, 0x7e)
        for i in range(k):
            c = q[i:i + 1]
            api.assume(And(c != '"', c != '\\'))
        return '"' + q + '"@d.tld'
    # quoted string with one quoted pair at a chosen position
    q = api.sstr(name, k, 0x20, 0x7e)
    for i in range(k):
        c = q[i:i + 1]
        api.assume(And(c != '"', c != '\\'))
    pos = api.choice(name + '_qp', k + 1)
    pair = ['\\"', '\\\\'][api.choice(name + '_qpc', 2)]
    return '"' + q[:pos] + pair + q[pos:] + '"@d.tld'


class RecQueue(object):
    def __init__(self, verdict):
        self.got = []
        self.verdict = verdict

    def enqueue(self, envelope):
        from slimta.queue import QueueError
        from slimta.smtp.reply import Reply
        self.got.append(envelope)
        code = self.verdict
        if code is None:
            return [(envelope, 'queued-id')]
        e = QueueError('refused')
        e.reply = Reply(code, 'edge says so')
        return [(envelope, e)]


def run(cell):
    return globals()['run_' + cell['kind']](cell)


def run_smtp(cell):
    import gevent
    from slimta.edge.smtp import SmtpEdge
    from slimta.relay.smtp.static import StaticSmtpRelay
    from slimta.relay.smtp.client import SmtpRelayClient
    from slimta.relay import RelayError
    from slimta.smtp.reply import Reply
    from slimta.envelope import Envelope
    import slimta.edge.smtp as es
    qc.fresh_hub()
    qc.patch_env()
    nc.reset()
    form, k = cell['form'], cell['k']
    which = cell.get('which', 'both')
    sender = sym_address('snd', form, k) if which in ('both', 'snd') \
        else 'sender@example.org'
    if form == 'null':
        rcpt0 = sym_address('rcp', 'atext', 1)
    elif which in ('both', 'rcp'):
        rcpt0 = sym_address('rcp', form, k)
    else:
        rcpt0 = 'first@example.net'
    rcpts = [rcpt0, 'second@example.com']
    body = api.sbytes('body', cell['b'])
    hdr = HDRS[api.choice('hdr', len(HDRS))]
    vclass = api.choice('verdict', 3)
    verdict = None if vclass == 0 else \
        ['4', '5'][vclass - 1] + api.sstr('vcode', 2, 0x30, 0x39)
    # where the edge refuses: 0 = at end of data (queue verdict), 1 = the
    # sender, 2 = every recipient, 3 = the first recipient only, 4 = the
    # last recipient only
    stage = api.choice('stage', 5) if verdict is not None and \
        cell.get('stages') else 0
    if stage in (3, 4):
        # a 421 reply ends the session: no partial delivery to judge
        api.assume(verdict != '421')
    queue = RecQueue(verdict if stage == 0 else None)
    kw = {}
    if stage:
        from slimta.edge.smtp import SmtpValidators

        class Refuse(SmtpValidators):
            def handle_mail(self, reply, sender, params):
                if stage == 1:
                    reply.code = verdict
                    reply.message = 'edge refuses the sender'

            def handle_rcpt(self, reply, recipient, params):
                if stage == 2 or (stage == 3 and
                                  recipient != 'second@example.com') or \
                        (stage == 4 and recipient == 'second@example.com'):
                    reply.code = verdict
                    reply.message = 'edge refuses the recipient'
        kw['validator_class'] = Refuse
    if cell['ext'] == 'size':
        kw['max_size'] = 100000
    if cell['ext'] == 'auth':
        kw['auth'] = [b'PLAIN']
    edge = SmtpEdge(None, queue, hostname='mx.edge', **kw)
    servers = []
    RealServer = es.Server

    class SpyServer(RealServer):
        def __init__(self, *a, **kw2):
            RealServer.__init__(self, *a, **kw2)
            servers.append(self)
    es.Server = SpyServer
    clients = []

    class SpyClient(SmtpRelayClient):
        def _handshake(self):
            SmtpRelayClient._handshake(self)
            clients.append(dict(self.client.extensions.extensions))
    sessions = []

    def creator(address):
        c, s = nc.socketpair()

        def serve():
            try:
                edge.handle(s, ('192.0.2.7', 5555))
            except api.Unsupported:
                raise
            except Exception as e:
                sessions.append(type(e).__name__)
        gevent.spawn(serve)
        return c
    relay = StaticSmtpRelay('mx.edge', 25, socket_creator=creator,
                            ehlo_as='relay.client', context=object(),
                            client_class=SpyClient)
    env = Envelope(sender, list(rcpts))
    env.parse(hdr + body)
    sent_h, sent_b = env.flatten()
    out = []

    def go():
        try:
            out.append(('value', relay.attempt(env, 0)))
        except RelayError as e:
            out.append(('relay-error', e))
        except api.Unsupported:
            raise
        except Exception as e:
            out.append(('other', e))
    gevent.spawn(go)
    try:
        qc.run_until_quiescent()
    finally:
        es.Server = RealServer
    info = dict(form=form, ext=cell['ext'], k=k, stage=stage)
    if not api.prove(len(out) == 1, 'attempt-never-finished', **info):
        return
    kind, val = out[0]
    api.observe('kind', kind)
    if not api.prove(kind != 'other', 'non-relay-exception',
                     exc=type(val).__name__, **info):
        return
    if stage in (1, 2):
        # envelope refused: nothing reaches the queue behind the edge and
        # the relay reports the reply the edge gave for MAIL / RCPT
        api.prove(len(queue.got) == 0, 'message-accepted-although-refused',
                  **info)
        if api.prove(kind == 'relay-error',
                     'refused-message-reported-as-success', **info):
            api.prove(val.reply.code == verdict,
                      'result-code-differs-from-edge-reply',
                      got=val.reply.code, **info)
        return
    if stage == 3:
        rcpts_expected = rcpts[1:]
    elif stage == 4:
        rcpts_expected = rcpts[:1]
    else:
        rcpts_expected = rcpts
    if not api.prove(len(queue.got) == 1, 'edge-did-not-receive-the-message',
                     n=len(queue.got), result=kind, **info):
        return
    got = queue.got[0]
    api.observe('got_sender', got.sender)
    api.prove(got.sender == sender, 'sender-changed', **info)
    api.prove(len(got.recipients) == len(rcpts_expected),
              'recipient-count-changed', n=len(got.recipients), **info)
    if len(got.recipients) == len(rcpts_expected):
        for i, (a, b) in enumerate(zip(got.recipients, rcpts_expected)):
            api.prove(a == b, 'recipient-changed', index=i, **info)
    gh, gb = got.flatten()
    api.prove(gh == sent_h, 'header-block-changed', **info)
    crlf = sent_b[-2:] == b'\r\n'
    api.prove(Or(gb == sent_b, And(Not(crlf), gb == sent_b + b'\r\n')),
              'body-changed', **info)
    # extensions seen by the client == advertised by the server
    if servers and clients:
        adv = servers[0].extensions.extensions
        seen = clients[0]
        api.prove(sorted(adv.keys()) == sorted(seen.keys()),
                  'client-sees-other-extensions', adv=sorted(adv),
                  seen=sorted(seen), **info)
        for name in adv:
            if adv[name] and name in seen and name != 'AUTH':
                api.prove(str(adv[name]) == seen[name],
                          'extension-parameter-changed', name=name, **info)
    # the relay reports what the edge answered
    if stage in (3, 4):
        if api.prove(kind == 'value' and hasattr(val, 'values'),
                     'partial-refusal-not-reported-per-recipient', **info):
            vals = list(val.values())
            if api.prove(len(vals) == 2, 'result-count-differs', **info):
                v0, v1 = vals if stage == 3 else vals[::-1]
                api.prove(isinstance(v0, RelayError) and
                          v0.reply.code == verdict,
                          'result-code-differs-from-edge-reply', rcpt=0,
                          **info)
                api.prove(isinstance(v1, Reply) and v1.code == '250',
                          'result-code-differs-from-edge-reply', rcpt=1,
                          **info)
    elif verdict is None:
        if api.prove(kind == 'value', 'accepted-message-reported-as-failure',
                     **info):
            vals = list(val.values()) if hasattr(val, 'values') \
                else [val] * len(rcpts)
            api.prove(len(vals) == len(rcpts), 'result-count-differs',
                      **info)
            for v in vals:
                api.prove(isinstance(v, Reply) and v.code == '250',
                          'result-code-differs-from-edge-reply', **info)
    else:
        if api.prove(kind == 'relay-error',
                     'refused-message-reported-as-success', **info):
            api.prove(val.reply.code == verdict,
                      'result-code-differs-from-edge-reply', **info)


def run_http(cell):
    from slimta.relay.http import HttpRelay, HttpRelayClient
    from slimta.edge.wsgi import WsgiEdge
    from slimta.envelope import Envelope
    qc.fresh_hub()
    qc.patch_env()
    form, k = cell['form'], cell['k']
    sender = sym_address('snd', form, k)
    rcpt0 = sym_address('rcp', form, k)
    rcpts = [rcpt0, 'second@example.com', rcpt0]
    relay = HttpRelay('http://edge.test/')
    client = HttpRelayClient(relay)
    client.ehlo_as = 'relay.client'
    env = Envelope(sender, list(rcpts))
    headers = client._build_headers(env, b'Subject: x\r\n\r\n', b'body')
    environ = {}
    for name, value in headers:
        key = 'HTTP_' + name.upper().replace('-', '_')
        if key in environ:
            environ[key] = environ[key] + ', ' + value
        else:
            environ[key] = value
    edge = WsgiEdge(RecQueue(None), hostname='mx.edge')
    info = dict(form=form, k=k)
    try:
        got_sender = edge._get_sender(environ)
        got_rcpts = edge._get_recipients(environ)
    except api.Unsupported:
        raise
    except Exception as e:
        api.fail('edge-raised', exc=type(e).__name__, **info)
        return
    api.observe('sender', got_sender)
    api.prove(got_sender == sender, 'sender-changed', **info)
    api.prove(len(got_rcpts) == len(rcpts), 'recipient-count-changed',
              n=len(got_rcpts), **info)
    if len(got_rcpts) == len(rcpts):
        for i, (a, b) in enumerate(zip(got_rcpts, rcpts)):
            api.prove(a == b, 'recipient-changed', index=i, **info)
    api.prove(edge._get_ehlo(environ) == 'relay.client', 'ehlo-changed',
              **info)


def run_httpreply(cell):
    from slimta.relay.http import HttpRelay, HttpRelayClient
    from slimta.edge.wsgi import _build_http_response
    from slimta.smtp.reply import Reply
    from .c11 import FakeHTTPResponse
    qc.fresh_hub()
    code = api.sstr('c0', 1, 0x32, 0x35) + api.sstr('c12', 2, 0x30, 0x39)
    api.assume(code[0:1] != '3')
    msg = ['2.0.0 fine', 'try again later', '5.1.1 no such user; really',
           'weird = "quoted" text', 'line one\r\nline two',
           '5.1.1 Utilisateur inconnu \u2603', 'caf\xe9 ferm\xe9'][
        api.choice('msg', 7)]
    # replies that come from a relay behind the edge (ProxyQueue) carry the
    # command they answer, as bytes
    cmd = [None, 'DATA', b'RCPT', b'[SEND_DATA]'][api.choice('command', 4)]
    reply = Reply(code, msg, command=cmd)
    try:
        res = _build_http_response(reply)
    except api.Unsupported:
        raise
    except Exception as e:
        api.fail('edge-raised', exc=type(e).__name__, msg=msg,
                 command=repr(cmd))
        return
    relay = HttpRelay('http://edge.test/')
    client = HttpRelayClient(relay)
    http_res = FakeHTTPResponse(int(res.status[:3]), res.status[4:],
                                res.headers)
    # the WSGI gateway's side of PEP 3333 (as gevent.pywsgi enforces it): a
    # header value is a latin-1 str without CR / LF, or the request ends as
    # a bare 500
    for name, value in res.headers:
        # (the only symbolic characters of the value are the code's digits)
        chars = [x for x in value._e if isinstance(x, int)] \
            if api.is_sseq(value) else [ord(c) for c in value]
        if not all(c < 256 and c not in (10, 13) for c in chars):
            http_res = FakeHTTPResponse(500, 'Internal Server Error', [])
    info = dict(msg=msg)
    back = client._parse_smtp_reply_header(http_res)
    if api.prove(back is not None, 'reply-header-not-parsed', **info):
        api.prove(back.code == code, 'result-code-differs-from-edge-reply',
                  **info)
    st = res.status[:1]
    api.prove(Or(And(code[0:1] == '2', st == '2'),
                 And(code[0:1] != '2', st != '2')),
              'http-status-class-differs-from-reply-class', status=res.status,
              **info)


def classify(cell, inputs, failure):
    return {'kind': cell['kind'], 'form': cell.get('form')}
